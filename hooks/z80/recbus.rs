//! RecBus -- a recording `Z80Bus`.
//!
//! * the k-th read of the instruction phase (opcode, operand, memory, port) returns `rd[k]`; the k-th
//!   read of interrupt entry (IM 2 bus byte, vector table bytes -- everything before the first
//!   opcode fetch of the call) returns `ird[k]`: memory and ports are over-approximated as input
//!   streams (two reads of one address may differ), which is sound for transducer equality because
//!   the oracle is fed the same streams in the same order;
//! * INT / NMI line levels are set by the harness before each `emulate()`;
//! * every bus call is appended to a fixed-size log in the vocabulary of `refz80`:
//!     read(addr, 4)          -> K_M1   (rustzx presents opcode fetches as 4-clock reads)
//!     read(addr, n != 4)     -> K_MR   t = n
//!     write(addr, v, n)      -> K_MW   t = n
//!     wait_no_mreq(addr, n)  -> K_DLY  t = n   (wait_loop(addr, n) is overridden: ONE run-length
//!     wait_loop(addr, n)     -> K_DLY  t = n    event, no loop)
//!     wait_internal(n)       -> K_INT  t = n
//!     read_io / write_io     -> K_IOR / K_IOW, t = 4 (the 4 T of a port cycle are charged by the
//!                               machine, see C04; the CPU core only names the cycle)
//!     halt(level)            -> K_HALT data = level
//!     reti()                 -> K_RETI
//!     read_interrupt()       -> K_IACK data = byte
//!   `wait_mreq`, `read_internal`, `write_internal` are never called directly by the CPU core (only
//!   through `read`/`write`, which are overridden); a direct call sets `misuse`.
//! * events of interrupt entry go to slots [0, n_int), the events of the instruction phase always
//!   start at slot INT_SLOTS (the first 4-clock read of a call opens the instruction phase), so the
//!   slot of an instruction event does not depend on whether an interrupt was accepted;
//! * overflow of the log or of the input stream sets a flag the harness asserts to be false.
use super::refz80::{
    Ev, CAP, EV0, INT_SLOTS, K_DLY, K_HALT, K_IACK, K_INT, K_IOR, K_IOW, K_M1, K_MR, K_MW, K_RETI, NIRD, NRD,
};
use super::Z80Bus;

pub struct RecBus {
    pub rd: [u8; NRD],
    pub rp: usize,
    pub ird: [u8; NIRD],
    pub irp: usize,
    pub rd_ovf: bool,
    pub ev: [Ev; CAP],
    pub n: usize,
    pub n_int: usize,
    pub in_instr: bool,
    pub ovf: bool,
    pub int: bool,
    pub nmi: bool,
    pub misuse: bool,
    /// a clock argument did not fit the 8-bit T-state field of an event
    pub clk_ovf: bool,
}

impl RecBus {
    pub fn new(rd: [u8; NRD], ird: [u8; NIRD]) -> RecBus {
        RecBus {
            rd,
            rp: 0,
            ird,
            irp: 0,
            rd_ovf: false,
            ev: [EV0; CAP],
            n: 0,
            n_int: 0,
            in_instr: false,
            ovf: false,
            int: false,
            nmi: false,
            misuse: false,
            clk_ovf: false,
        }
    }
    fn next(&mut self) -> u8 {
        if self.in_instr {
            if self.rp < NRD {
                let v = self.rd[self.rp];
                self.rp += 1;
                v
            } else {
                self.rd_ovf = true;
                0
            }
        } else if self.irp < NIRD {
            let v = self.ird[self.irp];
            self.irp += 1;
            v
        } else {
            self.rd_ovf = true;
            0
        }
    }
    fn clk(&mut self, clk: usize) -> u8 {
        if clk > 255 {
            self.clk_ovf = true;
        }
        clk as u8
    }
    fn push(&mut self, kind: u8, addr: u16, data: u8, t: u8) {
        if self.n < CAP {
            self.ev[self.n] = Ev { kind, addr, data, t };
            self.n += 1;
        } else {
            self.ovf = true;
        }
    }
    pub fn ok(&self) -> bool {
        !self.ovf && !self.rd_ovf && !self.misuse && !self.clk_ovf
    }
}

impl Z80Bus for RecBus {
    fn read_internal(&mut self, _addr: u16) -> u8 {
        self.misuse = true;
        0
    }
    fn write_internal(&mut self, _addr: u16, _data: u8) {
        self.misuse = true;
    }
    fn wait_mreq(&mut self, _addr: u16, _clk: usize) {
        self.misuse = true;
    }
    fn wait_no_mreq(&mut self, addr: u16, clk: usize) {
        let t = self.clk(clk);
        self.push(K_DLY, addr, 0, t);
    }
    fn wait_internal(&mut self, clk: usize) {
        let t = self.clk(clk);
        self.push(K_INT, 0, 0, t);
    }
    fn wait_loop(&mut self, addr: u16, clk: usize) {
        let t = self.clk(clk);
        self.push(K_DLY, addr, 0, t);
    }
    fn read(&mut self, addr: u16, clk: usize) -> u8 {
        if clk == 4 && !self.in_instr {
            // first opcode fetch of the call: interrupt entry (if any) is over
            if self.n > INT_SLOTS {
                self.ovf = true;
            }
            self.n_int = self.n;
            self.n = INT_SLOTS;
            self.in_instr = true;
        }
        let v = self.next();
        let t = self.clk(clk);
        self.push(if clk == 4 { K_M1 } else { K_MR }, addr, v, t);
        v
    }
    fn write(&mut self, addr: u16, value: u8, clk: usize) {
        let t = self.clk(clk);
        self.push(K_MW, addr, value, t);
    }
    fn read_io(&mut self, port: u16) -> u8 {
        let v = self.next();
        self.push(K_IOR, port, v, 4);
        v
    }
    fn write_io(&mut self, port: u16, data: u8) {
        self.push(K_IOW, port, data, 4);
    }
    fn read_interrupt(&mut self) -> u8 {
        let v = self.next();
        self.push(K_IACK, 0, v, 0);
        v
    }
    fn reti(&mut self) {
        self.push(K_RETI, 0, 0, 0);
    }
    fn halt(&mut self, halted: bool) {
        self.push(K_HALT, 0, halted as u8, 0);
    }
    fn int_active(&self) -> bool {
        self.int
    }
    fn nmi_active(&self) -> bool {
        self.nmi
    }
    fn pc_callback(&mut self, _addr: u16) {}
}
