//! Kani-only child module of rustzx-z80/src/registers.rs (cfg(kani)).
