//! Kani-only child module of rustzx-z80/src/registers.rs (cfg(kani)).
//! Raw access to the hidden latches and the alternate register file for the C01-C03 harnesses
//! (hooks/z80/cpu.rs).  No harnesses live here.
use super::*;

impl Regs {
    /// hidden Q latch pair: `q` (flags as left by the last instruction, or 0) and `last_q`
    pub(crate) fn vh_set_hidden(&mut self, q: u8, last_q: u8) {
        self.q = q;
        self.last_q = last_q;
    }
    pub(crate) fn vh_q(&self) -> u8 {
        self.q
    }
    /// alternate register file in the order A' F' B' C' D' E' H' L'
    pub(crate) fn vh_set_alt(&mut self, v: [u8; 8]) {
        self.a_alt = v[0];
        self.f_alt = v[1];
        self.b_alt = v[2];
        self.c_alt = v[3];
        self.d_alt = v[4];
        self.e_alt = v[5];
        self.h_alt = v[6];
        self.l_alt = v[7];
    }
    pub(crate) fn vh_alt(&self) -> [u8; 8] {
        [self.a_alt, self.f_alt, self.b_alt, self.c_alt, self.d_alt, self.e_alt, self.h_alt, self.l_alt]
    }
}
