//! Kani harnesses compiled as a child module of rustzx-z80/src/cpu.rs (cfg(kani) only).
