//! refz80 -- reference model ("oracle") of the NMOS Zilog Z80 used by the C01/C02/C03 harnesses.
//!
//! Written from public Z80 documentation, not from the code under test:
//!  * Zilog Z80 CPU User Manual (instruction semantics, documented flags, M-cycle/T-state tables);
//!  * Sean Young, "The Undocumented Z80 Documented" (undocumented opcodes, F3/F5, DAA table,
//!    block I/O flags, ED mirrors, DD/FD behaviour, interrupt sequencing);
//!  * boo_boo / Vladimir Kladov, "MEMPTR, esoteric register of the Zilog Z80 CPU";
//!  * Patrik Rak's Q-latch rule for SCF/CCF: F.3/5 = ((Q ^ F) | A) & 0x28;
//!  * David Banks / MrKWatkins notes on the flags of *repeating* block instructions;
//!  * the ZX Spectrum contention breakdown tables ("pc:4, ir:1, hl:3, sp-1:3 ...") for the order and
//!    the address of every machine cycle.
//!
//! It is a transducer: `step(state, io, int, nmi)` performs what ONE call of the emulator's
//! `emulate()` is expected to do -- (acceptance of an interrupt at the boundary, if any) followed by
//! one instruction, or by one link of a DD/FD prefix chain -- consuming bytes from an input stream
//! (`Io::rd`, the k-th bus read of the instruction returns the k-th byte; interrupt entry has its own
//! short stream `Io::ird`) and appending bus events.
//!
//! Plain `core` Rust; no allocation; no reference to `kani`.  Compiles natively as well.
#![allow(dead_code)]
#![allow(clippy::all)]

/// bytes of input stream available to the instruction phase of one call (at most 7 are used:
/// DD 2A lo hi + 2 data bytes, or a pending prefix + ED 4B lo hi + 2)
pub const NRD: usize = 8;
/// bytes of input stream available to interrupt entry (IM 2: bus byte + 2 vector table bytes)
pub const NIRD: usize = 3;
/// event slots reserved for interrupt entry; the events of the instruction phase always start at
/// this index, so that their positions do not depend on whether an interrupt was accepted
pub const INT_SLOTS: usize = 8;
/// capacity of an event log (interrupt slots + instruction slots; no instruction needs more than 8)
pub const CAP: usize = 18;

// ---- event vocabulary --------------------------------------------------------------------------
/// opcode fetch (M1): 4 T, address, byte fetched
pub const K_M1: u8 = 1;
/// memory read: 3 T
pub const K_MR: u8 = 2;
/// memory write: 3 T
pub const K_MW: u8 = 3;
/// internal delay T-states during which `addr` is on the address bus without MREQ; `t` = run length
pub const K_DLY: u8 = 4;
/// internal T-states with nothing relevant on the address bus (interrupt acknowledge); `t` = length
pub const K_INT: u8 = 5;
/// port read: one 4-T I/O cycle, addr = port, data = byte read
pub const K_IOR: u8 = 6;
/// port write: one 4-T I/O cycle
pub const K_IOW: u8 = 7;
/// level of the HALT output reported to the bus (data = 1 asserted / 0 released); 0 T
pub const K_HALT: u8 = 8;
/// RETI executed (daisy chain notification); 0 T
pub const K_RETI: u8 = 9;
/// byte taken from the data bus during an IM 2 acknowledge; 0 T (time is in the K_INT event)
pub const K_IACK: u8 = 10;

#[derive(Clone, Copy, PartialEq, Eq, Debug)]
pub struct Ev {
    pub kind: u8,
    pub addr: u16,
    pub data: u8,
    pub t: u8,
}
pub const EV0: Ev = Ev { kind: 0, addr: 0, data: 0, t: 0 };

/// input streams + event log of ONE call
pub struct Io {
    /// instruction-phase input stream: the k-th read (opcode, operand, memory, port) returns rd[k]
    pub rd: [u8; NRD],
    pub rp: usize,
    /// interrupt-entry input stream (IM 2 bus byte, vector table bytes)
    pub ird: [u8; NIRD],
    pub irp: usize,
    pub rd_ovf: bool,
    pub ev: [Ev; CAP],
    /// next free slot; interrupt entry fills [0, n_int), the instruction phase [INT_SLOTS, n)
    pub n: usize,
    pub n_int: usize,
    pub in_instr: bool,
    pub ovf: bool,
}

impl Io {
    pub fn new(rd: [u8; NRD], ird: [u8; NIRD]) -> Io {
        Io { rd, rp: 0, ird, irp: 0, rd_ovf: false, ev: [EV0; CAP], n: 0, n_int: 0, in_instr: false, ovf: false }
    }
    fn next(&mut self) -> u8 {
        if self.in_instr {
            if self.rp < NRD {
                let v = self.rd[self.rp];
                self.rp += 1;
                v
            } else {
                self.rd_ovf = true;
                0
            }
        } else if self.irp < NIRD {
            let v = self.ird[self.irp];
            self.irp += 1;
            v
        } else {
            self.rd_ovf = true;
            0
        }
    }
    /// interrupt entry (if any) is over
    fn begin_instr(&mut self) {
        if self.n > INT_SLOTS {
            self.ovf = true;
        }
        self.n_int = self.n;
        self.n = INT_SLOTS;
        self.in_instr = true;
    }
    fn push(&mut self, kind: u8, addr: u16, data: u8, t: u8) {
        if self.n < CAP {
            self.ev[self.n] = Ev { kind, addr, data, t };
            self.n += 1;
        } else {
            self.ovf = true;
        }
    }
}

// ---- architected state -------------------------------------------------------------------------
#[derive(Clone, Copy, PartialEq, Eq, Debug)]
pub struct St {
    pub a: u8,
    pub f: u8,
    pub b: u8,
    pub c: u8,
    pub d: u8,
    pub e: u8,
    pub h: u8,
    pub l: u8,
    pub a_: u8,
    pub f_: u8,
    pub b_: u8,
    pub c_: u8,
    pub d_: u8,
    pub e_: u8,
    pub h_: u8,
    pub l_: u8,
    pub ix: u16,
    pub iy: u16,
    pub sp: u16,
    pub pc: u16,
    pub i: u8,
    pub r: u8,
    pub iff1: bool,
    pub iff2: bool,
    /// interrupt mode 0, 1, 2
    pub im: u8,
    /// MEMPTR / WZ
    pub wz: u16,
    /// Q latch: F as left by the previous instruction if it modified the flags, else 0
    pub q: u8,
    pub halted: bool,
    /// the next instruction boundary does not sample interrupts (after EI/DI, inside a prefix chain)
    pub inhibit: bool,
    /// prefix byte already consumed by the previous call (0 = none, else 0xDD / 0xFD / 0xED)
    pub pending: u8,
}

/// what one `step` did, beyond state and events
#[derive(Clone, Copy, Debug)]
pub struct Info {
    /// 0 none, 1 maskable interrupt accepted, 2 NMI accepted
    pub accepted: u8,
    /// NMI line active at a boundary where sampling is inhibited: outside the modelled claim
    pub outside: bool,
    /// the call ended inside a prefix chain (DD/FD followed by DD/FD/ED)
    pub chain: bool,
    /// the CPU was halted during the instruction phase (M1 without progress)
    pub halted_m1: bool,
    /// page of the executed instruction: 0 none, 1 CB, 2 ED, 3 DD, 4 FD, 5 DDCB, 6 FDCB
    pub page: u8,
    /// opcode byte within the page (for halted_m1: the byte seen on the bus)
    pub op: u8,
    /// timing variant: condition true / repeat taken
    pub variant: bool,
    /// number of opcode fetch (M1) cycles made by the instruction phase of this call
    pub m1s: u8,
    /// F bits that documentation available to the author does not settle (do not compare)
    pub f_dc: u8,
    /// Q bits that are not settled
    pub q_dc: u8,
}

pub const SF: u8 = 0x80;
pub const ZF: u8 = 0x40;
pub const YF: u8 = 0x20;
pub const HF: u8 = 0x10;
pub const XF: u8 = 0x08;
pub const PF: u8 = 0x04;
pub const NF: u8 = 0x02;
pub const CF: u8 = 0x01;

#[inline]
fn hi(x: u16) -> u8 {
    (x >> 8) as u8
}
#[inline]
fn lo(x: u16) -> u8 {
    x as u8
}
#[inline]
fn w(h: u8, l: u8) -> u16 {
    ((h as u16) << 8) | (l as u16)
}
/// PF if x has an even number of one bits
#[inline]
fn par(x: u8) -> u8 {
    let mut p = x ^ (x >> 4);
    p ^= p >> 2;
    p ^= p >> 1;
    if p & 1 == 0 {
        PF
    } else {
        0
    }
}
#[inline]
fn sz53(x: u8) -> u8 {
    (x & (SF | YF | XF)) | if x == 0 { ZF } else { 0 }
}
#[inline]
fn sz53p(x: u8) -> u8 {
    sz53(x) | par(x)
}
#[inline]
fn fl(c: bool, m: u8) -> u8 {
    if c {
        m
    } else {
        0
    }
}
#[inline]
fn sx(d: u8) -> u16 {
    d as i8 as i16 as u16
}

#[derive(Clone, Copy, PartialEq, Eq)]
enum Ix {
    HL,
    IX,
    IY,
}

struct M<'a> {
    s: &'a mut St,
    io: &'a mut Io,
    /// the instruction wrote F
    fw: bool,
    f_dc: u8,
    q_dc: u8,
    variant: bool,
    m1s: u8,
}

impl<'a> M<'a> {
    // ---- bus cycles ----
    fn m1(&mut self) -> u8 {
        let a = self.s.pc;
        let v = self.io.next();
        self.io.push(K_M1, a, v, 4);
        self.s.pc = a.wrapping_add(1);
        self.inc_r();
        self.m1s = self.m1s.wrapping_add(1);
        v
    }
    fn inc_r(&mut self) {
        self.s.r = (self.s.r & 0x80) | (self.s.r.wrapping_add(1) & 0x7F);
    }
    fn mr(&mut self, a: u16) -> u8 {
        let v = self.io.next();
        self.io.push(K_MR, a, v, 3);
        v
    }
    fn mw(&mut self, a: u16, v: u8) {
        self.io.push(K_MW, a, v, 3);
    }
    fn dly(&mut self, a: u16, n: u8) {
        self.io.push(K_DLY, a, 0, n);
    }
    fn inp(&mut self, port: u16) -> u8 {
        let v = self.io.next();
        self.io.push(K_IOR, port, v, 4);
        v
    }
    fn outp(&mut self, port: u16, v: u8) {
        self.io.push(K_IOW, port, v, 4);
    }
    /// operand byte at PC
    fn imm(&mut self) -> u8 {
        let a = self.s.pc;
        let v = self.mr(a);
        self.s.pc = a.wrapping_add(1);
        v
    }
    fn imm16(&mut self) -> u16 {
        let l = self.imm();
        let h = self.imm();
        w(h, l)
    }
    fn ir(&self) -> u16 {
        w(self.s.i, self.s.r)
    }
    fn push16(&mut self, v: u16) {
        let s1 = self.s.sp.wrapping_sub(1);
        let s2 = self.s.sp.wrapping_sub(2);
        self.mw(s1, hi(v));
        self.mw(s2, lo(v));
        self.s.sp = s2;
    }
    fn pop16(&mut self) -> u16 {
        let sp = self.s.sp;
        let l = self.mr(sp);
        let h = self.mr(sp.wrapping_add(1));
        self.s.sp = sp.wrapping_add(2);
        w(h, l)
    }
    fn setf(&mut self, v: u8) {
        self.s.f = v;
        self.fw = true;
    }

    // ---- registers ----
    fn bc(&self) -> u16 {
        w(self.s.b, self.s.c)
    }
    fn de(&self) -> u16 {
        w(self.s.d, self.s.e)
    }
    fn hl(&self) -> u16 {
        w(self.s.h, self.s.l)
    }
    fn set_bc(&mut self, v: u16) {
        self.s.b = hi(v);
        self.s.c = lo(v);
    }
    fn set_de(&mut self, v: u16) {
        self.s.d = hi(v);
        self.s.e = lo(v);
    }
    fn set_hl(&mut self, v: u16) {
        self.s.h = hi(v);
        self.s.l = lo(v);
    }
    /// HL, or the index register selected by the prefix
    fn hlx(&self, ix: Ix) -> u16 {
        match ix {
            Ix::HL => self.hl(),
            Ix::IX => self.s.ix,
            Ix::IY => self.s.iy,
        }
    }
    fn set_hlx(&mut self, ix: Ix, v: u16) {
        match ix {
            Ix::HL => self.set_hl(v),
            Ix::IX => self.s.ix = v,
            Ix::IY => self.s.iy = v,
        }
    }
    /// 8-bit register by its 3-bit code (6 is not a register); H/L follow the prefix
    fn r8(&self, code: u8, ix: Ix) -> u8 {
        match code & 7 {
            0 => self.s.b,
            1 => self.s.c,
            2 => self.s.d,
            3 => self.s.e,
            4 => hi(self.hlx(ix)),
            5 => lo(self.hlx(ix)),
            7 => self.s.a,
            _ => 0,
        }
    }
    fn set_r8(&mut self, code: u8, ix: Ix, v: u8) {
        match code & 7 {
            0 => self.s.b = v,
            1 => self.s.c = v,
            2 => self.s.d = v,
            3 => self.s.e = v,
            4 => {
                let x = self.hlx(ix);
                self.set_hlx(ix, w(v, lo(x)));
            }
            5 => {
                let x = self.hlx(ix);
                self.set_hlx(ix, w(hi(x), v));
            }
            7 => self.s.a = v,
            _ => {}
        }
    }
    /// register pair by 2-bit code with SP as 3
    fn rp(&self, code: u8, ix: Ix) -> u16 {
        match code & 3 {
            0 => self.bc(),
            1 => self.de(),
            2 => self.hlx(ix),
            _ => self.s.sp,
        }
    }
    fn set_rp(&mut self, code: u8, ix: Ix, v: u16) {
        match code & 3 {
            0 => self.set_bc(v),
            1 => self.set_de(v),
            2 => self.set_hlx(ix, v),
            _ => self.s.sp = v,
        }
    }
    fn cond(&self, code: u8) -> bool {
        let f = self.s.f;
        match code & 7 {
            0 => f & ZF == 0,
            1 => f & ZF != 0,
            2 => f & CF == 0,
            3 => f & CF != 0,
            4 => f & PF == 0,
            5 => f & PF != 0,
            6 => f & SF == 0,
            _ => f & SF != 0,
        }
    }
    /// effective address of the "(HL)" operand: HL, or IX/IY+d with the d fetch and its 5 delay T
    fn ea(&mut self, ix: Ix) -> u16 {
        if ix == Ix::HL {
            self.hl()
        } else {
            let pa = self.s.pc;
            let d = self.mr(pa);
            self.dly(pa, 5);
            self.s.pc = pa.wrapping_add(1);
            let a = self.hlx(ix).wrapping_add(sx(d));
            self.s.wz = a;
            a
        }
    }

    // ---- arithmetic ----
    fn add8(&mut self, v: u8, cin: u8) {
        let a = self.s.a;
        let r16 = (a as u16).wrapping_add(v as u16).wrapping_add(cin as u16);
        let r = r16 as u8;
        let h = (a & 0x0F).wrapping_add(v & 0x0F).wrapping_add(cin) > 0x0F;
        let ov = (a ^ r) & (v ^ r) & 0x80 != 0;
        self.s.a = r;
        self.setf(sz53(r) | fl(h, HF) | fl(ov, PF) | fl(r16 > 0xFF, CF));
    }
    /// returns the difference; flags as SUB (F3/F5 from the result)
    fn sub8_flags(&mut self, a: u8, v: u8, cin: u8) -> u8 {
        let r16 = (a as u16).wrapping_sub(v as u16).wrapping_sub(cin as u16);
        let r = r16 as u8;
        let h = (a & 0x0F) < (v & 0x0F).wrapping_add(cin);
        let ov = (a ^ v) & (a ^ r) & 0x80 != 0;
        self.setf(sz53(r) | fl(h, HF) | fl(ov, PF) | NF | fl(r16 & 0x100 != 0, CF));
        r
    }
    fn alu(&mut self, k: u8, v: u8) {
        let a = self.s.a;
        let c = self.s.f & CF;
        match k & 7 {
            0 => self.add8(v, 0),
            1 => self.add8(v, c),
            2 => {
                let r = self.sub8_flags(a, v, 0);
                self.s.a = r;
            }
            3 => {
                let r = self.sub8_flags(a, v, c);
                self.s.a = r;
            }
            4 => {
                let r = a & v;
                self.s.a = r;
                self.setf(sz53p(r) | HF);
            }
            5 => {
                let r = a ^ v;
                self.s.a = r;
                self.setf(sz53p(r));
            }
            6 => {
                let r = a | v;
                self.s.a = r;
                self.setf(sz53p(r));
            }
            _ => {
                // CP: as SUB, A kept, F3/F5 from the operand
                self.sub8_flags(a, v, 0);
                let f = (self.s.f & !(YF | XF)) | (v & (YF | XF));
                self.setf(f);
            }
        }
    }
    fn inc8(&mut self, v: u8) -> u8 {
        let r = v.wrapping_add(1);
        let f = (self.s.f & CF) | sz53(r) | fl(v & 0x0F == 0x0F, HF) | fl(v == 0x7F, PF);
        self.setf(f);
        r
    }
    fn dec8(&mut self, v: u8) -> u8 {
        let r = v.wrapping_sub(1);
        let f = (self.s.f & CF) | sz53(r) | fl(v & 0x0F == 0, HF) | fl(v == 0x80, PF) | NF;
        self.setf(f);
        r
    }
    fn add16(&mut self, ix: Ix, v: u16) {
        let x = self.hlx(ix);
        let r = (x as u32).wrapping_add(v as u32);
        let h = (x & 0x0FFF).wrapping_add(v & 0x0FFF) > 0x0FFF;
        self.s.wz = x.wrapping_add(1);
        let f = (self.s.f & (SF | ZF | PF)) | (hi(r as u16) & (YF | XF)) | fl(h, HF) | fl(r > 0xFFFF, CF);
        self.setf(f);
        self.set_hlx(ix, r as u16);
    }
    fn adc16(&mut self, v: u16) {
        let x = self.hl();
        let c = (self.s.f & CF) as u32;
        let r32 = (x as u32).wrapping_add(v as u32).wrapping_add(c);
        let r = r32 as u16;
        let h = (x & 0x0FFF).wrapping_add(v & 0x0FFF).wrapping_add(c as u16) > 0x0FFF;
        let ov = (x ^ r) & (v ^ r) & 0x8000 != 0;
        self.s.wz = x.wrapping_add(1);
        let f = (hi(r) & (SF | YF | XF)) | fl(r == 0, ZF) | fl(h, HF) | fl(ov, PF) | fl(r32 > 0xFFFF, CF);
        self.setf(f);
        self.set_hl(r);
    }
    fn sbc16(&mut self, v: u16) {
        let x = self.hl();
        let c = (self.s.f & CF) as u32;
        let r32 = (x as u32).wrapping_sub(v as u32).wrapping_sub(c);
        let r = r32 as u16;
        let h = (x & 0x0FFF) < (v & 0x0FFF).wrapping_add(c as u16);
        let ov = (x ^ v) & (x ^ r) & 0x8000 != 0;
        self.s.wz = x.wrapping_add(1);
        let f = (hi(r) & (SF | YF | XF))
            | fl(r == 0, ZF)
            | fl(h, HF)
            | fl(ov, PF)
            | NF
            | fl(r32 & 0x1_0000 != 0, CF);
        self.setf(f);
        self.set_hl(r);
    }
    /// CB-page rotate/shift `k` of `v`; sets S Z 5 H=0 3 P N=0 C
    fn rot(&mut self, k: u8, v: u8) -> u8 {
        let cin = self.s.f & CF;
        let (r, c) = match k & 7 {
            0 => ((v << 1) | (v >> 7), v >> 7),
            1 => ((v >> 1) | (v << 7), v & 1),
            2 => ((v << 1) | cin, v >> 7),
            3 => ((v >> 1) | (cin << 7), v & 1),
            4 => (v << 1, v >> 7),
            5 => ((v >> 1) | (v & 0x80), v & 1),
            6 => ((v << 1) | 1, v >> 7),
            _ => (v >> 1, v & 1),
        };
        self.setf(sz53p(r) | c);
        r
    }
    fn bit(&mut self, n: u8, v: u8, yx_src: u8) {
        let m = v & (1u8 << (n & 7));
        let f = (self.s.f & CF) | HF | fl(m == 0, ZF | PF) | (m & SF) | (yx_src & (YF | XF));
        self.setf(f);
    }
    fn daa(&mut self) {
        let a = self.s.a;
        let f = self.s.f;
        let lo9 = (a & 0x0F) > 9;
        let mut diff = 0u8;
        if f & HF != 0 || lo9 {
            diff |= 0x06;
        }
        let c = f & CF != 0 || a > 0x99;
        if c {
            diff |= 0x60;
        }
        let (r, h) = if f & NF != 0 {
            (a.wrapping_sub(diff), f & HF != 0 && (a & 0x0F) < 6)
        } else {
            (a.wrapping_add(diff), lo9)
        };
        self.s.a = r;
        self.setf(sz53p(r) | (f & NF) | fl(h, HF) | fl(c, CF));
    }

    // =============================================================================================
    // unprefixed page; with ix != HL it is the DD/FD page
    // =============================================================================================
    fn main_page(&mut self, op: u8, ix: Ix) {
        match op {
            0x00 => {}
            // LD dd,nn
            0x01 | 0x11 | 0x21 | 0x31 => {
                let v = self.imm16();
                self.set_rp(op >> 4, ix, v);
            }
            // LD (BC),A / LD (DE),A
            0x02 | 0x12 => {
                let a = if op == 0x02 { self.bc() } else { self.de() };
                let acc = self.s.a;
                self.mw(a, acc);
                self.s.wz = w(acc, lo(a).wrapping_add(1));
            }
            // LD A,(BC) / LD A,(DE)
            0x0A | 0x1A => {
                let a = if op == 0x0A { self.bc() } else { self.de() };
                self.s.a = self.mr(a);
                self.s.wz = a.wrapping_add(1);
            }
            // LD (nn),HL
            0x22 => {
                let nn = self.imm16();
                let v = self.hlx(ix);
                self.mw(nn, lo(v));
                self.mw(nn.wrapping_add(1), hi(v));
                self.s.wz = nn.wrapping_add(1);
            }
            // LD HL,(nn)
            0x2A => {
                let nn = self.imm16();
                let l = self.mr(nn);
                let h = self.mr(nn.wrapping_add(1));
                self.set_hlx(ix, w(h, l));
                self.s.wz = nn.wrapping_add(1);
            }
            // LD (nn),A
            0x32 => {
                let nn = self.imm16();
                let acc = self.s.a;
                self.mw(nn, acc);
                self.s.wz = w(acc, lo(nn).wrapping_add(1));
            }
            // LD A,(nn)
            0x3A => {
                let nn = self.imm16();
                self.s.a = self.mr(nn);
                self.s.wz = nn.wrapping_add(1);
            }
            // INC ss
            0x03 | 0x13 | 0x23 | 0x33 => {
                let a = self.ir();
                self.dly(a, 2);
                let v = self.rp(op >> 4, ix).wrapping_add(1);
                self.set_rp(op >> 4, ix, v);
            }
            // DEC ss
            0x0B | 0x1B | 0x2B | 0x3B => {
                let a = self.ir();
                self.dly(a, 2);
                let v = self.rp(op >> 4, ix).wrapping_sub(1);
                self.set_rp(op >> 4, ix, v);
            }
            // INC r
            0x04 | 0x0C | 0x14 | 0x1C | 0x24 | 0x2C | 0x3C => {
                let v = self.r8(op >> 3, ix);
                let r = self.inc8(v);
                self.set_r8(op >> 3, ix, r);
            }
            // DEC r
            0x05 | 0x0D | 0x15 | 0x1D | 0x25 | 0x2D | 0x3D => {
                let v = self.r8(op >> 3, ix);
                let r = self.dec8(v);
                self.set_r8(op >> 3, ix, r);
            }
            // INC (HL) / DEC (HL)
            0x34 | 0x35 => {
                let a = self.ea(ix);
                let v = self.mr(a);
                self.dly(a, 1);
                let r = if op == 0x34 { self.inc8(v) } else { self.dec8(v) };
                self.mw(a, r);
            }
            // LD r,n
            0x06 | 0x0E | 0x16 | 0x1E | 0x26 | 0x2E | 0x3E => {
                let v = self.imm();
                self.set_r8(op >> 3, ix, v);
            }
            // LD (HL),n
            0x36 => {
                if ix == Ix::HL {
                    let v = self.imm();
                    let a = self.hl();
                    self.mw(a, v);
                } else {
                    // pc+2:3 (d), pc+3:3 (n), pc+3:1 x2, ii+d:3
                    let d = self.imm();
                    let pa = self.s.pc;
                    let v = self.mr(pa);
                    self.dly(pa, 2);
                    self.s.pc = pa.wrapping_add(1);
                    let a = self.hlx(ix).wrapping_add(sx(d));
                    self.s.wz = a;
                    self.mw(a, v);
                }
            }
            // RLCA
            0x07 => {
                let a = self.s.a;
                let r = (a << 1) | (a >> 7);
                self.s.a = r;
                let f = (self.s.f & (SF | ZF | PF)) | (r & (YF | XF)) | (a >> 7);
                self.setf(f);
            }
            // RRCA
            0x0F => {
                let a = self.s.a;
                let r = (a >> 1) | (a << 7);
                self.s.a = r;
                let f = (self.s.f & (SF | ZF | PF)) | (r & (YF | XF)) | (a & 1);
                self.setf(f);
            }
            // RLA
            0x17 => {
                let a = self.s.a;
                let r = (a << 1) | (self.s.f & CF);
                self.s.a = r;
                let f = (self.s.f & (SF | ZF | PF)) | (r & (YF | XF)) | (a >> 7);
                self.setf(f);
            }
            // RRA
            0x1F => {
                let a = self.s.a;
                let r = (a >> 1) | ((self.s.f & CF) << 7);
                self.s.a = r;
                let f = (self.s.f & (SF | ZF | PF)) | (r & (YF | XF)) | (a & 1);
                self.setf(f);
            }
            // EX AF,AF'
            0x08 => {
                let (a, f) = (self.s.a, self.s.f);
                self.s.a = self.s.a_;
                self.s.f = self.s.f_;
                self.s.a_ = a;
                self.s.f_ = f;
            }
            // ADD HL,ss
            0x09 | 0x19 | 0x29 | 0x39 => {
                let a = self.ir();
                self.dly(a, 7);
                let v = self.rp(op >> 4, ix);
                self.add16(ix, v);
            }
            // DJNZ e
            0x10 => {
                let a = self.ir();
                self.dly(a, 1);
                let pa = self.s.pc;
                let d = self.mr(pa);
                self.s.b = self.s.b.wrapping_sub(1);
                if self.s.b != 0 {
                    self.dly(pa, 5);
                    self.s.pc = pa.wrapping_add(1).wrapping_add(sx(d));
                    self.s.wz = self.s.pc;
                    self.variant = true;
                } else {
                    self.s.pc = pa.wrapping_add(1);
                }
            }
            // JR e
            0x18 => {
                let pa = self.s.pc;
                let d = self.mr(pa);
                self.dly(pa, 5);
                self.s.pc = pa.wrapping_add(1).wrapping_add(sx(d));
                self.s.wz = self.s.pc;
            }
            // JR cc,e
            0x20 | 0x28 | 0x30 | 0x38 => {
                let pa = self.s.pc;
                let d = self.mr(pa);
                if self.cond((op >> 3) & 3) {
                    self.dly(pa, 5);
                    self.s.pc = pa.wrapping_add(1).wrapping_add(sx(d));
                    self.s.wz = self.s.pc;
                    self.variant = true;
                } else {
                    self.s.pc = pa.wrapping_add(1);
                }
            }
            0x27 => self.daa(),
            // CPL
            0x2F => {
                let r = !self.s.a;
                self.s.a = r;
                let f = (self.s.f & (SF | ZF | PF | CF)) | HF | NF | (r & (YF | XF));
                self.setf(f);
            }
            // SCF
            0x37 => {
                let f = self.s.f;
                let yx = ((self.s.q ^ f) | self.s.a) & (YF | XF);
                self.setf((f & (SF | ZF | PF)) | yx | CF);
            }
            // CCF
            0x3F => {
                let f = self.s.f;
                let yx = ((self.s.q ^ f) | self.s.a) & (YF | XF);
                let c = if f & CF != 0 { HF } else { CF };
                self.setf((f & (SF | ZF | PF)) | yx | c);
            }
            // HALT: the CPU stays on this instruction (PC is not advanced past it, see C02)
            0x76 => {
                self.s.halted = true;
                self.io.push(K_HALT, 0, 1, 0);
                self.s.pc = self.s.pc.wrapping_sub(1);
            }
            // LD r,(HL)
            0x46 | 0x4E | 0x56 | 0x5E | 0x66 | 0x6E | 0x7E => {
                let a = self.ea(ix);
                let v = self.mr(a);
                self.set_r8(op >> 3, Ix::HL, v);
            }
            // LD (HL),r
            0x70 | 0x71 | 0x72 | 0x73 | 0x74 | 0x75 | 0x77 => {
                let a = self.ea(ix);
                let v = self.r8(op, Ix::HL);
                self.mw(a, v);
            }
            // LD r,r'
            0x40..=0x7F => {
                let v = self.r8(op, ix);
                self.set_r8(op >> 3, ix, v);
            }
            // ALU A,(HL)
            0x86 | 0x8E | 0x96 | 0x9E | 0xA6 | 0xAE | 0xB6 | 0xBE => {
                let a = self.ea(ix);
                let v = self.mr(a);
                self.alu(op >> 3, v);
            }
            // ALU A,r
            0x80..=0xBF => {
                let v = self.r8(op, ix);
                self.alu(op >> 3, v);
            }
            // RET cc
            0xC0 | 0xC8 | 0xD0 | 0xD8 | 0xE0 | 0xE8 | 0xF0 | 0xF8 => {
                let a = self.ir();
                self.dly(a, 1);
                if self.cond(op >> 3) {
                    self.s.pc = self.pop16();
                    self.s.wz = self.s.pc;
                    self.variant = true;
                }
            }
            // POP qq
            0xC1 => {
                let v = self.pop16();
                self.set_bc(v);
            }
            0xD1 => {
                let v = self.pop16();
                self.set_de(v);
            }
            0xE1 => {
                let v = self.pop16();
                self.set_hlx(ix, v);
            }
            0xF1 => {
                let v = self.pop16();
                self.s.a = hi(v);
                self.s.f = lo(v);
            }
            // PUSH qq
            0xC5 | 0xD5 | 0xE5 | 0xF5 => {
                let a = self.ir();
                self.dly(a, 1);
                let v = match op {
                    0xC5 => self.bc(),
                    0xD5 => self.de(),
                    0xE5 => self.hlx(ix),
                    _ => w(self.s.a, self.s.f),
                };
                self.push16(v);
            }
            // JP cc,nn
            0xC2 | 0xCA | 0xD2 | 0xDA | 0xE2 | 0xEA | 0xF2 | 0xFA => {
                let nn = self.imm16();
                self.s.wz = nn;
                if self.cond(op >> 3) {
                    self.s.pc = nn;
                    self.variant = true;
                }
            }
            // JP nn
            0xC3 => {
                let nn = self.imm16();
                self.s.wz = nn;
                self.s.pc = nn;
            }
            // CALL cc,nn / CALL nn
            0xC4 | 0xCC | 0xD4 | 0xDC | 0xE4 | 0xEC | 0xF4 | 0xFC | 0xCD => {
                let l = self.imm();
                let pa = self.s.pc;
                let h = self.mr(pa);
                let nn = w(h, l);
                self.s.wz = nn;
                if op == 0xCD || self.cond(op >> 3) {
                    self.dly(pa, 1);
                    let ret = pa.wrapping_add(1);
                    self.push16(ret);
                    self.s.pc = nn;
                    self.variant = op != 0xCD;
                } else {
                    self.s.pc = pa.wrapping_add(1);
                }
            }
            // ALU A,n
            0xC6 | 0xCE | 0xD6 | 0xDE | 0xE6 | 0xEE | 0xF6 | 0xFE => {
                let v = self.imm();
                self.alu(op >> 3, v);
            }
            // RST p
            0xC7 | 0xCF | 0xD7 | 0xDF | 0xE7 | 0xEF | 0xF7 | 0xFF => {
                let a = self.ir();
                self.dly(a, 1);
                let ret = self.s.pc;
                self.push16(ret);
                self.s.pc = (op & 0x38) as u16;
                self.s.wz = self.s.pc;
            }
            // RET
            0xC9 => {
                self.s.pc = self.pop16();
                self.s.wz = self.s.pc;
            }
            // EXX
            0xD9 => {
                let s = &mut *self.s;
                core::mem::swap(&mut s.b, &mut s.b_);
                core::mem::swap(&mut s.c, &mut s.c_);
                core::mem::swap(&mut s.d, &mut s.d_);
                core::mem::swap(&mut s.e, &mut s.e_);
                core::mem::swap(&mut s.h, &mut s.h_);
                core::mem::swap(&mut s.l, &mut s.l_);
            }
            // JP (HL)
            0xE9 => {
                self.s.pc = self.hlx(ix);
            }
            // LD SP,HL
            0xF9 => {
                let a = self.ir();
                self.dly(a, 2);
                self.s.sp = self.hlx(ix);
            }
            // OUT (n),A
            0xD3 => {
                let n = self.imm();
                let acc = self.s.a;
                self.outp(w(acc, n), acc);
                self.s.wz = w(acc, n.wrapping_add(1));
            }
            // IN A,(n)
            0xDB => {
                let n = self.imm();
                let port = w(self.s.a, n);
                self.s.a = self.inp(port);
                self.s.wz = port.wrapping_add(1);
            }
            // EX (SP),HL
            0xE3 => {
                let sp = self.s.sp;
                let sp1 = sp.wrapping_add(1);
                let l = self.mr(sp);
                let h = self.mr(sp1);
                self.dly(sp1, 1);
                let old = self.hlx(ix);
                self.mw(sp1, hi(old));
                self.mw(sp, lo(old));
                self.dly(sp, 2);
                self.set_hlx(ix, w(h, l));
                self.s.wz = w(h, l);
            }
            // EX DE,HL (never affected by a DD/FD prefix)
            0xEB => {
                let de = self.de();
                let hl = self.hl();
                self.set_de(hl);
                self.set_hl(de);
            }
            // DI
            0xF3 => {
                self.s.iff1 = false;
                self.s.iff2 = false;
                self.s.inhibit = true;
            }
            // EI
            0xFB => {
                self.s.iff1 = true;
                self.s.iff2 = true;
                self.s.inhibit = true;
            }
            // prefixes are consumed by `step`
            0xCB | 0xDD | 0xED | 0xFD => {}
        }
    }

    // =============================================================================================
    // CB page
    // =============================================================================================
    fn cb_page(&mut self, op: u8) {
        let n = (op >> 3) & 7;
        if op & 7 == 6 {
            let a = self.hl();
            let v = self.mr(a);
            self.dly(a, 1);
            match op {
                0x00..=0x3F => {
                    let r = self.rot(n, v);
                    self.mw(a, r);
                }
                0x40..=0x7F => {
                    let src = hi(self.s.wz);
                    self.bit(n, v, src);
                }
                0x80..=0xBF => self.mw(a, v & !(1u8 << n)),
                _ => self.mw(a, v | (1u8 << n)),
            }
        } else {
            let v = self.r8(op, Ix::HL);
            match op {
                0x00..=0x3F => {
                    let r = self.rot(n, v);
                    self.set_r8(op, Ix::HL, r);
                }
                0x40..=0x7F => self.bit(n, v, v),
                0x80..=0xBF => self.set_r8(op, Ix::HL, v & !(1u8 << n)),
                _ => self.set_r8(op, Ix::HL, v | (1u8 << n)),
            }
        }
    }

    // =============================================================================================
    // DDCB / FDCB page: DD CB d op -- pc:4,pc+1:4,pc+2:3,pc+3:3,pc+3:1 x2,ii+d:3,ii+d:1[,ii+d:3]
    // =============================================================================================
    fn xycb_page(&mut self, ix: Ix) -> u8 {
        let d = self.imm();
        let pa = self.s.pc;
        let op = self.mr(pa);
        self.dly(pa, 2);
        self.s.pc = pa.wrapping_add(1);
        let a = self.hlx(ix).wrapping_add(sx(d));
        self.s.wz = a;
        let n = (op >> 3) & 7;
        let v = self.mr(a);
        self.dly(a, 1);
        match op {
            0x40..=0x7F => {
                self.bit(n, v, hi(a));
            }
            _ => {
                let r = match op {
                    0x00..=0x3F => self.rot(n, v),
                    0x80..=0xBF => v & !(1u8 << n),
                    _ => v | (1u8 << n),
                };
                self.mw(a, r);
                // undocumented: the result is also copied to the register named by bits 0-2
                if op & 7 != 6 {
                    self.set_r8(op, Ix::HL, r);
                }
            }
        }
        op
    }

    // =============================================================================================
    // ED page
    // =============================================================================================
    fn ed_page(&mut self, op: u8) {
        match op {
            // IN r,(C); ED 70 only sets the flags
            0x40 | 0x48 | 0x50 | 0x58 | 0x60 | 0x68 | 0x70 | 0x78 => {
                let port = self.bc();
                let v = self.inp(port);
                self.s.wz = port.wrapping_add(1);
                if op != 0x70 {
                    self.set_r8(op >> 3, Ix::HL, v);
                }
                let f = (self.s.f & CF) | sz53p(v);
                self.setf(f);
            }
            // OUT (C),r; ED 71 outputs 0 on NMOS parts
            0x41 | 0x49 | 0x51 | 0x59 | 0x61 | 0x69 | 0x71 | 0x79 => {
                let port = self.bc();
                let v = if op == 0x71 { 0 } else { self.r8(op >> 3, Ix::HL) };
                self.outp(port, v);
                self.s.wz = port.wrapping_add(1);
            }
            // SBC HL,ss
            0x42 | 0x52 | 0x62 | 0x72 => {
                let a = self.ir();
                self.dly(a, 7);
                let v = self.rp(op >> 4, Ix::HL);
                self.sbc16(v);
            }
            // ADC HL,ss
            0x4A | 0x5A | 0x6A | 0x7A => {
                let a = self.ir();
                self.dly(a, 7);
                let v = self.rp(op >> 4, Ix::HL);
                self.adc16(v);
            }
            // LD (nn),dd
            0x43 | 0x53 | 0x63 | 0x73 => {
                let nn = self.imm16();
                let v = self.rp(op >> 4, Ix::HL);
                self.mw(nn, lo(v));
                self.mw(nn.wrapping_add(1), hi(v));
                self.s.wz = nn.wrapping_add(1);
            }
            // LD dd,(nn)
            0x4B | 0x5B | 0x6B | 0x7B => {
                let nn = self.imm16();
                let l = self.mr(nn);
                let h = self.mr(nn.wrapping_add(1));
                self.set_rp(op >> 4, Ix::HL, w(h, l));
                self.s.wz = nn.wrapping_add(1);
            }
            // NEG and its mirrors
            0x44 | 0x4C | 0x54 | 0x5C | 0x64 | 0x6C | 0x74 | 0x7C => {
                let a = self.s.a;
                let r = self.sub8_flags(0, a, 0);
                self.s.a = r;
            }
            // RETN and mirrors; 4D = RETI.  All of them copy IFF2 to IFF1
            0x45 | 0x4D | 0x55 | 0x5D | 0x65 | 0x6D | 0x75 | 0x7D => {
                self.s.iff1 = self.s.iff2;
                self.s.pc = self.pop16();
                self.s.wz = self.s.pc;
                if op == 0x4D {
                    self.io.push(K_RETI, 0, 0, 0);
                }
            }
            // IM 0 (46, 66 and the undefined-mode mirrors 4E, 6E), IM 1 (56, 76), IM 2 (5E, 7E)
            0x46 | 0x4E | 0x66 | 0x6E => self.s.im = 0,
            0x56 | 0x76 => self.s.im = 1,
            0x5E | 0x7E => self.s.im = 2,
            // LD I,A
            0x47 => {
                let a = self.ir();
                self.dly(a, 1);
                self.s.i = self.s.a;
            }
            // LD R,A
            0x4F => {
                let a = self.ir();
                self.dly(a, 1);
                self.s.r = self.s.a;
            }
            // LD A,I
            0x57 => {
                let a = self.ir();
                self.dly(a, 1);
                let v = self.s.i;
                self.s.a = v;
                let f = (self.s.f & CF) | sz53(v) | fl(self.s.iff2, PF);
                self.setf(f);
            }
            // LD A,R
            0x5F => {
                let a = self.ir();
                self.dly(a, 1);
                let v = self.s.r;
                self.s.a = v;
                let f = (self.s.f & CF) | sz53(v) | fl(self.s.iff2, PF);
                self.setf(f);
            }
            // RRD
            0x67 => {
                let a = self.hl();
                let v = self.mr(a);
                self.dly(a, 4);
                let acc = self.s.a;
                self.mw(a, (acc << 4) | (v >> 4));
                let r = (acc & 0xF0) | (v & 0x0F);
                self.s.a = r;
                self.s.wz = a.wrapping_add(1);
                let f = (self.s.f & CF) | sz53p(r);
                self.setf(f);
            }
            // RLD
            0x6F => {
                let a = self.hl();
                let v = self.mr(a);
                self.dly(a, 4);
                let acc = self.s.a;
                self.mw(a, (v << 4) | (acc & 0x0F));
                let r = (acc & 0xF0) | (v >> 4);
                self.s.a = r;
                self.s.wz = a.wrapping_add(1);
                let f = (self.s.f & CF) | sz53p(r);
                self.setf(f);
            }
            // LDI / LDD / LDIR / LDDR
            0xA0 | 0xA8 | 0xB0 | 0xB8 => {
                let up = op & 0x08 == 0;
                let hl = self.hl();
                let de = self.de();
                let v = self.mr(hl);
                self.mw(de, v);
                self.dly(de, 2);
                let bc = self.bc().wrapping_sub(1);
                self.set_bc(bc);
                if up {
                    self.set_hl(hl.wrapping_add(1));
                    self.set_de(de.wrapping_add(1));
                } else {
                    self.set_hl(hl.wrapping_sub(1));
                    self.set_de(de.wrapping_sub(1));
                }
                let n = v.wrapping_add(self.s.a);
                let f = (self.s.f & (SF | ZF | CF)) | fl(bc != 0, PF) | (n & XF) | fl(n & 0x02 != 0, YF);
                self.setf(f);
                if op & 0x10 != 0 && bc != 0 {
                    self.dly(de, 5);
                    self.repeat_common();
                    self.s.wz = self.s.pc.wrapping_add(1);
                    // Q after a repeated iteration is not observable by a following instruction in
                    // any documented way
                    self.q_dc = YF | XF;
                }
            }
            // CPI / CPD / CPIR / CPDR
            0xA1 | 0xA9 | 0xB1 | 0xB9 => {
                let up = op & 0x08 == 0;
                let hl = self.hl();
                let v = self.mr(hl);
                self.dly(hl, 5);
                let bc = self.bc().wrapping_sub(1);
                self.set_bc(bc);
                if up {
                    self.set_hl(hl.wrapping_add(1));
                    self.s.wz = self.s.wz.wrapping_add(1);
                } else {
                    self.set_hl(hl.wrapping_sub(1));
                    self.s.wz = self.s.wz.wrapping_sub(1);
                }
                let a = self.s.a;
                let r = a.wrapping_sub(v);
                let hb = (a & 0x0F) < (v & 0x0F);
                let n = r.wrapping_sub(hb as u8);
                let f = (self.s.f & CF)
                    | NF
                    | fl(bc != 0, PF)
                    | fl(hb, HF)
                    | fl(r == 0, ZF)
                    | (r & SF)
                    | (n & XF)
                    | fl(n & 0x02 != 0, YF);
                self.setf(f);
                if op & 0x10 != 0 && bc != 0 && r != 0 {
                    self.dly(hl, 5);
                    self.repeat_common();
                    self.s.wz = self.s.pc.wrapping_add(1);
                    self.q_dc = YF | XF;
                }
            }
            // INI / IND / INIR / INDR
            0xA2 | 0xAA | 0xB2 | 0xBA => {
                let up = op & 0x08 == 0;
                let a = self.ir();
                self.dly(a, 1);
                let port = self.bc();
                let v = self.inp(port);
                let hl = self.hl();
                self.mw(hl, v);
                self.s.wz = if up { port.wrapping_add(1) } else { port.wrapping_sub(1) };
                let b = self.s.b.wrapping_sub(1);
                self.s.b = b;
                self.set_hl(if up { hl.wrapping_add(1) } else { hl.wrapping_sub(1) });
                let c1 = if up { self.s.c.wrapping_add(1) } else { self.s.c.wrapping_sub(1) };
                let k = (v as u16).wrapping_add(c1 as u16);
                self.block_io_flags(b, v, k);
                if op & 0x10 != 0 && b != 0 {
                    self.dly(hl, 5);
                    self.repeat_common();
                    self.repeat_io_flags(b, v);
                }
            }
            // OUTI / OUTD / OTIR / OTDR
            0xA3 | 0xAB | 0xB3 | 0xBB => {
                let up = op & 0x08 == 0;
                let a = self.ir();
                self.dly(a, 1);
                let hl = self.hl();
                let v = self.mr(hl);
                let b = self.s.b.wrapping_sub(1);
                self.s.b = b;
                let port = self.bc();
                self.outp(port, v);
                self.set_hl(if up { hl.wrapping_add(1) } else { hl.wrapping_sub(1) });
                self.s.wz = if up { port.wrapping_add(1) } else { port.wrapping_sub(1) };
                let k = (v as u16).wrapping_add(self.s.l as u16);
                self.block_io_flags(b, v, k);
                if op & 0x10 != 0 && b != 0 {
                    self.dly(port, 5);
                    self.repeat_common();
                    self.repeat_io_flags(b, v);
                }
            }
            // everything else on the ED page: two M1 cycles and nothing else
            _ => {}
        }
    }

    /// flags of INI/IND/OUTI/OUTD (Sean Young 4.3): S Z 5 3 from B; N = bit 7 of the byte;
    /// H = C = carry of k; P = parity((k & 7) ^ B)
    fn block_io_flags(&mut self, b: u8, v: u8, k: u16) {
        let f = sz53(b) | fl(v & 0x80 != 0, NF) | fl(k > 0xFF, HF | CF) | par((k as u8 & 7) ^ b);
        self.setf(f);
    }

    /// repeat of a block instruction: PC goes back to the ED byte, F.5/F.3 expose PC bits 13/11
    /// (the memory block instructions also set MEMPTR = PC+1, done by the caller)
    fn repeat_common(&mut self) {
        self.variant = true;
        let pc = self.s.pc.wrapping_sub(2);
        self.s.pc = pc;
        let f = (self.s.f & !(YF | XF)) | (hi(pc) & (YF | XF));
        self.setf(f);
        // Sources differ in whether the exposed byte is the high byte of PC or of PC+1 (WZ); they
        // only differ when the instruction starts at xxFF.
        if lo(pc) == 0xFF {
            self.f_dc |= YF | XF;
            self.q_dc |= YF | XF;
        }
    }

    /// additional H / P change of a repeating INIR/INDR/OTIR/OTDR (D. Banks' formulation)
    fn repeat_io_flags(&mut self, b: u8, _v: u8) {
        let f = self.s.f;
        let mut h = f & HF;
        let p;
        if f & CF != 0 {
            if f & NF != 0 {
                p = (f & PF) ^ par(b.wrapping_sub(1) & 7) ^ PF;
                h = fl(b & 0x0F == 0x00, HF);
            } else {
                p = (f & PF) ^ par(b.wrapping_add(1) & 7) ^ PF;
                h = fl(b & 0x0F == 0x0F, HF);
            }
        } else {
            p = (f & PF) ^ par(b & 7) ^ PF;
        }
        self.setf((f & !(HF | PF)) | h | p);
    }

    // ---- dispatch behind a prefix ----
    /// what follows a DD (or FD) prefix byte; true = another prefix follows (chain link)
    fn run_xy(&mut self, prefix: u8, info: &mut Info) -> bool {
        let ix = if prefix == 0xDD { Ix::IX } else { Ix::IY };
        let b2 = self.m1();
        info.page = if prefix == 0xDD { 3 } else { 4 };
        info.op = b2;
        match b2 {
            0xDD | 0xFD | 0xED => {
                self.s.pending = b2;
                self.s.inhibit = true;
                true
            }
            0xCB => {
                info.page = if prefix == 0xDD { 5 } else { 6 };
                info.op = self.xycb_page(ix);
                false
            }
            _ => {
                self.main_page(b2, ix);
                false
            }
        }
    }
    fn run_ed(&mut self, info: &mut Info) {
        let op = self.m1();
        info.page = 2;
        info.op = op;
        self.ed_page(op);
    }

    // ---- interrupt entry (canonical event order: [HALT release], 2 stack writes,
    //      [vector byte, 2 vector reads], acknowledge time) ----
    fn release_halt(&mut self) {
        if self.s.halted {
            self.io.push(K_HALT, 0, 0, 0);
            self.s.halted = false;
            // the return address is the instruction behind the HALT
            self.s.pc = self.s.pc.wrapping_add(1);
        }
    }
    fn accept_nmi(&mut self) {
        self.release_halt();
        self.inc_r();
        self.s.iff1 = false;
        let ret = self.s.pc;
        self.push16(ret);
        self.s.pc = 0x0066;
        self.s.wz = 0x0066;
        self.s.q = 0;
        self.io.push(K_INT, 0, 0, 5);
    }
    fn accept_int(&mut self) {
        self.release_halt();
        self.inc_r();
        self.s.iff1 = false;
        self.s.iff2 = false;
        let ret = self.s.pc;
        self.push16(ret);
        if self.s.im == 2 {
            let b = self.io.next();
            self.io.push(K_IACK, 0, b, 0);
            let va = w(self.s.i, b);
            let l = self.mr(va);
            let h = self.mr(va.wrapping_add(1));
            self.s.pc = w(h, l);
        } else {
            self.s.pc = 0x0038;
        }
        self.s.wz = self.s.pc;
        self.s.q = 0;
        self.io.push(K_INT, 0, 0, 7);
    }
}

/// One `emulate()` call worth of behaviour.
pub fn step(s: &mut St, io: &mut Io, int: bool, nmi: bool) -> Info {
    let mut info = Info {
        accepted: 0,
        outside: false,
        chain: false,
        halted_m1: false,
        page: 0,
        op: 0,
        variant: false,
        m1s: 0,
        f_dc: 0,
        q_dc: 0,
    };
    let mut m = M { s, io, fw: false, f_dc: 0, q_dc: 0, variant: false, m1s: 0 };

    // ---- instruction boundary: interrupt sampling ----
    if m.s.inhibit {
        // directly after EI/DI or inside a DD/FD chain: the maskable interrupt is not sampled.
        // (What an NMI does here is outside the modelled claim.)
        if nmi {
            info.outside = true;
        }
        m.s.inhibit = false;
    } else if nmi {
        m.accept_nmi();
        info.accepted = 2;
    } else if int && m.s.iff1 {
        m.accept_int();
        info.accepted = 1;
    }
    m.io.begin_instr();

    // ---- instruction ----
    if m.s.halted {
        // HALT state: M1 cycles at the HALT instruction, only R and time advance
        let a = m.s.pc;
        let v = m.io.next();
        m.io.push(K_M1, a, v, 4);
        m.inc_r();
        m.io.push(K_HALT, 0, 1, 0);
        m.s.q = 0;
        info.halted_m1 = true;
        info.op = v;
        info.m1s = 1;
        return info;
    }
    // (the dispatch below never merges "pending prefix" and "fetched byte" into one value: both
    // alternatives keep their own decode, which also keeps symbolic execution on one path when the
    // bytes are constants)
    let chain;
    if m.s.pending != 0 {
        let p = m.s.pending;
        m.s.pending = 0;
        if p == 0xED {
            m.run_ed(&mut info);
            chain = false;
        } else if p == 0xDD {
            chain = m.run_xy(0xDD, &mut info);
        } else {
            chain = m.run_xy(0xFD, &mut info);
        }
    } else {
        let first = m.m1();
        match first {
            0xDD => chain = m.run_xy(0xDD, &mut info),
            0xFD => chain = m.run_xy(0xFD, &mut info),
            0xCB => {
                let op = m.m1();
                info.page = 1;
                info.op = op;
                m.cb_page(op);
                chain = false;
            }
            0xED => {
                m.run_ed(&mut info);
                chain = false;
            }
            _ => {
                info.page = 0;
                info.op = first;
                m.main_page(first, Ix::HL);
                chain = false;
            }
        }
    }
    if chain {
        // the first prefix is void; the chain continues in the next call and no interrupt may be
        // taken in between.  Q is not touched.
        info.chain = true;
        info.m1s = m.m1s;
        return info;
    }
    m.s.q = if m.fw { m.s.f } else { 0 };
    info.variant = m.variant;
    info.m1s = m.m1s;
    info.f_dc = m.f_dc;
    info.q_dc = m.q_dc;
    info
}

// =================================================================================================
// Second, independent table: documented TOTAL T-states (Zilog manual instruction tables; Sean Young
// for the undocumented forms).  `variant` = condition true / repeat taken.
// =================================================================================================

#[rustfmt::skip]
const T_MAIN: [u8; 256] = [
//  0   1   2   3   4   5   6   7   8   9   A   B   C   D   E   F
    4, 10,  7,  6,  4,  4,  7,  4,  4, 11,  7,  6,  4,  4,  7,  4, // 0
    8, 10,  7,  6,  4,  4,  7,  4, 12, 11,  7,  6,  4,  4,  7,  4, // 1
    7, 10, 16,  6,  4,  4,  7,  4,  7, 11, 16,  6,  4,  4,  7,  4, // 2
    7, 10, 13,  6, 11, 11, 10,  4,  7, 11, 13,  6,  4,  4,  7,  4, // 3
    4,  4,  4,  4,  4,  4,  7,  4,  4,  4,  4,  4,  4,  4,  7,  4, // 4
    4,  4,  4,  4,  4,  4,  7,  4,  4,  4,  4,  4,  4,  4,  7,  4, // 5
    4,  4,  4,  4,  4,  4,  7,  4,  4,  4,  4,  4,  4,  4,  7,  4, // 6
    7,  7,  7,  7,  7,  7,  4,  7,  4,  4,  4,  4,  4,  4,  7,  4, // 7
    4,  4,  4,  4,  4,  4,  7,  4,  4,  4,  4,  4,  4,  4,  7,  4, // 8
    4,  4,  4,  4,  4,  4,  7,  4,  4,  4,  4,  4,  4,  4,  7,  4, // 9
    4,  4,  4,  4,  4,  4,  7,  4,  4,  4,  4,  4,  4,  4,  7,  4, // A
    4,  4,  4,  4,  4,  4,  7,  4,  4,  4,  4,  4,  4,  4,  7,  4, // B
    5, 10, 10, 10, 10, 11,  7, 11,  5, 10, 10,  0, 10, 17,  7, 11, // C
    5, 10, 10, 11, 10, 11,  7, 11,  5,  4, 10, 11, 10,  0,  7, 11, // D
    5, 10, 10, 19, 10, 11,  7, 11,  5,  4, 10,  4, 10,  0,  7, 11, // E
    5, 10, 10,  4, 10, 11,  7, 11,  5,  6, 10,  4, 10,  0,  7, 11, // F
];

fn t_main(op: u8, variant: bool) -> u8 {
    let base = T_MAIN[op as usize];
    if !variant {
        return base;
    }
    match op {
        0x10 => 13,
        0x20 | 0x28 | 0x30 | 0x38 => 12,
        0xC0 | 0xC8 | 0xD0 | 0xD8 | 0xE0 | 0xE8 | 0xF0 | 0xF8 => 11,
        0xC4 | 0xCC | 0xD4 | 0xDC | 0xE4 | 0xEC | 0xF4 | 0xFC => 17,
        _ => base,
    }
}

fn t_xy(op: u8, variant: bool) -> u8 {
    match op {
        0x09 | 0x19 | 0x29 | 0x39 => 15,
        0x21 => 14,
        0x22 | 0x2A => 20,
        0x23 | 0x2B => 10,
        0x34 | 0x35 => 23,
        0x36 => 19,
        0x46 | 0x4E | 0x56 | 0x5E | 0x66 | 0x6E | 0x7E => 19,
        0x70 | 0x71 | 0x72 | 0x73 | 0x74 | 0x75 | 0x77 => 19,
        0x86 | 0x8E | 0x96 | 0x9E | 0xA6 | 0xAE | 0xB6 | 0xBE => 19,
        0xE1 => 14,
        0xE3 => 23,
        0xE5 => 15,
        0xE9 => 8,
        0xF9 => 10,
        // everything else: the unprefixed instruction plus one 4-T fetch
        _ => t_main(op, variant).wrapping_add(4),
    }
}

fn t_cb(op: u8) -> u8 {
    if op & 7 != 6 {
        8
    } else if op & 0xC0 == 0x40 {
        12
    } else {
        15
    }
}

fn t_xycb(op: u8) -> u8 {
    if op & 0xC0 == 0x40 {
        20
    } else {
        23
    }
}

fn t_ed(op: u8, variant: bool) -> u8 {
    match op {
        0x40 | 0x48 | 0x50 | 0x58 | 0x60 | 0x68 | 0x70 | 0x78 => 12,
        0x41 | 0x49 | 0x51 | 0x59 | 0x61 | 0x69 | 0x71 | 0x79 => 12,
        0x42 | 0x52 | 0x62 | 0x72 | 0x4A | 0x5A | 0x6A | 0x7A => 15,
        0x43 | 0x53 | 0x63 | 0x73 | 0x4B | 0x5B | 0x6B | 0x7B => 20,
        0x45 | 0x4D | 0x55 | 0x5D | 0x65 | 0x6D | 0x75 | 0x7D => 14,
        0x47 | 0x4F | 0x57 | 0x5F => 9,
        0x67 | 0x6F => 18,
        0xA0 | 0xA1 | 0xA2 | 0xA3 | 0xA8 | 0xA9 | 0xAA | 0xAB => 16,
        0xB0 | 0xB1 | 0xB2 | 0xB3 | 0xB8 | 0xB9 | 0xBA | 0xBB => {
            if variant {
                21
            } else {
                16
            }
        }
        _ => 8,
    }
}

/// documented duration of the instruction identified by (page, op, variant)
pub fn doc_tstates(page: u8, op: u8, variant: bool) -> u8 {
    match page {
        0 => t_main(op, variant),
        1 => t_cb(op),
        2 => t_ed(op, variant),
        3 | 4 => t_xy(op, variant),
        _ => t_xycb(op),
    }
}

/// documented duration of interrupt entry: 0 none, 1 INT (13 in IM 0/1, 19 in IM 2), 2 NMI (11)
pub fn doc_int_tstates(accepted: u8, im: u8) -> u8 {
    match accepted {
        0 => 0,
        1 => {
            if im == 2 {
                19
            } else {
                13
            }
        }
        _ => 11,
    }
}

/// T-states represented by one event
pub fn ev_t(e: &Ev) -> u8 {
    e.t
}
