#!/usr/bin/env python3
"""Regenerates the page x quadrant wrapper harnesses between the GENERATED markers of cpu.rs.
The driver finds harnesses textually ('// @harness' blocks followed by 'fn name('), so the 28+6
wrappers are spelled out instead of being produced by a Rust macro."""
import os, re
HERE = os.path.dirname(os.path.abspath(__file__))
PAGES = [(0, 'none', 'unprefixed'), (1, 'cb', 'CB'), (2, 'ed', 'ED'), (3, 'dd', 'DD'), (4, 'fd', 'FD'),
         (5, 'ddcb', 'DD CB d op'), (6, 'fdcb', 'FD CB d op')]
FN = {
    'none': 'Z80::emulate; execute_normal; execute_alu_8; execute_push_16; execute_pop_16; FlagsCondition::eval; Regs::*; tables::*; Opcode::from_byte; U1/U2/U3::from_byte',
    'cb': 'Z80::emulate; execute_bits; execute_rot; Regs::*; tables::*; Opcode::from_byte',
    'ed': 'Z80::emulate; execute_extended; execute_ldi_ldd; execute_cpi_cpd; execute_ini_ind; execute_outi_outd; Regs::update_flags_block_mem_cycle; Regs::update_flags_block_io_cycle; execute_pop_16; tables::*',
    'dd': 'Z80::emulate; execute_normal with Prefix::DD; RegName8::with_prefix; RegName16::with_prefix; Regs::build_addr_with_offset; execute_alu_8',
    'fd': 'Z80::emulate; execute_normal with Prefix::FD; RegName8::with_prefix; RegName16::with_prefix; Regs::build_addr_with_offset; execute_alu_8',
    'ddcb': 'Z80::emulate; execute_bits with Prefix::DD; execute_rot; Regs::build_addr_with_offset',
    'fdcb': 'Z80::emulate; execute_bits with Prefix::FD; execute_rot; Regs::build_addr_with_offset',
}
TIMEOUT = {}   # (page, quad) -> seconds, default 600

P0 = (0, 3, 4)
XYCB = (5, 6)
# (pages, quadrant, condition over op/v(ariant)/pre/post/info/t (t = T-states of the whole instruction), text)
# (a satisfied cover costs one incremental solver call plus a trace extraction: keep them few)
COVERS = [
    (P0, 0, 'op == 0x10 && v && pre.b != 1 && t == T0 + 13', 'DJNZ taken (B != 1) in 13 T'),
    (P0, 0, 'op == 0x10 && !v && pre.b == 1 && t == T0 + 8', 'DJNZ not taken (B == 1) in 8 T'),
    (P0, 0, 'op == 0x20 && v', 'JR NZ taken'),
    (P0, 0, 'op == 0x20 && !v', 'JR NZ not taken'),
    (P0, 0, 'op == 0x28 && v', 'JR Z taken'),
    (P0, 0, 'op == 0x28 && !v', 'JR Z not taken'),
    (P0, 0, 'op == 0x30 && v', 'JR NC taken'),
    (P0, 0, 'op == 0x30 && !v', 'JR NC not taken'),
    (P0, 0, 'op == 0x38 && v', 'JR C taken'),
    (P0, 0, 'op == 0x38 && !v', 'JR C not taken'),
    (P0, 0, 'op == 0x37 && (pre.q ^ pre.f) & 0x28 != 0', 'SCF with Q != F'),
    (P0, 0, 'op == 0x3F && pre.q == 0', 'CCF after a non-flag instruction'),
    (P0, 0, 'op == 0x27 && pre.f & 0x13 == 0x13', 'DAA with N, H, C set'),
    (P0, 0, 'op == 0x34 && t == T0 + TM + 11', 'INC (HL) 11 T / INC (IX+d) 23 T'),
    (P0, 0, 'op == 0x32', 'LD (nn),A outside the known-finding region'),
    (P0, 1, 'op == 0x76 && post.halted', 'HALT'),
    (P0, 1, 'op == 0x66 && t == T0 + TM + 7', 'LD H,(HL) 7 T / LD H,(IX+d) 19 T'),
    (P0, 1, 'op == 0x65', 'LD H,L / LD IXH,IXL'),
    (P0, 2, 'op == 0xBE', 'CP (HL) / CP (IX+d)'),
    (P0, 2, 'op == 0x8C && post.f & 0x04 != 0', 'ADC A,H / ADC A,IXH with overflow'),
    (P0, 3, 'op == 0xC0 && v && t == T0 + 11', 'RET NZ taken 11 T'),
    (P0, 3, 'op == 0xC0 && !v && t == T0 + 5', 'RET NZ not taken 5 T'),
    (P0, 3, 'op == 0xC8 && v', 'RET Z taken'),
    (P0, 3, 'op == 0xC8 && !v', 'RET Z not taken'),
    (P0, 3, 'op == 0xD0 && v', 'RET NC taken'),
    (P0, 3, 'op == 0xD0 && !v', 'RET NC not taken'),
    (P0, 3, 'op == 0xD8 && v', 'RET C taken'),
    (P0, 3, 'op == 0xD8 && !v', 'RET C not taken'),
    (P0, 3, 'op == 0xE0 && v', 'RET PO taken'),
    (P0, 3, 'op == 0xE0 && !v', 'RET PO not taken'),
    (P0, 3, 'op == 0xE8 && v', 'RET PE taken'),
    (P0, 3, 'op == 0xE8 && !v', 'RET PE not taken'),
    (P0, 3, 'op == 0xF0 && v', 'RET P taken'),
    (P0, 3, 'op == 0xF0 && !v', 'RET P not taken'),
    (P0, 3, 'op == 0xF8 && v', 'RET M taken'),
    (P0, 3, 'op == 0xF8 && !v', 'RET M not taken'),
    (P0, 3, 'op == 0xC4 && v && t == T0 + 17', 'CALL NZ taken 17 T'),
    (P0, 3, 'op == 0xC4 && !v && t == T0 + 10', 'CALL NZ not taken 10 T'),
    (P0, 3, 'op == 0xEC && v', 'CALL PE taken'),
    (P0, 3, 'op == 0xFC && !v', 'CALL M not taken'),
    (P0, 3, 'op == 0xDA && v', 'JP C taken'),
    (P0, 3, 'op == 0xF2 && !v', 'JP P not taken'),
    (P0, 3, 'op == 0xE3 && t == T0 + 19', 'EX (SP),HL / EX (SP),IX'),
    (P0, 3, 'op == 0xFB && post.iff1 && post.inhibit', 'EI'),
    (P0, 3, 'op == 0xF3 && !post.iff1 && post.inhibit', 'DI'),
    (P0, 3, 'op == 0xD3', 'OUT (n),A outside the known-finding region'),
    ((1,), 0, 'op == 0x36 && t == 15', 'SLL (HL) 15 T'),
    ((1,), 1, 'op == 0x7E && t == 12', 'BIT 7,(HL) 12 T'),
    ((1,), 2, 'op == 0x86 && t == 15', 'RES 0,(HL) 15 T'),
    ((1,), 3, 'op == 0xFF && t == 8', 'SET 7,A 8 T'),
    ((2,), 0, 'op == 0x3F && t == 8 && post.a == pre.a && post.f == pre.f', 'undefined ED 3F: two M1 cycles, nothing else'),
    ((2,), 3, 'op == 0xFF && t == 8 && post.a == pre.a && post.f == pre.f', 'undefined ED FF: two M1 cycles, nothing else'),
    ((2,), 1, 'op == 0x4D && t == 14', 'RETI'),
    ((2,), 1, 'op == 0x45 && pre.iff2 && !pre.iff1 && post.iff1', 'RETN restores IFF1'),
    ((2,), 1, 'op == 0x70', 'IN (C) (flags only)'),
    ((2,), 1, 'op == 0x71', 'OUT (C),0'),
    ((2,), 1, 'op == 0x5E && post.im == 2', 'IM 2'),
    ((2,), 1, 'op == 0x6F && t == 18', 'RLD 18 T'),
    ((2,), 1, 'op == 0x7C', 'NEG mirror'),
    ((2,), 1, 'op == 0x77 && t == 8', 'ED 77 NOP'),
    ((2,), 1, 'op == 0x5F && t == 9', 'LD A,R 9 T'),
    ((2,), 1, 'op == 0x7A && t == 15', 'ADC HL,SP 15 T'),
    ((2,), 2, 'op == 0xB0 && v && w16(pre.b, pre.c) != 1 && t == 21', 'LDIR repeats (BC != 1) 21 T'),
    ((2,), 2, 'op == 0xB0 && !v && w16(pre.b, pre.c) == 1 && t == 16', 'LDIR ends (BC == 1) 16 T'),
    ((2,), 2, 'op == 0xB8 && v', 'LDDR repeats'),
    ((2,), 2, 'op == 0xB1 && v && t == 21', 'CPIR repeats'),
    ((2,), 2, 'op == 0xB1 && !v && w16(pre.b, pre.c) != 1 && t == 16', 'CPIR ends on A == (HL)'),
    ((2,), 2, 'op == 0xB9 && !v && w16(pre.b, pre.c) == 1', 'CPDR ends on BC == 1'),
    ((2,), 2, 'op == 0xB2 && v && pre.b != 1 && t == 21', 'INIR repeats (B != 1)'),
    ((2,), 2, 'op == 0xB2 && !v && pre.b == 1 && t == 16', 'INIR ends (B == 1)'),
    ((2,), 2, 'op == 0xBA && v', 'INDR repeats'),
    ((2,), 2, 'op == 0xB3 && v && t == 21', 'OTIR repeats'),
    ((2,), 2, 'op == 0xB3 && !v && pre.b == 1', 'OTIR ends (B == 1)'),
    ((2,), 2, 'op == 0xBB && !v', 'OTDR ends'),
    ((2,), 2, 'op == 0xA3 && t == 16', 'OUTI'),
    ((2,), 2, 'op == 0xA4 && t == 8', 'undefined ED A4'),
    ((2,), 2, 'op == 0xB0 && v && pre.pc & 0xFF == (if PEND { 0x00 } else { 0xFF }) && info.f_dc != 0', 'LDIR repeat at xxFF (F.5/F.3 left open)'),
    (XYCB, 0, 'op == 0x06 && t == 23', 'RLC (IX+d) 23 T'),
    (XYCB, 0, 'op == 0x00 && t == 23', 'RLC (IX+d)->B (undocumented copy)'),
    (XYCB, 1, 'op == 0x78 && t == 20', 'BIT 7,(IX+d) (any z) 20 T'),
    (XYCB, 2, 'op == 0x87', 'RES 0,(IX+d)->A'),
    (XYCB, 3, 'op == 0xFE && t == 23', 'SET 7,(IX+d)'),
]

def block(name, page, pname, ptext, quad, known, pend=False):
    lo, hi = quad * 64, quad * 64 + 63
    pendtxt = ' entered with the first prefix byte pending from a previous call of a DD/FD chain (active_prefix set, interrupts inhibited)' if pend else ''
    if known == 0:
        prop, expect = 'C01 C03 C04', 'pass'
        assume = ('pending prefix implies inhibited sampling (representation invariant); the regions of KF-C01-1 / KF-C01-2 '
                  '(MEMPTR after LD (nn),A with hi(nn+1) & !A != 0, after OUT (n),A with n == 0xFF and A even; both fixed) are excluded here and '
                  'covered by the c01_known_* harnesses') if page in (0, 3, 4) else 'pending prefix implies inhibited sampling (representation invariant)'
        asserts = ('event count; every event kind/address/data/T-states; A F B C D E H L, alternates, IX IY SP PC I R IFF1 IFF2 IM MEMPTR Q(5,3) '
                   'halted skip_interrupt pending prefix equal to the reference model; total T-states equal the documented total; no panic/overflow/index error (Kani checks)')
    else:
        # both findings are fixed in /repo (28cf150, 2e39f29): the region harnesses must now hold
        prop, expect = 'C01', 'pass'
        assume = 'restricted to EXACTLY the region of KF-C01-%d (%s)' % (
            known, 'LD (nn),A with hi(nn+1) & !A != 0' if known == 1 else 'OUT (n),A with n == 0xFF and A even')
        asserts = 'as the page harness, on exactly the region where MEMPTR used to be computed as (x+1) | A<<8 without masking the low byte (fixed findings KF-C01-%d)' % known
    runner = 'c01_run_' + pname
    lines = [
        '// @harness',
        '// @prop ' + prop,
        '// @tier quick',
        '// @expect ' + expect,
        '// @timeout %d' % TIMEOUT.get((page, quad), 600),
        '// @fn ' + FN[pname],
        '// @sym all registers incl. F, alternates, IX, IY, SP, PC, I, R, IFF1/2, IM, MEMPTR, Q/last_q, skip_interrupt; %s page, opcode 0x%02X..0x%02X%s; displacement and operand bytes, memory and port contents (input stream of %d bytes)' % (ptext, lo, hi, pendtxt, 8),
        '// @assert ' + asserts,
        '// @bound one instruction; at most 10 bus events and 8 input bytes (overflow asserted absent); no loops in the encoded code (wait_loop logged as one run), unwind 19 only for the 18-slot event-log comparison',
        '// @assume ' + assume,
        '// @outside memory aliasing (memory is an input stream; see C06); pc_callback / process_unknown_opcode side effects (empty in RecBus); halted pre-state and active INT/NMI lines (C02); F.5/F.3 and Q of a repeating block instruction that starts at xxFF, Q after a repeating LDxR/CPxR iteration (left open by the oracle)',
        '#[kani::proof]',
        '#[kani::unwind(19)]',
        'fn %s() {' % name,
    ]
    pendb = 'true' if pend else 'false'
    if known == 0:
        cv = [(c, m) for pg, q, c, m in COVERS if page in pg and q == quad]
        lines += [
            '    let op = any_opcode(%d, %s);' % (quad, 'true' if page in (0, 3, 4) else 'false'),
            '    let (pre, post, info, t) = %s(%d, op, %s, 0);' % (runner, page, pendb),
            '    let v = info.variant;',
            '    kani::cover!(info.page == %d && t >= 4 && post.r != pre.r && (v || !v), "an instruction of the page ran and advanced R and time");' % page,
        ]
        for n, (c, m) in enumerate(cv):
            if page in (3, 4):
                c = c.replace('T0 + TM', '4 + 8').replace('T0', '4')
            else:
                c = c.replace('T0 + TM + ', '').replace('T0 + ', '')
            c = c.replace('PEND', pendb)
            lines.append('    kani::cover!(%s, "%s");' % (c, m))
    else:
        lines += [
            '    let (pre, post, info, t) = %s(%d, %s, %s, %d);' % (runner, page, '0x32' if known == 1 else '0xD3', pendb, known),
            '    kani::cover!(info.page == %d && t >= 11 && post.pc != pre.pc, "former known-finding region reachable");' % page,
        ]
    lines.append('}')
    return '\n'.join(lines) + '\n'

out = []
for page, pname, ptext in PAGES:
    for quad in range(4):
        out.append(block('c01_page%d_%s_q%d' % (page, pname, quad), page, pname, ptext, quad, 0))
for page, pname, ptext in PAGES:
    for quad in range(4):
        if page >= 2:
            out.append(block('c01_pend%d_%s_q%d' % (page, pname, quad), page, pname, ptext, quad, 0, True))
for page, pname, ptext in PAGES:
    if page in (0, 3, 4):
        out.append(block('c01_known_ld_nn_a_memptr_%s' % pname, page, pname, ptext, 0, 1))
        out.append(block('c01_known_out_n_a_memptr_%s' % pname, page, pname, ptext, 3, 2))
        if page >= 3:
            out.append(block('c01_known_ld_nn_a_memptr_%s_pend' % pname, page, pname, ptext, 0, 1, True))
            out.append(block('c01_known_out_n_a_memptr_%s_pend' % pname, page, pname, ptext, 3, 2, True))
C02_FN = 'Z80::emulate; Z80::handle_interrupt; execute_push_16; Z80Bus::read_word; execute_normal (NOP HALT DI EI SCF LD POP arms); execute_extended (RETN RETI IM LD A,I LDIR arms)'
C02_ASSERT = ('per call: real == reference model (instruction events index-wise; interrupt-entry events with the acknowledge cycle\'s position left open; all registers, IFF1/2, IM, MEMPTR, Q, halted, skip_interrupt, pending prefix); '
              'entry totals 13/19/11 T; and the statement\'s clauses directly on the real CPU: INT only with IFF1 set, never directly after EI/DI nor between a DD/FD prefix (chain) and its opcode, accepted whenever due; '
              'continues at 0x0066 / 0x0038 / the word at I*256+bus byte; pushed address = next instruction (behind the HALT when halted); halted CPU only advances R and time; representation invariant re-established')
C02_ASSUME = 'representation invariant of Z80 (pending prefix => skip_interrupt, halted => no pending prefix, no CB pending); a halted CPU fetches a HALT (memory is an input stream); NMI active at an inhibited boundary excluded (outside the statement)'
C02_OUTSIDE = 'NMI directly after EI/DI or inside a prefix chain; IM 0 with a bus byte other than RST 38; LD A,I / LD A,R interrupted-PV quirk; position of the 7-T/5-T acknowledge cycle relative to the stack writes; instructions outside the listed opcode sets (C01 covers every instruction from an arbitrary IFF/skip_interrupt/prefix state)'

def c02_block(name, sym, bound, body, timeout=600, tier='quick'):
    return '\n'.join([
        '// @harness', '// @prop C02 C03' + (' C05' if tier == 'quick' else ''), '// @tier ' + tier, '// @timeout %d' % timeout, '// @fn ' + C02_FN,
        '// @sym whole CPU state incl. halted, skip_interrupt, pending prefix (none/DD/FD/ED), IFF1/2, IM, Q; per call: INT level, NMI level, bus byte and vector table bytes, operand bytes; ' + sym,
        '// @assert ' + C02_ASSERT, '// @bound ' + bound + '; 18-slot event log loops (unwind 19)',
        '// @assume ' + C02_ASSUME, '// @outside ' + C02_OUTSIDE,
        '#[kani::proof]', '#[kani::unwind(19)]', 'fn %s() {' % name] + ['    ' + l for l in body] + ['}', ''])

c02 = []
STEP_COVERS = {
    'plain': [
        ('c.real_entry && !c.nmi && c.pre.im == 2 && c.pre.halted', 'INT in IM 2 while halted'),
        ('c.real_entry && c.nmi && c.pre.iff2 && cpu.regs.get_iff2() && !cpu.regs.get_iff1() && c.info.op == 0x00', 'NMI with IFF2 set: IFF2 survives, IFF1 cleared'),
        ('c.int && c.pre.iff1 && c.pre.inhibit && !c.real_entry && c.pre.pending == 0', 'INT right after EI/DI: not accepted at this boundary'),
        ('c.int && c.pre.iff1 && c.pre.pending == 0xDD && !c.real_entry', 'INT between DD prefix and opcode: not accepted'),
        ('c.pre.halted && !c.real_entry && cpu.halted', 'halted CPU idles'),
        ('c.real_entry && !c.nmi && c.pre.im == 0 && c.info.op == 0xFB', 'INT in IM 0 followed by EI'),
        ('c.pre.pending == 0xED && c.info.page == 2 && c.info.op == 0x4D && c.pre.iff2 && !c.pre.iff1 && cpu.regs.get_iff1()', 'RETI behind a pending ED copies IFF2 to IFF1'),
    ],
    'xy': [
        ('c.info.chain && c.pre.pending == 0 && cpu.skip_interrupt', 'DD/FD followed by a prefix: chain link, sampling inhibited'),
        ('c.real_entry && !c.nmi && c.info.chain', 'INT accepted, then a prefix chain starts'),
        ('c.pre.pending != 0 && c.info.chain && c.int && c.pre.iff1 && !c.real_entry', 'INT inside a DD DD chain: not accepted'),
        ('c.real_entry && c.nmi && c.pre.halted && c.info.op == 0x76', 'NMI releases HALT; the handler halts again'),
    ],
    'ed': [
        ('c.info.op == 0x45 && c.pre.iff2 && !c.pre.iff1 && cpu.regs.get_iff1() && !c.real_entry', 'RETN copies IFF2 to IFF1'),
        ('c.info.op == 0x4D && c.real_entry && c.nmi', 'NMI, then RETI at 0x0066'),
        ('c.info.op == 0x5E && c.real_entry && !c.nmi && c.pre.im == 1', 'INT in IM 1, handler switches to IM 2'),
        ('c.info.op == 0xB0 && c.info.variant && !c.real_entry', 'LDIR repeat iteration (interruptible at the next boundary)'),
    ],
}
for nm, cst, txt in (('plain', 'C02_PLAIN', 'first byte from {00 NOP, 76 HALT, F3 DI, FB EI, 37 SCF, 45, 4D, 56, 5E, 46} (also executed behind a pending DD/FD/ED prefix: LD r,IXL .. / RETN, RETI, IM 1, IM 2, IM 0)'),
                     ('xy', 'C02_XY', 'DD/FD followed by DD/FD/ED (chain link) or by NOP, HALT, EI/DI, POP IX/IY'),
                     ('ed', 'C02_ED', 'ED followed by 45 RETN, 4D RETI, 46/56/5E IM 0/1/2, 57 LD A,I, B0 LDIR, 00 (undefined)')):
    body = ['let mut o = any_seq_st();', 'let mut cpu = cpu_from(&o);', 'let c = c02_call(&mut cpu, &mut o, false, %s);' % cst]
    body += ['kani::cover!(%s, "%s");' % cm for cm in STEP_COVERS[nm]]
    c02.append(c02_block('c02_step_%s' % nm, 'opcode bytes: ' + txt, 'ONE call from an arbitrary sequencing state (inductive step)', body))

SEQ = [
    ('c02_seq_ei_di', ('C02_EI_DI', 'C02_NOP_HALT', 'C02_NOP_RET'),
     'call 1 from {EI, DI, DD EI}, call 2 from {NOP, HALT}, call 3 from {NOP, RETI, RETN}',
     [('!c1.pre.iff1 && c1.info.op == 0xFB && c2.int && !c2.real_entry && c3.int && c3.real_entry && !c3.nmi',
       'INT right after EI is delayed by one instruction, then accepted'),
      ('c1.info.op == 0xF3 && c2.int && !c2.real_entry && c3.int && !c3.real_entry', 'INT after DI is never accepted'),
      ('c1.info.op == 0xFB && c2.info.op == 0x76 && c3.pre.halted && c3.real_entry && !c3.nmi && c3.pre.im == 2 && c3.info.op == 0x4D',
       'EI; HALT; INT in IM 2 while halted; RETI at the vector'),
      ('c2.real_entry && c2.nmi && c2.pre.iff2 && c3.pre.iff2 && !c3.pre.iff1 && c3.info.op == 0x45 && cpu.regs.get_iff1() && !c3.real_entry',
       'NMI with IFF2 set preserves IFF2; RETN restores IFF1')]),
    ('c02_seq_chain', ('C02_CHAIN1', 'C02_CHAIN2', 'C02_CHAIN3'),
     'call 1 from {DD DD, DD FD, FD ED}, call 2 (pending prefix) from {DD (E1), 5E, E1}, call 3 from {00, 4D, E1}',
     [('c1.info.chain && c2.info.chain && c2.int && c2.pre.iff1 && !c2.real_entry && c3.int && !c3.real_entry && !c3.info.chain && c3.info.op == 0xE1',
       'INT held off inside a DD DD DD chain and before the opcode it modifies (POP IX)'),
      ('c1.info.chain && c2.pre.pending == 0xED && c2.info.page == 2 && c2.info.op == 0x5E && c3.int && c3.pre.iff1 && c3.real_entry && c3.pre.im == 2',
       'FD ED 5E = IM 2, then INT accepted in IM 2'),
      ('c1.real_entry && !c1.nmi && c1.info.chain && !c2.real_entry', 'INT accepted before the chain, none inside')]),
    ('c02_seq_halt', ('C02_HALT1', 'C02_NOP_HALT', 'C02_NOP_RET'),
     'call 1 from {HALT, DD HALT, ED 5E}, call 2 from {NOP, HALT}, call 3 from {NOP, RETI, RETN}',
     [('c1.info.op == 0x76 && !c1.pre.halted && c2.pre.halted && !c2.real_entry && c3.pre.halted && c3.real_entry && !c3.nmi && c3.pre.im == 2',
       'HALT; idle; INT in IM 2 while halted'),
      ('c1.info.op == 0x76 && c1.info.page == 3 && c2.real_entry && c2.nmi && c2.pre.halted && c3.info.op == 0x45 && c3.info.page == 2',
       'DD HALT; NMI releases it; RETN returns behind the HALT'),
      ('c1.pre.halted && c1.real_entry && c2.info.op == 0x76 && c3.pre.halted && c3.real_entry', 'released, halted again, released again')]),
]
for name, sets, txt, covers in SEQ:
    body = ['let mut o = any_seq_st();', 'let mut cpu = cpu_from(&o);',
            'let c1 = c02_call(&mut cpu, &mut o, false, %s);' % sets[0],
            'let c2 = c02_call(&mut cpu, &mut o, c02_inhibiting(&c1), %s);' % sets[1],
            'let c3 = c02_call(&mut cpu, &mut o, c02_inhibiting(&c2), %s);' % sets[2]]
    body += ['kani::cover!(%s, "%s");' % cm for cm in covers]
    c02.append(c02_block(name, 'opcode bytes: ' + txt, 'THREE consecutive calls from an arbitrary sequencing state', body, 900))

for page, pname, ptext in PAGES:
    for quad in range(4):
        body = ['let c = c02_entry_then_any(%d, %d);' % (page, quad),
                'kani::cover!(c.real_entry && !c.nmi && c.info.page == %d, "INT accepted, then an instruction of this page/quadrant");' % page,
                'kani::cover!(c.real_entry && c.nmi && c.pre.halted, "NMI releases HALT, then an instruction of this page/quadrant");',
                'kani::cover!(!c.real_entry && c.int && !c.pre.halted && c.info.page == %d, "INT pending but not accepted");' % page]
        c02.append(c02_block('c02_entry_then_page%d_%s_q%d' % (page, pname, quad),
                             'opcode: ANY opcode 0x%02X..0x%02X of the %s page (prefix bytes concrete), no pending prefix' % (quad * 64, quad * 64 + 63, ptext),
                             'ONE call: interrupt sampling followed by any instruction of the page/quadrant (KF-C01-1/2 regions excluded as in C01)',
                             body, 900, 'thorough'))

# reachability twins: same set-up as the harness they guard, ending in assert(false) -- it must FAIL
c02.append('\n'.join([
    '// @harness', '// @prop C01 C03', '// @tier quick', '// @expect vacuity', '// @timeout 300', '// @fn ' + FN['cb'],
    '// @sym as c01_page1_cb_q1', '// @assert reachability twin of the C01 page harnesses: after all assumptions and comparisons the final assert(false) must be reached (must FAIL)',
    '// @bound as c01_page1_cb_q1', '#[kani::proof]', '#[kani::unwind(19)]', 'fn c01_reach_page1_cb_q1() {',
    '    let op = any_opcode(1, false);', '    let (_pre, _post, info, _t) = c01_run_cb(1, op, false, 0);',
    '    kani::cover!(info.page == 1, "reached");', '    kani::assert(false, "c01.reach");', '}', '']))
c02.append('\n'.join([
    '// @harness', '// @prop C02', '// @tier quick', '// @expect vacuity', '// @timeout 600', '// @fn ' + C02_FN,
    '// @sym as c02_step_ed', '// @assert reachability twin of the C02 step harnesses: the assumptions (representation invariant, halted => HALT fetched, no NMI at an inhibited boundary) leave the end of the harness reachable (final assert(false) must FAIL)',
    '// @bound as c02_step_ed', '// @assume ' + C02_ASSUME, '#[kani::proof]', '#[kani::unwind(19)]', 'fn c02_reach_step_ed() {',
    '    let mut o = any_seq_st();', '    let mut cpu = cpu_from(&o);', '    let c = c02_call(&mut cpu, &mut o, false, C02_ED);',
    '    kani::cover!(c.real_entry, "reached with an interrupt entry");', '    kani::assert(false, "c02.reach");', '}', '']))

p = os.path.join(HERE, 'cpu.rs')
s = open(p).read()
b2 = '// ==== BEGIN GENERATED C02 WRAPPERS (gen_wrappers.py) ====\n'
e2 = '// ==== END GENERATED C02 WRAPPERS ====\n'
i, j = s.index(b2) + len(b2), s.index(e2)
s = s[:i] + '\n'.join(c02) + s[j:]
b = '// ==== BEGIN GENERATED WRAPPERS (gen_wrappers.py) ====\n'
e = '// ==== END GENERATED WRAPPERS ====\n'
i, j = s.index(b) + len(b), s.index(e)
open(p, 'w').write(s[:i] + '\n'.join(out) + s[j:])
print('wrote %d wrappers' % len(out))
