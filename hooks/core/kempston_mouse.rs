//! Kani harnesses compiled as a child module of rustzx-core/src/zx/mouse/kempston.rs (cfg(kani) only).
