//! Kani harnesses compiled as a child module of rustzx-core/src/zx/joy/kempston.rs (cfg(kani) only).
#![allow(dead_code)]
use super::*;

pub(crate) fn set_state(k: &mut KempstonJoy, v: u8) {
    k.state = v;
}
