//! Kani harnesses compiled as a child module of rustzx-core/src/zx/joy/kempston.rs (cfg(kani) only).
