//! Kani harnesses compiled as a child module of rustzx-core/src/zx/sound/mixer.rs (cfg(kani) only).
//! Property C19: audio arrives at exactly the configured rate and tracks the speaker bit.
#![allow(dead_code)]
use super::*;

pub(crate) fn pos_for_fraction(m: &ZXMixer, f: f64) -> usize {
    m.sample_count_for_frame_fraction(f)
}
pub(crate) fn spf(m: &ZXMixer) -> usize {
    m.samples_per_frame()
}
pub(crate) fn ring_len(m: &ZXMixer) -> usize {
    m.ring_buffer.len()
}
pub(crate) fn last_pos(m: &ZXMixer) -> usize {
    m.last_pos
}
pub(crate) fn noop_process(_m: &mut ZXMixer, _t: f64) {}
/// frame-end padding of the audio queue (VecDeque growth is very expensive to execute symbolically);
/// only for harnesses in which audio is not the subject
pub(crate) fn noop_new_frame(_m: &mut ZXMixer) {}

#[cfg(not(feature = "ay"))]
mod c19 {
    use super::*;
    use crate::zx::sound::beeper::verif_hooks as bh;

    fn mk(rate: usize) -> ZXMixer {
        ZXMixer::new(true, rate)
    }

    /// level of the beeper output for the speaker (EAR, bit 4) and MIC (bit 3) lines, per volume 1.0
    fn spec_level(ear: bool, mic: bool) -> f64 {
        (if ear { 0.5 } else { 0.0 }) + (if mic { 0.1 } else { 0.0 })
    }

    /// `rate` is a literal at every call site (samples/frame = rate/50 in 1..=4), so the cursor
    /// arithmetic multiplies by a constant
    fn small_mixer(rate: usize) -> (ZXMixer, usize) {
        let mut m = mk(rate);
        let s = rate / 50;
        // volume from a literal class: with a symbolic volume the solver has to prove two f64 multiplier
        // circuits equivalent (sample = level x volume on both sides), which does not terminate
        let vol: f64 = match kani::any::<u8>() & 3 {
            0 => 0.0,
            1 => 0.5,
            2 => 1.0,
            _ => 1.275,
        };
        m.volume(vol);
        let use_beeper: bool = kani::any();
        m.use_beeper = use_beeper;
        (m, s)
    }

    fn any_small_mixer() -> (ZXMixer, usize) {
        let sel: u8 = kani::any();
        kani::assume(sel < 3);
        match sel {
            0 => small_mixer(50),
            1 => small_mixer(149),
            _ => small_mixer(200),
        }
    }

    fn prefill(m: &mut ZXMixer, n: usize) {
        let mut i = 0;
        while i < 7 {
            if i < n {
                m.ring_buffer.push_back(SoundSample::new(0.25, 0.25));
            }
            i += 1;
        }
    }

    // @harness
    // @prop C19
    // @tier quick
    // @features sound
    // @timeout 600
    // @fn ZXMixer::process; ZXMixer::gen_sample; ZXMixer::samples_per_frame; ZXMixer::sample_count_for_frame_fraction; ZXBeeper::gen_sample; SoundSample::mul_eq; SoundSample::into_f32; ZXMixer::volume
    // @sym sample rate from {50, 149, 200} Hz (samples/frame 1, 2, 4; literals), master volume from {0, 0.5, 1.0, 1.275} (sound_volume 0, 100, 200, 255; a symbolic f64 volume makes the query a multiplier-equivalence problem), beeper on/off, speaker and MIC levels, case 1 of 7: sample rate 50 Hz (1 samples/frame), 0 samples queued, cursor 0 (first sample of a 1-sample frame); frame fraction any f64 in [0,4]
    // @assert one mixer step: if the queue already holds a frame's worth nothing is added; otherwise exactly max(0, pos - last_pos) samples are queued and the cursor moves to pos; every queued sample is (left == right) volume*(0.5*speaker + 0.1*MIC) (0 with the beeper disabled), finite, >= 0 and <= 0.6*volume; the queue never reaches two frames' worth (invariant len <= 2*spf-1 preserved); a drained frame keeps len == cursor
    // @bound samples/frame <= 4 so the push loop unrolls (unwind 9); real rates are covered by the c19_cursor_* arithmetic queries
    // @outside rates >= 8000 in this step harness; AY contribution (float DSP)
    #[kani::proof]
    #[kani::unwind(9)]
    fn c19_mixer_step_1() {
        mixer_step_case(50, 0, 0);
    }

    // @harness
    // @prop C19
    // @tier quick
    // @features sound
    // @timeout 600
    // @fn ZXMixer::process; ZXMixer::gen_sample; ZXMixer::samples_per_frame; ZXMixer::sample_count_for_frame_fraction; ZXBeeper::gen_sample; SoundSample::mul_eq; SoundSample::into_f32; ZXMixer::volume
    // @sym sample rate from {50, 149, 200} Hz (samples/frame 1, 2, 4; literals), master volume from {0, 0.5, 1.0, 1.275} (sound_volume 0, 100, 200, 255; a symbolic f64 volume makes the query a multiplier-equivalence problem), beeper on/off, speaker and MIC levels, case 2 of 7: sample rate 200 Hz (4 samples/frame), 0 samples queued, cursor 0 (drained frame start); frame fraction any f64 in [0,4]
    // @assert one mixer step: if the queue already holds a frame's worth nothing is added; otherwise exactly max(0, pos - last_pos) samples are queued and the cursor moves to pos; every queued sample is (left == right) volume*(0.5*speaker + 0.1*MIC) (0 with the beeper disabled), finite, >= 0 and <= 0.6*volume; the queue never reaches two frames' worth (invariant len <= 2*spf-1 preserved); a drained frame keeps len == cursor
    // @bound samples/frame <= 4 so the push loop unrolls (unwind 9); real rates are covered by the c19_cursor_* arithmetic queries
    // @outside rates >= 8000 in this step harness; AY contribution (float DSP)
    #[kani::proof]
    #[kani::unwind(9)]
    fn c19_mixer_step_2() {
        mixer_step_case(200, 0, 0);
    }

    // @harness
    // @prop C19
    // @tier quick
    // @features sound
    // @timeout 600
    // @fn ZXMixer::process; ZXMixer::gen_sample; ZXMixer::samples_per_frame; ZXMixer::sample_count_for_frame_fraction; ZXBeeper::gen_sample; SoundSample::mul_eq; SoundSample::into_f32; ZXMixer::volume
    // @sym sample rate from {50, 149, 200} Hz (samples/frame 1, 2, 4; literals), master volume from {0, 0.5, 1.0, 1.275} (sound_volume 0, 100, 200, 255; a symbolic f64 volume makes the query a multiplier-equivalence problem), beeper on/off, speaker and MIC levels, case 3 of 7: sample rate 200 Hz (4 samples/frame), 3 samples queued, cursor 3 (drained frame, last sample); frame fraction any f64 in [0,4]
    // @assert one mixer step: if the queue already holds a frame's worth nothing is added; otherwise exactly max(0, pos - last_pos) samples are queued and the cursor moves to pos; every queued sample is (left == right) volume*(0.5*speaker + 0.1*MIC) (0 with the beeper disabled), finite, >= 0 and <= 0.6*volume; the queue never reaches two frames' worth (invariant len <= 2*spf-1 preserved); a drained frame keeps len == cursor
    // @bound samples/frame <= 4 so the push loop unrolls (unwind 9); real rates are covered by the c19_cursor_* arithmetic queries
    // @outside rates >= 8000 in this step harness; AY contribution (float DSP)
    #[kani::proof]
    #[kani::unwind(9)]
    fn c19_mixer_step_3() {
        mixer_step_case(200, 3, 3);
    }

    // @harness
    // @prop C19
    // @tier quick
    // @features sound
    // @timeout 600
    // @fn ZXMixer::process; ZXMixer::gen_sample; ZXMixer::samples_per_frame; ZXMixer::sample_count_for_frame_fraction; ZXBeeper::gen_sample; SoundSample::mul_eq; SoundSample::into_f32; ZXMixer::volume
    // @sym sample rate from {50, 149, 200} Hz (samples/frame 1, 2, 4; literals), master volume from {0, 0.5, 1.0, 1.275} (sound_volume 0, 100, 200, 255; a symbolic f64 volume makes the query a multiplier-equivalence problem), beeper on/off, speaker and MIC levels, case 4 of 7: sample rate 200 Hz (4 samples/frame), 4 samples queued, cursor 1 (full queue: nothing may be added); frame fraction any f64 in [0,4]
    // @assert one mixer step: if the queue already holds a frame's worth nothing is added; otherwise exactly max(0, pos - last_pos) samples are queued and the cursor moves to pos; every queued sample is (left == right) volume*(0.5*speaker + 0.1*MIC) (0 with the beeper disabled), finite, >= 0 and <= 0.6*volume; the queue never reaches two frames' worth (invariant len <= 2*spf-1 preserved); a drained frame keeps len == cursor
    // @bound samples/frame <= 4 so the push loop unrolls (unwind 9); real rates are covered by the c19_cursor_* arithmetic queries
    // @outside rates >= 8000 in this step harness; AY contribution (float DSP)
    #[kani::proof]
    #[kani::unwind(9)]
    fn c19_mixer_step_4() {
        mixer_step_case(200, 4, 1);
    }

    // @harness
    // @prop C19
    // @tier quick
    // @features sound
    // @timeout 600
    // @fn ZXMixer::process; ZXMixer::gen_sample; ZXMixer::samples_per_frame; ZXMixer::sample_count_for_frame_fraction; ZXBeeper::gen_sample; SoundSample::mul_eq; SoundSample::into_f32; ZXMixer::volume
    // @sym sample rate from {50, 149, 200} Hz (samples/frame 1, 2, 4; literals), master volume from {0, 0.5, 1.0, 1.275} (sound_volume 0, 100, 200, 255; a symbolic f64 volume makes the query a multiplier-equivalence problem), beeper on/off, speaker and MIC levels, case 5 of 7: sample rate 200 Hz (4 samples/frame), 7 samples queued, cursor 0 (worst-case undrained queue); frame fraction any f64 in [0,4]
    // @assert one mixer step: if the queue already holds a frame's worth nothing is added; otherwise exactly max(0, pos - last_pos) samples are queued and the cursor moves to pos; every queued sample is (left == right) volume*(0.5*speaker + 0.1*MIC) (0 with the beeper disabled), finite, >= 0 and <= 0.6*volume; the queue never reaches two frames' worth (invariant len <= 2*spf-1 preserved); a drained frame keeps len == cursor
    // @bound samples/frame <= 4 so the push loop unrolls (unwind 9); real rates are covered by the c19_cursor_* arithmetic queries
    // @outside rates >= 8000 in this step harness; AY contribution (float DSP)
    #[kani::proof]
    #[kani::unwind(9)]
    fn c19_mixer_step_5() {
        mixer_step_case(200, 7, 0);
    }

    // @harness
    // @prop C19
    // @tier quick
    // @features sound
    // @timeout 600
    // @fn ZXMixer::process; ZXMixer::gen_sample; ZXMixer::samples_per_frame; ZXMixer::sample_count_for_frame_fraction; ZXBeeper::gen_sample; SoundSample::mul_eq; SoundSample::into_f32; ZXMixer::volume
    // @sym sample rate from {50, 149, 200} Hz (samples/frame 1, 2, 4; literals), master volume from {0, 0.5, 1.0, 1.275} (sound_volume 0, 100, 200, 255; a symbolic f64 volume makes the query a multiplier-equivalence problem), beeper on/off, speaker and MIC levels, case 6 of 7: sample rate 149 Hz (2 samples/frame), 1 samples queued, cursor 0 (partially drained host); frame fraction any f64 in [0,4]
    // @assert one mixer step: if the queue already holds a frame's worth nothing is added; otherwise exactly max(0, pos - last_pos) samples are queued and the cursor moves to pos; every queued sample is (left == right) volume*(0.5*speaker + 0.1*MIC) (0 with the beeper disabled), finite, >= 0 and <= 0.6*volume; the queue never reaches two frames' worth (invariant len <= 2*spf-1 preserved); a drained frame keeps len == cursor
    // @bound samples/frame <= 4 so the push loop unrolls (unwind 9); real rates are covered by the c19_cursor_* arithmetic queries
    // @outside rates >= 8000 in this step harness; AY contribution (float DSP)
    #[kani::proof]
    #[kani::unwind(9)]
    fn c19_mixer_step_6() {
        mixer_step_case(149, 1, 0);
    }

    // @harness
    // @prop C19
    // @tier quick
    // @features sound
    // @timeout 600
    // @fn ZXMixer::process; ZXMixer::gen_sample; ZXMixer::samples_per_frame; ZXMixer::sample_count_for_frame_fraction; ZXBeeper::gen_sample; SoundSample::mul_eq; SoundSample::into_f32; ZXMixer::volume
    // @sym sample rate from {50, 149, 200} Hz (samples/frame 1, 2, 4; literals), master volume from {0, 0.5, 1.0, 1.275} (sound_volume 0, 100, 200, 255; a symbolic f64 volume makes the query a multiplier-equivalence problem), beeper on/off, speaker and MIC levels, case 7 of 7: sample rate 149 Hz (2 samples/frame), 3 samples queued, cursor 2 (queue above one frame); frame fraction any f64 in [0,4]
    // @assert one mixer step: if the queue already holds a frame's worth nothing is added; otherwise exactly max(0, pos - last_pos) samples are queued and the cursor moves to pos; every queued sample is (left == right) volume*(0.5*speaker + 0.1*MIC) (0 with the beeper disabled), finite, >= 0 and <= 0.6*volume; the queue never reaches two frames' worth (invariant len <= 2*spf-1 preserved); a drained frame keeps len == cursor
    // @bound samples/frame <= 4 so the push loop unrolls (unwind 9); real rates are covered by the c19_cursor_* arithmetic queries
    // @outside rates >= 8000 in this step harness; AY contribution (float DSP)
    #[kani::proof]
    #[kani::unwind(9)]
    fn c19_mixer_step_7() {
        mixer_step_case(149, 3, 2);
    }

    fn mixer_step_case(rate: usize, n0: usize, lp: usize) {
        let (mut m, s) = small_mixer(rate);
        kani::assert(spf(&m) == s, "c19.step.samples_per_frame_is_rate_over_50");
        let (ear, mic): (bool, bool) = (kani::any(), kani::any());
        bh::set_levels(&mut m.beeper, ear, mic);
        m.last_pos = lp;
        prefill(&mut m, n0);
        let frac: f64 = kani::any();
        kani::assume(frac >= 0.0 && frac <= 4.0);
        let pos = pos_for_fraction(&m, frac);
        kani::assert(pos <= s, "c19.step.cursor_never_beyond_frame");
        m.process(frac);
        let n1 = ring_len(&m);
        if n0 >= s || pos <= lp {
            kani::assert(n1 == n0 && m.last_pos == lp, "c19.step.nothing_added");
        } else {
            kani::assert(n1 == n0 + (pos - lp) && m.last_pos == pos, "c19.step.exactly_the_elapsed_samples");
            let want = (spec_level(ear, mic) * if m.use_beeper { 1.0 } else { 0.0 }) * m.master_volume;
            let smp = *m.ring_buffer.back().unwrap();
            kani::assert(smp.left == want as f32 && smp.right == want as f32, "c19.step.sample_is_volume_times_level");
            kani::assert(smp.left.is_finite() && smp.left >= 0.0 && smp.left <= (0.6 * m.master_volume) as f32, "c19.step.sample_finite_and_bounded");
            kani::assert(m.last_sample.left == smp.left, "c19.step.last_sample_recorded");
        }
        kani::assert(n1 <= 2 * s - 1, "c19.step.queue_below_two_frames");
        if n0 == lp {
            kani::assert(n1 == m.last_pos || n0 >= s, "c19.step.drained_frame_tracks_cursor");
        }
        kani::cover!(n1 > n0 || n0 >= s || lp >= s, "samples were queued (where the case allows it)");
        kani::cover!(n1 == n0, "nothing queued");
    }

    // @harness
    // @prop C19
    // @tier quick
    // @features sound
    // @timeout 900
    // @fn ZXMixer::new_frame; ZXMixer::pop
    // @sym sample rate from {50, 149, 200} Hz, cursor, queue length 0..2*spf-1, number of samples the host drains afterwards
    // @assert a frame end pads the queue to a full frame with the last level if the frame was cut short, never removes samples, resets the cursor; so a host draining at frame ends receives exactly floor(rate/50) samples per frame, and an undrained queue stays below two frames
    // @bound samples/frame <= 4 (unwind 9)
    #[kani::proof]
    #[kani::unwind(9)]
    fn c19_frame_end_pads_to_full_frame() {
        let (mut m, s) = any_small_mixer();
        let n0: usize = kani::any();
        kani::assume(n0 <= 2 * s - 1);
        prefill(&mut m, n0);
        m.last_pos = kani::any();
        kani::assume(m.last_pos <= s);
        let drained_frame = n0 == m.last_pos;
        m.new_frame();
        let n1 = ring_len(&m);
        kani::assert(n1 == if n0 < s { s } else { n0 }, "c19.frame.padded_to_full_frame_never_truncated");
        kani::assert(m.last_pos == 0, "c19.frame.cursor_reset");
        if drained_frame {
            kani::assert(n1 == s, "c19.frame.exactly_rate_over_50_samples_per_drained_frame");
        }
        // host drains everything
        let mut got = 0;
        let mut i = 0;
        while i < 8 {
            if m.pop().is_some() {
                got += 1;
            }
            i += 1;
        }
        kani::assert(got == n1 && ring_len(&m) == 0, "c19.frame.drain_returns_all");
        kani::cover!(n0 < s && s == 4, "short frame padded");
        kani::cover!(n0 == 2 * s - 1 && s == 4, "undrained queue kept");
    }
}
