//! Kani harnesses compiled as a child module of rustzx-core/src/zx/sound/mixer.rs (cfg(kani) only).
