//! Kani harnesses compiled as a child module of rustzx-core/src/host/io.rs (cfg(kani) only).
