//! Kani harnesses compiled as a child module of rustzx-core/src/host/io.rs (cfg(kani) only).
#![allow(dead_code)]
use super::*;

// ---- lead: C16 read-chunking independence -------------------------------------------------------

/// Asset that delivers the same bytes as an in-memory cursor but in arbitrary short reads
/// (contract of `LoadableAsset::read`: 1..=buf.len() bytes, or 0 at end of file).
pub(crate) struct ChunkyAsset {
    pub data: [u8; 8],
    pub len: usize,
    pub pos: usize,
    pub calls: u32,
}

impl LoadableAsset for ChunkyAsset {
    fn read(&mut self, buf: &mut [u8]) -> Result<usize> {
        self.calls += 1;
        if self.pos >= self.len || buf.is_empty() {
            return Ok(0);
        }
        let avail = self.len - self.pos;
        let max = if buf.len() < avail { buf.len() } else { avail };
        let n: usize = kani::any();
        kani::assume(n >= 1 && n <= max);
        let mut i = 0;
        while i < n {
            buf[i] = self.data[self.pos + i];
            i += 1;
        }
        self.pos += n;
        Ok(n)
    }
}

// @harness
// @prop C16 C15
// @tier quick
// @timeout 900
// @fn LoadableAsset::read_exact (default method used by every loader); BufferCursor::read; BufferCursor::seek
// @sym file bytes (<= 8), file length, start offset, request length, the size of every short read the host asset chooses to return
// @assert read_exact delivers exactly the same bytes, the same success/failure and the same final position whether the asset is the in-memory cursor or an implementation that returns arbitrary short reads: Ok with the next n bytes when they exist, UnexpectedEof otherwise; never panics or loops forever
// @bound files and requests of at most 8 bytes (unwind 10)
#[kani::proof]
#[kani::unwind(10)]
fn c16_read_chunking_does_not_matter() {
    let data: [u8; 8] = kani::any();
    let len: usize = kani::any();
    let start: usize = kani::any();
    let n: usize = kani::any();
    kani::assume(len <= 8 && start <= len && n <= 8);
    let mut chunky = ChunkyAsset { data, len, pos: start, calls: 0 };
    let mut b1 = [0u8; 8];
    let r1 = chunky.read_exact(&mut b1[..n]);
    let mut cur = BufferCursor::new(crate::verif_hooks::VBuf { data: { let mut d = [0u8; 24]; let mut i = 0; while i < 8 { d[i] = data[i]; i += 1; } d }, len });
    let _ = cur.seek(SeekFrom::Start(start));
    let mut b2 = [0u8; 8];
    let r2 = cur.read_exact(&mut b2[..n]);
    let enough = start + n <= len;
    kani::assert(r1.is_ok() == enough, "c16.chunk.short_reads_succeed_iff_bytes_exist");
    // the in-memory cursor reports EOF as an error when asked at the very end; for n == 0 both succeed
    kani::assert(r2.is_ok() == enough || (n == 0), "c16.chunk.cursor_succeeds_iff_bytes_exist");
    if enough {
        let mut i = 0;
        while i < 8 {
            if i < n {
                kani::assert(b1[i] == data[start + i] && b2[i] == b1[i], "c16.chunk.same_bytes");
            }
            i += 1;
        }
        kani::assert(chunky.pos == start + n, "c16.chunk.same_position");
    }
    kani::assert(chunky.calls <= 9, "c16.chunk.terminates");
    kani::cover!(enough && n == 8 && chunky.calls == 8, "eight one-byte reads");
    kani::cover!(!enough && n > 0, "truncated");
}

// ---- snap-agent: C15 BufferCursor / read_exact / write_all ---------------------------------------
use crate::verif_hooks::VBuf;

fn any_vbuf() -> VBuf {
    let b = VBuf { data: kani::any(), len: kani::any() };
    kani::assume(b.len <= 24);
    b
}

fn any_seek() -> SeekFrom {
    let k: u8 = kani::any();
    kani::assume(k < 3);
    match k {
        0 => SeekFrom::Start(kani::any()),
        1 => SeekFrom::End(kani::any()),
        _ => SeekFrom::Current(kani::any()),
    }
}

/// offsets whose sum with the base exceeds isize::MAX (panicked with an overflow before fix 37f9366)
fn seek_overflows(len: usize, pos: usize, s: SeekFrom) -> bool {
    match s {
        SeekFrom::Start(_) => false,
        SeekFrom::End(d) => (len as isize).checked_add(d).is_none(),
        SeekFrom::Current(d) => (pos as isize).checked_add(d).is_none(),
    }
}

// @harness
// @prop C15
// @tier quick
// @timeout 600
// @fn BufferCursor::seek; BufferCursor::read
// @sym buffer contents and length 0..24; two seeks of any variant with any 64-bit offset; read buffer length 0..8
// @assert no panic / overflow; seek returns Ok(new position) exactly when the documented target (start / end / current + offset) is >= 0, else Err(SeekBeforeStart); read returns Err at or past the end, else Ok(n) with n = min(requested, remaining) and the bytes of the buffer at that position; the cursor advances by n
// @bound two seeks then one read
#[kani::proof]
#[kani::unwind(10)]
fn c15_io_buffer_cursor_seek_read() {
    let b = any_vbuf();
    let len = b.len;
    let mut c = BufferCursor::new(b);
    let s1 = any_seek();
    let r1 = c.seek(s1);
    let want1: i128 = match s1 {
        SeekFrom::Start(p) => p as i128,
        SeekFrom::End(d) => len as i128 + d as i128,
        SeekFrom::Current(d) => d as i128,
    };
    // Start(p) with p > isize::MAX cannot be represented by the cursor; it must not be accepted
    if want1 < 0 || want1 > isize::MAX as i128 {
        kani::assert(r1.is_err(), "c15.io.seek.unrepresentable_target_is_err");
    } else {
        kani::assert(matches!(r1, Ok(p) if p as i128 == want1), "c15.io.seek.position");
    }
    let pos1 = c.pos;
    let s2 = any_seek();
    let r2 = c.seek(s2);
    if let SeekFrom::Current(d) = s2 {
        let want2 = pos1 as i128 + d as i128;
        if want2 < 0 || want2 > isize::MAX as i128 {
            kani::assert(r2.is_err() && c.pos == pos1, "c15.io.seek.before_start_is_err");
        } else {
            kani::assert(matches!(r2, Ok(p) if p as i128 == want2), "c15.io.seek.current_relative");
        }
    }
    let pos = c.pos;
    let mut buf = [0u8; 8];
    let n: usize = kani::any();
    kani::assume(n <= 8);
    let rr = c.read(&mut buf[..n]);
    if pos >= len {
        kani::assert(rr.is_err() && c.pos == pos, "c15.io.read.at_end");
    } else {
        let want = n.min(len - pos);
        kani::assert(matches!(rr, Ok(k) if k == want), "c15.io.read.count");
        kani::assert(c.pos == pos + want, "c15.io.read.advances");
        let i: usize = kani::any();
        kani::assume(i < want);
        kani::assert(buf[i] == c.data.data[pos + i], "c15.io.read.bytes");
    }
    kani::cover!(pos == 20 && n == 8 && len == 24, "short read at the end");
    kani::cover!(r1.is_err(), "seek before start");
    kani::cover!(pos > len, "cursor beyond the end");
    kani::cover!(seek_overflows(len, 0, s1), "first offset beyond isize::MAX");
    kani::cover!(seek_overflows(len, pos1, s2) && pos1 > 0, "second offset beyond isize::MAX from a non-zero position");
}

// @harness
// @prop C15
// @tier quick
// @timeout 300
// @fn BufferCursor::seek
// @sym buffer, seek variant End/Current with an offset that overflows isize
// @assert seek returns Err (and leaves the position alone) for every offset whose target lies beyond isize::MAX, no overflow panic (was KF-C15-9)
// @bound one or two seeks
// @assume offset + length (or + position) exceeds isize::MAX (sub-region of c15_io_buffer_cursor_seek_read)
#[kani::proof]
#[kani::unwind(10)]
fn c15_io_seek_offset_overflow_is_err() {
    let b = any_vbuf();
    let len = b.len;
    let mut c = BufferCursor::new(b);
    let p: usize = kani::any();
    kani::assume(p <= isize::MAX as usize);
    let _ = c.seek(SeekFrom::Start(p));
    let before = c.pos;
    let s = any_seek();
    kani::assume(seek_overflows(len, c.pos, s));
    let r = c.seek(s);
    kani::assert(r.is_err() && c.pos == before, "c15.io.seek.overflow_is_err");
    kani::cover!(matches!(s, SeekFrom::Current(_)) && before == 1, "Current from position 1");
    kani::cover!(matches!(s, SeekFrom::End(_)) && len == 1, "End on a one-byte buffer");
}

/// asset honouring the documented contract and nothing more: each call returns Err, or Ok(n) with
/// n <= buf.len() (0 = end of data), chosen by the solver; fills the delivered bytes with `fill`
struct ContractAsset {
    calls: u8,
    delivered: usize,
    fill: u8,
}

impl LoadableAsset for ContractAsset {
    fn read(&mut self, buf: &mut [u8]) -> core::result::Result<usize, IoError> {
        self.calls += 1;
        if kani::any() {
            return Err(IoError::HostAssetImplFailed);
        }
        let n: usize = kani::any();
        kani::assume(n <= buf.len());
        let mut i = 0;
        while i < n {
            buf[i] = self.fill;
            i += 1;
        }
        self.delivered += n;
        Ok(n)
    }
}

// @harness
// @prop C15
// @tier quick
// @timeout 600
// @fn LoadableAsset::read_exact (default method)
// @sym destination length 0..6; per call the asset returns Err, Ok(0) or any Ok(n <= requested)
// @assert read_exact terminates (at most len+1 calls), never indexes out of range, returns Ok only if the whole buffer was filled, returns Err(UnexpectedEof) on a premature Ok(0) and passes an asset Err through
// @bound buffers up to 6 bytes (the loop only depends on the remaining length)
#[kani::proof]
#[kani::unwind(9)]
fn c15_io_read_exact_contract() {
    let mut a = ContractAsset { calls: 0, delivered: 0, fill: 0xA5 };
    let mut buf = [0u8; 6];
    let len: usize = kani::any();
    kani::assume(len <= 6);
    let r = a.read_exact(&mut buf[..len]);
    kani::assert(a.calls as usize <= len + 1, "c15.io.read_exact.bounded_calls");
    kani::assert(a.delivered <= len, "c15.io.read_exact.never_over_delivers");
    if r.is_ok() {
        kani::assert(a.delivered == len, "c15.io.read_exact.ok_means_filled");
        let i: usize = kani::any();
        kani::assume(i < len);
        kani::assert(buf[i] == 0xA5, "c15.io.read_exact.filled_bytes");
    } else if a.delivered == len {
        // all bytes arrived yet Err: only possible when the asset itself reported an error
        kani::assert(matches!(r, Err(IoError::HostAssetImplFailed)), "c15.io.read_exact.err_only_from_asset");
    }
    kani::cover!(r.is_ok() && a.calls == 6 && len == 6, "six one-byte reads");
    kani::cover!(matches!(r, Err(IoError::UnexpectedEof)) && a.delivered == 3, "premature end after three bytes");
}

struct ContractRecorder {
    calls: u8,
    accepted: usize,
}

impl DataRecorder for ContractRecorder {
    fn write(&mut self, buf: &[u8]) -> core::result::Result<usize, IoError> {
        self.calls += 1;
        if kani::any() {
            return Err(IoError::HostAssetImplFailed);
        }
        let n: usize = kani::any();
        kani::assume(n <= buf.len());
        self.accepted += n;
        Ok(n)
    }
}

// @harness
// @prop C15
// @tier quick
// @timeout 600
// @fn DataRecorder::write_all (default method)
// @sym source length 0..6; per call the recorder returns Err, Ok(0) or any Ok(n <= offered)
// @assert write_all terminates (at most len calls), returns Ok exactly when every byte was accepted, Err(WriteZero) when the sink refuses, and passes a recorder Err through
// @bound buffers up to 6 bytes
#[kani::proof]
#[kani::unwind(9)]
fn c15_io_write_all_contract() {
    let mut r = ContractRecorder { calls: 0, accepted: 0 };
    let buf = [0u8; 6];
    let len: usize = kani::any();
    kani::assume(len <= 6);
    let res = r.write_all(&buf[..len]);
    kani::assert(r.calls as usize <= len.max(1), "c15.io.write_all.bounded_calls");
    kani::assert(res.is_ok() == (r.accepted == len) || res.is_err(), "c15.io.write_all.ok_means_all_accepted");
    if res.is_ok() {
        kani::assert(r.accepted == len, "c15.io.write_all.ok_means_all_accepted_2");
    }
    kani::cover!(res.is_ok() && r.calls == 6, "six one-byte writes");
    kani::cover!(matches!(res, Err(IoError::WriteZero)), "sink full");
}
