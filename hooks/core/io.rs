//! Kani harnesses compiled as a child module of rustzx-core/src/host/io.rs (cfg(kani) only).
#![allow(dead_code)]
use super::*;

// ---- lead: C16 read-chunking independence -------------------------------------------------------

/// Asset that delivers the same bytes as an in-memory cursor but in arbitrary short reads
/// (contract of `LoadableAsset::read`: 1..=buf.len() bytes, or 0 at end of file).
pub(crate) struct ChunkyAsset {
    pub data: [u8; 8],
    pub len: usize,
    pub pos: usize,
    pub calls: u32,
}

impl LoadableAsset for ChunkyAsset {
    fn read(&mut self, buf: &mut [u8]) -> Result<usize> {
        self.calls += 1;
        if self.pos >= self.len || buf.is_empty() {
            return Ok(0);
        }
        let avail = self.len - self.pos;
        let max = if buf.len() < avail { buf.len() } else { avail };
        let n: usize = kani::any();
        kani::assume(n >= 1 && n <= max);
        let mut i = 0;
        while i < n {
            buf[i] = self.data[self.pos + i];
            i += 1;
        }
        self.pos += n;
        Ok(n)
    }
}

// @harness
// @prop C16 C15
// @tier quick
// @timeout 900
// @fn LoadableAsset::read_exact (default method used by every loader); BufferCursor::read; BufferCursor::seek
// @sym file bytes (<= 8), file length, start offset, request length, the size of every short read the host asset chooses to return
// @assert read_exact delivers exactly the same bytes, the same success/failure and the same final position whether the asset is the in-memory cursor or an implementation that returns arbitrary short reads: Ok with the next n bytes when they exist, UnexpectedEof otherwise; never panics or loops forever
// @bound files and requests of at most 8 bytes (unwind 10)
#[kani::proof]
#[kani::unwind(10)]
fn c16_read_chunking_does_not_matter() {
    let data: [u8; 8] = kani::any();
    let len: usize = kani::any();
    let start: usize = kani::any();
    let n: usize = kani::any();
    kani::assume(len <= 8 && start <= len && n <= 8);
    let mut chunky = ChunkyAsset { data, len, pos: start, calls: 0 };
    let mut b1 = [0u8; 8];
    let r1 = chunky.read_exact(&mut b1[..n]);
    let mut cur = BufferCursor::new(crate::verif_hooks::VBuf { data: { let mut d = [0u8; 24]; let mut i = 0; while i < 8 { d[i] = data[i]; i += 1; } d }, len });
    let _ = cur.seek(SeekFrom::Start(start));
    let mut b2 = [0u8; 8];
    let r2 = cur.read_exact(&mut b2[..n]);
    let enough = start + n <= len;
    kani::assert(r1.is_ok() == enough, "c16.chunk.short_reads_succeed_iff_bytes_exist");
    // the in-memory cursor reports EOF as an error when asked at the very end; for n == 0 both succeed
    kani::assert(r2.is_ok() == enough || (n == 0), "c16.chunk.cursor_succeeds_iff_bytes_exist");
    if enough {
        let mut i = 0;
        while i < 8 {
            if i < n {
                kani::assert(b1[i] == data[start + i] && b2[i] == b1[i], "c16.chunk.same_bytes");
            }
            i += 1;
        }
        kani::assert(chunky.pos == start + n, "c16.chunk.same_position");
    }
    kani::assert(chunky.calls <= 9, "c16.chunk.terminates");
    kani::cover!(enough && n == 8 && chunky.calls == 8, "eight one-byte reads");
    kani::cover!(!enough && n > 0, "truncated");
}
