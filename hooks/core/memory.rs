//! Kani harnesses compiled as a child module of rustzx-core/src/zx/memory.rs (cfg(kani) only).
