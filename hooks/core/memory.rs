//! Kani-only child module of rustzx-core/src/zx/memory.rs (cfg(kani)).
#![allow(dead_code)]
use super::*;

/// Replacement for `ZXMemory::ram_page_data` in loop-cutting harnesses: the first 4 bytes of the page.
pub(crate) fn ram_page_head<'a>(m: &'a ZXMemory, page: u8) -> &'a [u8] {
    if (page as usize + 1) * PAGE_SIZE > m.ram.len() {
        panic!("no such RAM page");
    }
    let shift = page as usize * PAGE_SIZE;
    &m.ram[shift..shift + 4]
}

pub(crate) fn ram_len(m: &ZXMemory) -> usize {
    m.ram.len()
}
