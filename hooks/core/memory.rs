//! Kani-only child module of rustzx-core/src/zx/memory.rs (cfg(kani)).
#![allow(dead_code)]
use super::*;

/// Head (first 4 bytes) of each of the 8 RAM pages as the loop-cutting stub serves them.
pub(crate) static mut PAGE_HEADS: [[u8; 4]; 8] = [[0; 4]; 8];

/// Replacement for `ZXMemory::ram_page_data` in loop-cutting harnesses: a 4-byte page head.
pub(crate) fn ram_page_head(m: &ZXMemory, page: u8) -> &[u8] {
    kani::assert((page as usize + 1) * PAGE_SIZE <= m.ram.len(), "c08.refresh.page_exists");
    unsafe { &PAGE_HEADS[(page & 7) as usize] }
}

pub(crate) fn ram_len(m: &ZXMemory) -> usize {
    m.ram.len()
}

// ---- snap-agent helpers ---------------------------------------------------------------------
// Page-size abstraction for the SZX RAMP harnesses (hooks/core/szx.rs): two 16 KiB copies through
// the chunk buffer exhaust CBMC (> 10 GB), so `ram_page_data_mut` is replaced by a version that
// performs the same existence check and returns only the first `SHORT_PAGE` bytes of the page.
pub(crate) const SHORT_PAGE: usize = 8;

pub(crate) fn short_ram_page_data_mut(m: &mut super::ZXMemory, page: u8) -> &mut [u8] {
    if (page as usize + 1) * super::PAGE_SIZE > m.ram.len() {
        panic!("[ERROR] Ram page does not exists!");
    }
    let shift = page as usize * super::PAGE_SIZE;
    &mut m.ram[shift..shift + SHORT_PAGE]
}
// ---- end snap-agent helpers -----------------------------------------------------------------
