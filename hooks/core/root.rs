//! Kani-only support code compiled as `crate::verif_hooks` of rustzx-core (cfg(kani)).
//! Harness-side implementations of the host traits.  Every return value a host
//! may choose freely is symbolic; nothing here is code under test.
#![allow(dead_code)]

use crate::{
    host::{
        BufferCursor, DebugInterface, FrameBuffer, FrameBufferSource, Host, HostContext,
        IoExtender, Stopwatch,
    },
    zx::video::colors::{ZXBrightness, ZXColor},
};
use core::time::Duration;

/// Frame buffer context: the witness pixel this query is about.
#[derive(Clone, Copy)]
pub struct FbCtx {
    pub wx: usize,
    pub wy: usize,
}

/// Frame buffer that remembers only what was drawn at the witness pixel.
pub struct WitFb {
    pub w: usize,
    pub h: usize,
    pub is_border: bool,
    pub wx: usize,
    pub wy: usize,
    pub hits: u32,
    pub color: u8,
    pub bright: u8,
    pub oob: bool,
}

impl FrameBuffer for WitFb {
    type Context = FbCtx;

    fn new(width: usize, height: usize, source: FrameBufferSource, context: FbCtx) -> Self {
        WitFb {
            w: width,
            h: height,
            is_border: matches!(source, FrameBufferSource::Border),
            wx: context.wx,
            wy: context.wy,
            hits: 0,
            color: 0xFF,
            bright: 0xFF,
            oob: false,
        }
    }

    fn set_color(&mut self, x: usize, y: usize, color: ZXColor, brightness: ZXBrightness) {
        if x >= self.w || y >= self.h {
            self.oob = true;
        }
        if x == self.wx && y == self.wy {
            self.hits += 1;
            self.color = color.into();
            self.bright = brightness as u8;
        }
    }
}

/// Byte buffer of at most 24 bytes with an explicit length (tapes, small files).
#[derive(Clone, Copy)]
pub struct VBuf {
    pub data: [u8; 24],
    pub len: usize,
}

impl AsRef<[u8]> for VBuf {
    fn as_ref(&self) -> &[u8] {
        &self.data[..self.len]
    }
}

/// Stopwatch whose readings are arbitrary (even non-monotonic).
pub struct VStopwatch;

impl Stopwatch for VStopwatch {
    fn new() -> Self {
        VStopwatch
    }

    fn measure(&self) -> Duration {
        let ms: u16 = kani::any();
        Duration::from_millis(ms as u64)
    }
}

/// I/O extender claiming the ports with `(port & mask) == val`; logs what it receives.
pub struct VExt {
    pub mask: u16,
    pub val: u16,
    pub answer: u8,
    pub reads: u8,
    pub writes: u8,
    pub last_port: u16,
    pub last_data: u8,
}

impl IoExtender for VExt {
    fn write(&mut self, port: u16, data: u8) {
        self.writes = self.writes.wrapping_add(1);
        self.last_port = port;
        self.last_data = data;
    }

    fn read(&mut self, port: u16) -> u8 {
        self.reads = self.reads.wrapping_add(1);
        self.last_port = port;
        self.answer
    }

    fn extends_port(&self, port: u16) -> bool {
        (port & self.mask) == self.val
    }
}

/// Debug interface with one breakpoint address.
pub struct VDbg {
    pub bp: u16,
    pub enabled: bool,
}

impl DebugInterface for VDbg {
    fn check_pc_breakpoint(&mut self, addr: u16) -> bool {
        self.enabled && addr == self.bp
    }
}

pub struct VHost;

impl HostContext<VHost> for FbCtx {
    fn frame_buffer_context(&self) -> FbCtx {
        *self
    }
}

impl Host for VHost {
    type Context = FbCtx;
    type DebugInterface = VDbg;
    type EmulationStopwatch = VStopwatch;
    type FrameBuffer = WitFb;
    type IoExtender = VExt;
    type TapeAsset = BufferCursor<VBuf>;
}

pub fn any_color() -> ZXColor {
    let c: u8 = kani::any();
    kani::assume(c <= 7);
    ZXColor::from_bits(c)
}
