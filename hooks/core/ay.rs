//! Kani harnesses compiled as a child module of rustzx-core/src/zx/sound/ay.rs (cfg(kani) only).
