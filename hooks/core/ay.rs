//! Kani harnesses compiled as a child module of rustzx-core/src/zx/sound/ay.rs (cfg(kani), feature ay).
//! Properties C18 (port read-back, register numbers modulo 16) and C07 (AY port decoding).
#![allow(dead_code)]
use super::*;
use crate::verif_hooks::FbCtx;
use crate::zx::controller::verif_hooks as ch;
use crate::zx::sound::mixer::verif_hooks as mh;
use rustzx_z80::Z80Bus;

fn sqrt_identity(x: f64) -> f64 {
    x
}

static mut GEN_LOG: [(u8, u8); 4] = [(0xFF, 0xFF); 4];
static mut GEN_LOG_LEN: usize = 0;

/// replacement for the sound generator's register write: records what reaches the generator
fn logging_write_register(_ay: &mut AymPrecise, address: u8, value: u8) {
    unsafe {
        if GEN_LOG_LEN < 4 {
            GEN_LOG[GEN_LOG_LEN] = (address, value);
        }
        GEN_LOG_LEN += 1;
    }
}

// ---- (a) the chip glue alone --------------------------------------------------------------------

// @harness
// @prop C18
// @tier quick
// @features sound,ay
// @timeout 900
// @fn ZXAyChip::new; ZXAyChip::select_reg; ZXAyChip::write; ZXAyChip::read
// @sym three (register number, value) writes and a final register selection, all bytes arbitrary
// @assert reading back returns the value last written to the selected register, register numbers taken modulo 16 (never-written registers read 0); every write reaches the sound generator as (register number mod 16, value), in order
// @bound 3 register writes + 1 read-back
// @stub libm::sqrt -> identity (unsupported SIMD intrinsic); <AymPrecise as AymBackend>::write_register -> logger (generator decode is c18_register_decode in the aym crate)
// @replay solver-only
#[kani::proof]
#[kani::unwind(17)]
#[kani::stub(libm::sqrt, sqrt_identity)]
#[kani::stub(<aym::AymPrecise as aym::AymBackend>::write_register, logging_write_register)]
fn c18_ay_chip_readback() {
    let mut chip = ZXAyChip::new(44100, ZXAYMode::ABC);
    unsafe {
        GEN_LOG_LEN = 0;
    }
    let mut model = [0u8; 16];
    let mut sent = [(0u8, 0u8); 3];
    let mut i = 0;
    while i < 3 {
        let (reg, val): (u8, u8) = (kani::any(), kani::any());
        chip.select_reg(reg);
        chip.write(val);
        model[(reg & 15) as usize] = val;
        sent[i] = (reg & 15, val);
        i += 1;
    }
    let r: u8 = kani::any();
    chip.select_reg(r);
    kani::assert(chip.read() == model[(r & 15) as usize], "c18.ports.readback_is_last_value_written_mod_16");
    unsafe {
        kani::assert(GEN_LOG_LEN == 3, "c18.ports.every_data_write_reaches_generator");
        kani::assert(GEN_LOG[0] == sent[0] && GEN_LOG[1] == sent[1] && GEN_LOG[2] == sent[2], "c18.ports.generator_gets_register_and_value");
    }
    kani::cover!(r & 0xF0 != 0 && chip.read() != 0, "register number wraps modulo 16");
    kani::cover!(sent[0].0 == sent[2].0 && sent[0].1 != sent[2].1 && r & 15 == sent[0].0, "overwritten register");
    kani::cover!(sent[1].0 == 14, "I/O port register");
}

// ---- (b) the controller's decoding of the AY ports ----------------------------------------------

static mut CHIP_CALLS: [(u8, u8); 4] = [(0, 0); 4]; // (1 = select, 2 = write, 3 = read; argument)
static mut CHIP_NCALLS: usize = 0;
static mut CHIP_READ_ANSWER: u8 = 0;

fn chip_call(kind: u8, arg: u8) {
    unsafe {
        if CHIP_NCALLS < 4 {
            CHIP_CALLS[CHIP_NCALLS] = (kind, arg);
        }
        CHIP_NCALLS += 1;
    }
}
fn rec_select(_c: &mut ZXAyChip, reg: u8) {
    chip_call(1, reg)
}
fn rec_write(_c: &mut ZXAyChip, data: u8) {
    chip_call(2, data)
}
fn rec_read(_c: &ZXAyChip) -> u8 {
    chip_call(3, 0);
    unsafe { CHIP_READ_ANSWER }
}

// @harness
// @prop C07 C18 C16
// @tier quick
// @features sound,ay
// @timeout 1200
// @fn ZXController::write_io (AY select and data arms); ZXController::read_io (AY arm); select_ay_reg; write_ay_port; read_ay_port
// @sym machine, 16-bit port (all 65536), data, the byte the chip would answer, AY sound generation switched on or off (ZXMixer::use_ay); no joystick/mouse/extender; frame time fixed
// @assert an OUT to a port with A15=A14=1, A1=0 (and A0=1, so the ULA is not selected too) reaches the AY register-select and nothing else; A15=1, A14=0, A1=0 reaches the AY data write and nothing else; any other odd port reaches neither; an IN from the select/read-back address returns the chip's answer and from the data address does not; AY cycles never touch border or paging latch
// @assume odd ports only (even ports select the ULA as well: two devices)
// @bound one port write + one port read
// @stub ZXAyChip::select_reg / write / read -> call recorders (the chip glue is c18_ay_chip_readback); libm::sqrt -> identity; ZXMixer::process, ZXMixer::new_frame, ZXScreen::process_clocks -> no-op
// @replay solver-only
#[kani::proof]
#[kani::unwind(12)]
#[kani::stub(libm::sqrt, sqrt_identity)]
#[kani::stub(ZXAyChip::select_reg, rec_select)]
#[kani::stub(ZXAyChip::write, rec_write)]
#[kani::stub(ZXAyChip::read, rec_read)]
#[kani::stub(crate::zx::sound::mixer::ZXMixer::process, mh::noop_process)]
#[kani::stub(crate::zx::sound::mixer::ZXMixer::new_frame, mh::noop_new_frame)]
#[kani::stub(crate::zx::video::screen::ZXScreen::process_clocks, ch::noop_screen_clocks)]
fn c07_ay_port_decode() {
    if kani::any() {
        ay_decode_case(crate::zx::machine::ZXMachine::Sinclair48K);
    } else {
        ay_decode_case(crate::zx::machine::ZXMachine::Sinclair128K);
    }
}

fn ay_decode_case(m: crate::zx::machine::ZXMachine) {
    let mut c = ch::mk_controller(m, FbCtx { wx: 0, wy: 0 }, false, false);
    c.frame_clocks = 1000;
    // whether the host has AY sound generation switched on is host-side state: the register file the CPU
    // talks to must not depend on it (C16: the result does not depend on whether sound generation is enabled)
    let ay_sound_on: bool = kani::any();
    c.mixer.use_ay = ay_sound_on;
    unsafe {
        CHIP_NCALLS = 0;
        CHIP_READ_ANSWER = kani::any();
    }
    let port: u16 = kani::any();
    kani::assume(port & 1 == 1);
    let data: u8 = kani::any();
    let is_sel = port & 0xC002 == 0xC000;
    let is_data = port & 0xC002 == 0x8000;
    c.write_io(port, data);
    unsafe {
        if is_sel {
            kani::assert(CHIP_NCALLS == 1 && CHIP_CALLS[0] == (1, data), "c07.ay.select_port_reaches_register_select");
        } else if is_data {
            kani::assert(CHIP_NCALLS == 1 && CHIP_CALLS[0] == (2, data), "c07.ay.data_port_reaches_data_write");
        } else {
            kani::assert(CHIP_NCALLS == 0, "c07.ay.other_ports_do_not_reach_the_chip");
        }
        CHIP_NCALLS = 0;
    }
    if is_sel || is_data {
        kani::assert(u8::from(c.border_color) == 0, "c07.ay.border_untouched");
        kani::assert(c.read_7ffd() == 0, "c07.ay.latch_untouched");
    }
    let rport: u16 = kani::any();
    kani::assume(rport & 1 == 1);
    let got = c.read_io(rport);
    unsafe {
        if rport & 0xC002 == 0xC000 {
            kani::assert(CHIP_NCALLS == 1 && CHIP_CALLS[0].0 == 3 && got == CHIP_READ_ANSWER, "c07.ay.readback_port_returns_chip_answer");
        } else {
            kani::assert(CHIP_NCALLS == 0, "c07.ay.other_reads_do_not_reach_the_chip");
        }
    }
    kani::cover!(is_sel && port != 0xFFFD, "select through a partial-decode alias");
    kani::cover!(is_data && !ay_sound_on, "data write with AY sound generation switched off");
    kani::cover!(is_data && port != 0xBFFD, "data write through a partial-decode alias");
    kani::cover!(!is_sel && !is_data && port & 0x8000 != 0, "A1 set: not an AY port");
}
