//! Kani harnesses compiled as a child module of rustzx-core/src/zx/sound/ay.rs (cfg(kani), feature ay).
//! Properties C18 (port read-back, register numbers modulo 16) and C07 (AY port decoding).
#![allow(dead_code)]
use super::*;
use crate::verif_hooks::FbCtx;
use crate::zx::controller::verif_hooks as ch;
use crate::zx::sound::mixer::verif_hooks as mh;
use rustzx_z80::Z80Bus;

fn sqrt_identity(x: f64) -> f64 {
    x
}

static mut GEN_LOG: [(u8, u8); 4] = [(0xFF, 0xFF); 4];
static mut GEN_LOG_LEN: usize = 0;

/// replacement for the sound generator's register write: records what reaches the generator
fn logging_write_register(_ay: &mut AymPrecise, address: u8, value: u8) {
    unsafe {
        if GEN_LOG_LEN < 4 {
            GEN_LOG[GEN_LOG_LEN] = (address, value);
        }
        GEN_LOG_LEN += 1;
    }
}

fn any_port(a15: bool, a14: bool) -> u16 {
    let p: u16 = kani::any();
    // A1 = 0, odd (not the ULA), A15/A14 as requested
    kani::assume(p & 0x0002 == 0 && p & 1 == 1 && (p & 0x8000 != 0) == a15 && (p & 0x4000 != 0) == a14);
    p
}

// @harness
// @prop C18 C07
// @tier quick
// @features sound,ay
// @timeout 1500
// @fn ZXController::write_io (AY select and data arms); ZXController::read_io (AY arm); select_ay_reg; write_ay_port; read_ay_port; ZXAyChip::select_reg; ZXAyChip::write; ZXAyChip::read; ZXAyChip::new
// @sym machine, three (register number, value) writes and a final register selection, all through fully symbolic port addresses of the decode classes A15=A14=1,A1=0 (select/read-back) and A15=1,A14=0,A1=0 (data); frame time fixed (1000)
// @assert reading the AY data port returns the value last written to the selected register, register numbers taken modulo 16 (never-written registers read 0); every data write reaches the sound generator as (register number mod 16, value) in order; AY port cycles never touch the border colour or the paging latch
// @bound 3 register writes + 1 read-back
// @stub libm::sqrt -> identity (unsupported SIMD intrinsic); <AymPrecise as AymBackend>::write_register -> logger (generator decode is c18_register_decode in the aym crate); ZXMixer::process -> no-op; ZXMixer::new_frame -> no-op; ZXScreen::process_clocks -> no-op
// @replay solver-only
#[kani::proof]
#[kani::unwind(17)]
#[kani::stub(libm::sqrt, sqrt_identity)]
#[kani::stub(<aym::AymPrecise as aym::AymBackend>::write_register, logging_write_register)]
#[kani::stub(crate::zx::sound::mixer::ZXMixer::process, mh::noop_process)]
#[kani::stub(crate::zx::sound::mixer::ZXMixer::new_frame, mh::noop_new_frame)]
#[kani::stub(crate::zx::video::screen::ZXScreen::process_clocks, ch::noop_screen_clocks)]
fn c18_ay_port_readback() {
    let m = crate::emulator::verif_hooks::any_machine();
    let mut c = ch::mk_controller(m, FbCtx { wx: 0, wy: 0 }, false, false);
    // port timing is C04's subject: start at a literal frame time so that no frame end can fall into
    // the eight port cycles (every frame end would drag the video/audio frame switch into the query)
    c.frame_clocks = 1000;
    unsafe {
        GEN_LOG_LEN = 0;
    }
    let mut model = [0u8; 16];
    let mut i = 0;
    let mut sent = [(0u8, 0u8); 3];
    while i < 3 {
        let (reg, val): (u8, u8) = (kani::any(), kani::any());
        c.write_io(any_port(true, true), reg);
        c.write_io(any_port(true, false), val);
        model[(reg & 15) as usize] = val;
        sent[i] = (reg & 15, val);
        i += 1;
    }
    let r: u8 = kani::any();
    c.write_io(any_port(true, true), r);
    let got = c.read_io(any_port(true, true));
    kani::assert(got == model[(r & 15) as usize], "c18.ports.readback_is_last_value_written_mod_16");
    unsafe {
        kani::assert(GEN_LOG_LEN == 3, "c18.ports.every_data_write_reaches_generator");
        kani::assert(GEN_LOG[0] == sent[0] && GEN_LOG[1] == sent[1] && GEN_LOG[2] == sent[2], "c18.ports.generator_gets_register_and_value");
    }
    kani::assert(u8::from(c.border_color) == 0, "c07.ay.border_untouched");
    if m == crate::zx::machine::ZXMachine::Sinclair128K {
        kani::assert(c.read_7ffd() == 0, "c07.ay.latch_untouched");
    }
    kani::cover!(r & 0xF0 != 0 && got != 0, "register number wraps modulo 16");
    kani::cover!(sent[0].0 == sent[2].0 && sent[0].1 != sent[2].1 && r & 15 == sent[0].0, "overwritten register");
    kani::cover!(sent[1].0 == 14, "I/O port register");
}
