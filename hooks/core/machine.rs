//! Kani harnesses compiled as a child module of rustzx-core/src/zx/machine/mod.rs (cfg(kani) only).
