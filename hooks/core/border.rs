//! Kani harnesses compiled as a child module of rustzx-core/src/zx/video/border.rs (cfg(kani) only).
//! Property C09: border pixels show the colour written before the beam got there.
use super::*;
use crate::verif_hooks::{any_color, FbCtx, WitFb};

// ---- specification (from the property statement) ---------------------------------------------
// 2 pixels per T-state; 224/228 T per line; first picture pixel at T 14336/14362, which is buffer
// pixel (32, 24) of the 320x240 border canvas.  A scan line is 448/456 pixel-times long, of which
// the first 320 are visible in the buffer.
const TOL: isize = 16;

fn spec_line_t(m: ZXMachine) -> usize {
    match m {
        ZXMachine::Sinclair48K => 224,
        ZXMachine::Sinclair128K => 228,
    }
}
fn spec_first_pixel_t(m: ZXMachine) -> usize {
    match m {
        ZXMachine::Sinclair48K => 14336,
        ZXMachine::Sinclair128K => 14362,
    }
}
fn spec_frame_t(m: ZXMachine) -> usize {
    match m {
        ZXMachine::Sinclair48K => 69888,
        ZXMachine::Sinclair128K => 70908,
    }
}
/// beam position at time `t`, in pixel-times counted from buffer pixel (0,0); may be negative
fn spec_beam(m: ZXMachine, t: usize) -> isize {
    let origin = spec_first_pixel_t(m) as isize - 24 * spec_line_t(m) as isize - 16;
    2 * (t as isize - origin)
}
/// pixel-time at which the beam reaches buffer pixel (x, y)
fn spec_pixel_time(m: ZXMachine, x: usize, y: usize) -> isize {
    (y * 2 * spec_line_t(m) + x) as isize
}

/// colour the device paints from its recorded beam position onwards
pub(crate) fn device_colour<FB: FrameBuffer>(b: &ZXBorder<FB>) -> u8 {
    b.beam_last.color.into()
}

fn any_machine() -> ZXMachine {
    if kani::any() {
        ZXMachine::Sinclair48K
    } else {
        ZXMachine::Sinclair128K
    }
}

fn witness() -> FbCtx {
    let wx: usize = kani::any();
    let wy: usize = kani::any();
    kani::assume(wx < SCREEN_WIDTH && wy < SCREEN_HEIGHT);
    FbCtx { wx, wy }
}

/// raster order of a returned position (frame end = after everything)
fn raster(line: usize, pixel: usize, end: bool) -> usize {
    if end {
        SCREEN_WIDTH * SCREEN_HEIGHT
    } else {
        line * SCREEN_WIDTH + pixel
    }
}

// @harness
// @prop C09
// @tier quick
// @features precise-border
// @timeout 300
// @fn ZXBorder::next_border_pixel; ZXMachine::specs; ZXSpecsBuilder::build
// @sym machine, frame T-state in [0, frame), witness pixel (x<320, y<240)
// @assert every visible pixel the beam passed more than 16 px ago is before the returned fill position, every pixel more than 16 px ahead is not; returned position inside the buffer; monotone in T
// @bound single call; all T of the frame, both machines; no loops
#[kani::proof]
fn c09_beam_position() {
    let m = any_machine();
    let b = ZXBorder::<WitFb>::new(m, FbCtx { wx: 0, wy: 0 });
    let w = witness();
    let t: usize = kani::any();
    kani::assume(t < spec_frame_t(m));
    let (line, pixel, end) = b.next_border_pixel(t);
    kani::assert(end || (line < SCREEN_HEIGHT && pixel <= SCREEN_WIDTH), "c09.beam.in_buffer");
    let r = raster(line, pixel, end);
    let wr = w.wy * SCREEN_WIDTH + w.wx;
    let beam = spec_beam(m, t);
    let wt = spec_pixel_time(m, w.wx, w.wy);
    if wt < beam - TOL {
        kani::assert(wr < r, "c09.beam.passed_pixel_is_filled");
    }
    if wt >= beam + TOL {
        kani::assert(wr >= r, "c09.beam.future_pixel_not_filled");
    }
    // monotone
    let t2: usize = kani::any();
    kani::assume(t2 >= t && t2 < spec_frame_t(m));
    let (l2, p2, e2) = b.next_border_pixel(t2);
    kani::assert(raster(l2, p2, e2) >= r, "c09.beam.monotone");
    kani::cover!(end, "frame end reachable");
    kani::cover!(!end && line == 100 && pixel == 200, "mid frame reachable");
    kani::cover!(wt < beam - TOL && !end, "passed pixel case");
    kani::cover!(wt >= beam + TOL && t > 20000, "future pixel case");
}

// @harness
// @prop C09
// @tier quick
// @features precise-border
// @timeout 600
// @fn ZXBorder::fill_to
// @sym start position, end position (distance <= 8 px), colour, witness pixel
// @assert the real fill loop paints exactly the raster range [from, to) once with the colour held before the call, never outside the buffer
// @bound ranges of at most 8 pixels (unwind 10); longer ranges only through the range summary used by c09_frame_protocol
#[kani::proof]
#[kani::unwind(10)]
fn c09_fill_range() {
    let w = witness();
    let mut b = ZXBorder::<WitFb>::new(ZXMachine::Sinclair48K, w);
    let (l0, p0): (usize, usize) = (kani::any(), kani::any());
    let (l1, p1): (usize, usize) = (kani::any(), kani::any());
    kani::assume(l0 < SCREEN_HEIGHT && p0 <= SCREEN_WIDTH && l1 < SCREEN_HEIGHT && p1 <= SCREEN_WIDTH);
    let from = l0 * SCREEN_WIDTH + p0;
    let to = l1 * SCREEN_WIDTH + p1;
    kani::assume(to <= from + 8);
    let c = any_color();
    b.beam_last = BeamInfo::new(l0, p0, c);
    b.fill_to(l1, p1);
    let wr = w.wy * SCREEN_WIDTH + w.wx;
    let inside = from <= wr && wr < to;
    kani::assert(!b.buffer.oob, "c09.fill.in_buffer");
    kani::assert(b.buffer.hits == if inside { 1 } else { 0 }, "c09.fill.exactly_range");
    if inside {
        kani::assert(b.buffer.color == u8::from(c), "c09.fill.colour");
        kani::assert(b.buffer.bright == 0, "c09.fill.normal_brightness");
    }
    kani::cover!(inside && to == from + 8, "full-length range with witness inside");
    kani::cover!(to < from, "empty (reversed) range");
}

// ---- frame protocol with the fill loop summarised ---------------------------------------------
// `fill_to` is replaced by its range summary (justified by c09_fill_range): the witness pixel is
// hit iff it lies in [beam_last, target).
static mut W_RASTER: usize = 0;
static mut W_HITS: u32 = 0;
static mut W_COLOR: u8 = 0xFF;
static mut W_BAD_RANGE: bool = false;

pub(crate) fn fill_to_summary<FB: FrameBuffer>(this: &mut ZXBorder<FB>, line: usize, pixel: usize) {
    let from = this.beam_last.line * SCREEN_WIDTH + this.beam_last.pixel;
    let to = line * SCREEN_WIDTH + pixel;
    unsafe {
        if to > SCREEN_WIDTH * SCREEN_HEIGHT {
            W_BAD_RANGE = true;
        }
        if from <= W_RASTER && W_RASTER < to {
            W_HITS += 1;
            W_COLOR = this.beam_last.color.into();
        }
    }
}

// @harness
// @prop C09
// @tier quick
// @features precise-border
// @timeout 600
// @fn ZXBorder::set_border; ZXBorder::new_frame; ZXBorder::next_border_pixel
// @sym machine, colour at frame start, border_changed flag at frame start, number of writes 0..3, their T-states (non-decreasing, < frame) and colours, witness pixel
// @assert one frame from the frame-start invariant: every pixel is painted exactly once; a pixel further than 16 px from every write shows the colour of the latest write before the beam reached it (or the frame-start colour); the frame-start invariant is re-established with the last colour (inductive over frames)
// @bound at most 3 border writes per frame; any number of frames by induction on the frame-start invariant
// @stub ZXBorder::fill_to -> range summary on the witness pixel (justified by c09_fill_range)
// @replay solver-only
#[kani::proof]
#[kani::stub(ZXBorder::fill_to, fill_to_summary)]
fn c09_frame_protocol() {
    let m = any_machine();
    let w = witness();
    let mut b = ZXBorder::<WitFb>::new(m, w);
    let c0 = any_color();
    // frame-start invariant (state after new(), and after every new_frame())
    b.beam_last = BeamInfo::new(0, 0, c0);
    b.border_changed = kani::any();
    b.beam_block = false;
    unsafe {
        W_RASTER = w.wy * SCREEN_WIDTH + w.wx;
        W_HITS = 0;
        W_COLOR = 0xFF;
        W_BAD_RANGE = false;
    }
    let n: u8 = kani::any();
    kani::assume(n <= 3);
    let wt = spec_pixel_time(m, w.wx, w.wy);
    let mut expect: u8 = c0.into();
    let mut clear = true; // witness further than TOL from every write
    let mut last: u8 = c0.into();
    let mut tprev = 0usize;
    let mut i = 0u8;
    while i < 3 {
        if i < n {
            let t: usize = kani::any();
            kani::assume(t >= tprev && t < spec_frame_t(m));
            tprev = t;
            let c = any_color();
            b.set_border(t, c);
            let beam = spec_beam(m, t);
            if wt >= beam + TOL {
                expect = c.into();
            } else if wt >= beam - TOL {
                clear = false;
            }
            last = c.into();
        }
        i += 1;
    }
    b.new_frame();
    unsafe {
        kani::assert(!W_BAD_RANGE && !b.buffer.oob, "c09.frame.range_in_buffer");
        // painting through fill_to (summarised) and any direct painting are both counted
        kani::assert(W_HITS + b.buffer.hits == 1, "c09.frame.each_pixel_painted_once");
        if clear {
            let shown = if b.buffer.hits > 0 { b.buffer.color } else { W_COLOR };
            kani::assert(shown == expect, "c09.frame.colour_of_latest_write_before_beam");
        }
    }
    kani::assert(b.beam_last.line == 0 && b.beam_last.pixel == 0, "c09.frame.inv_beam_reset");
    kani::assert(u8::from(b.beam_last.color) == last, "c09.frame.inv_colour_carried");
    kani::assert(!b.border_changed && !b.beam_block, "c09.frame.inv_flags");
    kani::cover!(n == 3 && clear && expect != last && expect != u8::from(c0), "three writes, witness between 2nd and 3rd");
    kani::cover!(n == 0, "no write: whole frame in the current colour");
    kani::cover!(n == 2 && !clear, "witness within tolerance of a write");
}

// @harness
// @prop C09
// @tier quick
// @features precise-border
// @expect vacuity
// @timeout 300
// @fn ZXBorder::set_border
// @bound reachability twin of c09_frame_protocol
// @stub ZXBorder::fill_to -> range summary
#[kani::proof]
#[kani::stub(ZXBorder::fill_to, fill_to_summary)]
fn c09_frame_protocol_reach() {
    let m = any_machine();
    let w = witness();
    let mut b = ZXBorder::<WitFb>::new(m, w);
    b.beam_last = BeamInfo::new(0, 0, any_color());
    let t: usize = kani::any();
    kani::assume(t < spec_frame_t(m));
    b.set_border(t, any_color());
    b.new_frame();
    kani::assert(false, "c09.reach");
}

// @harness
// @prop C09
// @tier quick
// @features precise-border
// @timeout 900
// @fn ZXBorder::set_border; ZXBorder::fill_to (real loop); ZXBorder::next_border_pixel
// @sym machine, time of the previous border write and of this one (non-decreasing, at most 10 pixels of beam travel apart, same frame), both colours, border_changed flag, witness pixel
// @assert one border write from a consistent mid-frame state (inductive step of the frame tiling): exactly the pixels between the previous write's beam position and this write's beam position are painted, once, in the PREVIOUS colour, nothing else is touched, and the new position/colour are recorded for the next step
// @bound beam travel <= 10 pixels between the two writes so that the real fill loop unrolls (unwind 13); longer spans are covered by c09_frame_protocol with the loop summarised
#[kani::proof]
#[kani::unwind(13)]
fn c09_write_step_short_span() {
    let m = any_machine();
    let w = witness();
    let mut b = ZXBorder::<WitFb>::new(m, w);
    let t_prev: usize = kani::any();
    let t: usize = kani::any();
    kani::assume(t_prev <= t && t < spec_frame_t(m));
    let (l0, p0, e0) = b.next_border_pixel(t_prev);
    let (l1, p1, e1) = b.next_border_pixel(t);
    kani::assume(!e0 && !e1);
    let from = raster(l0, p0, false);
    let to = raster(l1, p1, false);
    kani::assume(to <= from + 10);
    let c0 = any_color();
    let c1 = any_color();
    b.beam_last = BeamInfo::new(l0, p0, c0);
    b.border_changed = kani::any();
    b.beam_block = false;
    b.set_border(t, c1);
    let wr = w.wy * SCREEN_WIDTH + w.wx;
    let inside = from <= wr && wr < to;
    kani::assert(!b.buffer.oob, "c09.step.in_buffer");
    kani::assert(b.buffer.hits == if inside { 1 } else { 0 }, "c09.step.exactly_the_span_since_the_previous_write");
    if inside {
        kani::assert(b.buffer.color == u8::from(c0), "c09.step.span_gets_previous_colour");
    }
    kani::assert(b.beam_last.line == l1 && b.beam_last.pixel == p1 && u8::from(b.beam_last.color) == u8::from(c1), "c09.step.position_and_colour_recorded");
    kani::assert(b.border_changed && !b.beam_block, "c09.step.flags");
    kani::cover!(inside && l0 == l1 && p0 > 100, "two writes on one line, witness between them");
    kani::cover!(inside && l1 == l0 + 1, "span across a line end");
    kani::cover!(from == to, "two writes at the same beam position");
}

// ---- thorough-tier variants with larger bounds ---------------------------------------------------

// @harness
// @prop C09
// @tier thorough
// @features precise-border
// @timeout 3000
// @fn ZXBorder::set_border; ZXBorder::fill_to (real loop); ZXBorder::next_border_pixel
// @sym as c09_write_step_short_span with up to 40 pixels of beam travel between the two writes
// @assert as c09_write_step_short_span
// @bound beam travel <= 40 pixels (unwind 43)
#[kani::proof]
#[kani::unwind(43)]
fn c09_write_step_span_40() {
    let m = any_machine();
    let w = witness();
    let mut b = ZXBorder::<WitFb>::new(m, w);
    let t_prev: usize = kani::any();
    let t: usize = kani::any();
    kani::assume(t_prev <= t && t < spec_frame_t(m));
    let (l0, p0, e0) = b.next_border_pixel(t_prev);
    let (l1, p1, e1) = b.next_border_pixel(t);
    kani::assume(!e0 && !e1);
    let from = raster(l0, p0, false);
    let to = raster(l1, p1, false);
    kani::assume(to <= from + 40);
    let c0 = any_color();
    let c1 = any_color();
    b.beam_last = BeamInfo::new(l0, p0, c0);
    b.border_changed = kani::any();
    b.beam_block = false;
    b.set_border(t, c1);
    let wr = w.wy * SCREEN_WIDTH + w.wx;
    let inside = from <= wr && wr < to;
    kani::assert(!b.buffer.oob, "c09.step.in_buffer");
    kani::assert(b.buffer.hits == if inside { 1 } else { 0 }, "c09.step.exactly_the_span_since_the_previous_write");
    if inside {
        kani::assert(b.buffer.color == u8::from(c0), "c09.step.span_gets_previous_colour");
    }
    kani::assert(b.beam_last.line == l1 && b.beam_last.pixel == p1 && u8::from(b.beam_last.color) == u8::from(c1), "c09.step.position_and_colour_recorded");
    kani::cover!(inside && to == from + 40, "longest span with the witness inside");
}

// @harness
// @prop C09
// @tier thorough
// @features precise-border
// @timeout 3000
// @fn ZXBorder::fill_to
// @sym as c09_fill_range with ranges of up to 32 pixels
// @assert as c09_fill_range
// @bound ranges of at most 32 pixels (unwind 34)
#[kani::proof]
#[kani::unwind(34)]
fn c09_fill_range_32() {
    let w = witness();
    let mut b = ZXBorder::<WitFb>::new(ZXMachine::Sinclair48K, w);
    let (l0, p0): (usize, usize) = (kani::any(), kani::any());
    let (l1, p1): (usize, usize) = (kani::any(), kani::any());
    kani::assume(l0 < SCREEN_HEIGHT && p0 <= SCREEN_WIDTH && l1 < SCREEN_HEIGHT && p1 <= SCREEN_WIDTH);
    let from = l0 * SCREEN_WIDTH + p0;
    let to = l1 * SCREEN_WIDTH + p1;
    kani::assume(to <= from + 32);
    let c = any_color();
    b.beam_last = BeamInfo::new(l0, p0, c);
    b.fill_to(l1, p1);
    let wr = w.wy * SCREEN_WIDTH + w.wx;
    let inside = from <= wr && wr < to;
    kani::assert(!b.buffer.oob, "c09.fill.in_buffer");
    kani::assert(b.buffer.hits == if inside { 1 } else { 0 }, "c09.fill.exactly_range");
    if inside {
        kani::assert(b.buffer.color == u8::from(c), "c09.fill.colour");
    }
    kani::cover!(inside && to == from + 32, "full-length range with witness inside");
}
