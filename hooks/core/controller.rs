//! Kani harnesses compiled as a child module of rustzx-core/src/zx/controller.rs (cfg(kani) only).
