//! Kani-only child module of rustzx-core/src/zx/controller.rs (cfg(kani)).
#![allow(dead_code)]
use super::*;
use crate::verif_hooks::{FbCtx, VHost};

// ---- shared helpers (lead) --------------------------------------------------------------------

pub(crate) fn mk_controller(machine: ZXMachine, ctx: FbCtx, kempston: bool, mouse: bool) -> ZXController<VHost> {
    let mut s = crate::emulator::verif_hooks::mk_settings(machine);
    s.kempston_enabled = kempston;
    s.mouse_enabled = mouse;
    ZXController::<VHost>::new(&s, ctx)
}

pub(crate) fn passed_frames(c: &ZXController<VHost>) -> usize {
    c.passed_frames
}
pub(crate) fn set_passed_frames(c: &mut ZXController<VHost>, v: usize) {
    c.passed_frames = v;
}
pub(crate) fn paging_enabled(c: &ZXController<VHost>) -> bool {
    c.paging_enabled
}
pub(crate) fn set_paging_enabled(c: &mut ZXController<VHost>, v: bool) {
    c.paging_enabled = v;
}
pub(crate) fn screen_bank(c: &ZXController<VHost>) -> u8 {
    c.screen_bank
}
pub(crate) fn latch_7ffd(c: &ZXController<VHost>) -> u8 {
    c.current_port_7ffd
}
pub(crate) fn events_bits(c: &ZXController<VHost>) -> u8 {
    c.events.bits()
}
pub(crate) fn has_error(c: &ZXController<VHost>) -> bool {
    c.last_emulation_error.is_some()
}

// ---- end shared helpers -----------------------------------------------------------------------

// =============================================================================================
// Specification helpers (written from the property statements C04/C05/C06/C07)
// =============================================================================================

pub(crate) fn noop_screen_clocks<FB: crate::host::FrameBuffer>(_s: &mut ZXScreen<FB>, _clocks: usize) {}

pub(crate) fn noop_screen_update<FB: crate::host::FrameBuffer>(_s: &mut ZXScreen<FB>, _rel: u16, _bank: usize, _data: u8) {}

pub(crate) fn spec_frame_len(m: ZXMachine) -> usize {
    match m {
        ZXMachine::Sinclair48K => 69888,
        ZXMachine::Sinclair128K => 70908,
    }
}

/// ULA delay for an access to contended memory starting at frame T-state `t` (C04 statement)
pub(crate) fn spec_delay(m: ZXMachine, t: usize) -> usize {
    let (t0, line) = match m {
        ZXMachine::Sinclair48K => (14335usize, 224usize),
        ZXMachine::Sinclair128K => (14361usize, 228usize),
    };
    if t < t0 {
        return 0;
    }
    let d = t - t0;
    let l = d / line;
    let x = d % line;
    if l >= 192 || x >= 128 {
        return 0;
    }
    match x % 8 {
        0 => 6,
        1 => 5,
        2 => 4,
        3 => 3,
        4 => 2,
        5 => 1,
        _ => 0,
    }
}

/// Ghost model of the 128K paging latch: last accepted value and lock.
#[derive(Clone, Copy)]
pub(crate) struct SpecLatch {
    pub val: u8,
    pub locked: bool,
}

impl SpecLatch {
    pub fn reset() -> Self {
        SpecLatch { val: 0, locked: false }
    }
    pub fn write(&mut self, m: ZXMachine, v: u8) {
        if m == ZXMachine::Sinclair128K && !self.locked {
            self.val = v;
            if v & 0x20 != 0 {
                self.locked = true;
            }
        }
    }
    /// what the CPU sees in 16K window `w` (0..3)
    pub fn page(&self, m: ZXMachine, w: usize) -> Page {
        match m {
            ZXMachine::Sinclair48K => match w {
                0 => Page::Rom(0),
                1 => Page::Ram(0),
                2 => Page::Ram(1),
                _ => Page::Ram(2),
            },
            ZXMachine::Sinclair128K => match w {
                0 => Page::Rom((self.val >> 4) & 1),
                1 => Page::Ram(5),
                2 => Page::Ram(2),
                _ => Page::Ram(self.val & 7),
            },
        }
    }
}

/// Is `addr` in contended memory (C04 statement: 48K 0x4000-0x7FFF; 128K banks 1,3,5,7 wherever paged)
pub(crate) fn spec_contended(m: ZXMachine, latch: &SpecLatch, addr: u16) -> bool {
    match m {
        ZXMachine::Sinclair48K => addr >= 0x4000 && addr <= 0x7FFF,
        ZXMachine::Sinclair128K => match latch.page(m, (addr >> 14) as usize) {
            Page::Ram(b) => b & 1 == 1,
            Page::Rom(_) => false,
        },
    }
}

/// Build a controller at frame time `t` with an arbitrary reachable paging latch (two real port
/// writes), returning the ghost latch.
pub(crate) fn any_controller_at(kempston: bool, mouse: bool) -> (ZXController<VHost>, SpecLatch, usize) {
    controller_at_machine(crate::emulator::verif_hooks::any_machine(), kempston, mouse)
}

/// as `any_controller_at` for a given (possibly literal) machine
pub(crate) fn controller_at_machine(m: ZXMachine, kempston: bool, mouse: bool) -> (ZXController<VHost>, SpecLatch, usize) {
    let mut c = mk_controller(m, FbCtx { wx: 0, wy: 0 }, kempston, mouse);
    let mut latch = SpecLatch::reset();
    let (v1, v2): (u8, u8) = (kani::any(), kani::any());
    c.write_7ffd_machine(v1);
    latch.write(m, v1);
    c.write_7ffd_machine(v2);
    latch.write(m, v2);
    let t: usize = kani::any();
    kani::assume(t < spec_frame_len(m));
    c.frame_clocks = t;
    (c, latch, t)
}

impl ZXController<VHost> {
    /// what `write_io` does for a paging-port write, minus bus timing (the 128K-only test is in write_io)
    fn write_7ffd_machine(&mut self, v: u8) {
        if self.machine == ZXMachine::Sinclair128K {
            self.write_7ffd(v);
        }
    }
}

/// elapsed T-states between a start time `t0` (with passed_frames = 0) and now
pub(crate) fn elapsed(c: &ZXController<VHost>, t0: usize) -> usize {
    c.frame_clocks + c.passed_frames * spec_frame_len(c.machine) - t0
}

// =============================================================================================
// C04 — contention
// =============================================================================================

// @harness
// @prop C04
// @tier quick
// @timeout 600
// @fn ZXController::wait_mreq; ZXController::wait_no_mreq; ZXController::wait_internal; ZXController::do_contention; ZXController::addr_is_contended; ZXController::new_frame; ZXController::write_7ffd; ZXMachine::contention_clocks; ZXMachine::bank_is_contended; ZXMemory::get_page; ZXSpecsBuilder::build; Z80Bus::read (default); Z80Bus::write (default)
// @sym machine, 7FFD latch (two symbolic writes incl. lock), frame T-state in [0,frame), 16-bit address, cycle length in {1,3,4}, mreq/no-mreq/read/write flavour, data byte
// @assert elapsed T-states (across a frame wrap) == delay(T) + cycle length for an address in contended RAM, == cycle length otherwise; delay(T) = 6,5,4,3,2,1,0,0 by (T-T0) mod 8 in the first 128 T of the 192 picture lines, T0/line = 14335/224 (48K), 14361/228 (128K)
// @bound one bus cycle per query from every frame time and latch state; sequences compose because the CPU issues exactly these primitives (C03)
// @stub ZXScreen::process_clocks -> no-op (video state is not read by the timing code; C08 owns it)
// @replay solver-only
#[kani::proof]
#[kani::stub(crate::zx::video::screen::ZXScreen::process_clocks, noop_screen_clocks)]
fn c04_memory_cycle() {
    let (mut c, latch, t) = any_controller_at(false, false);
    let m = c.machine;
    let addr: u16 = kani::any();
    let clk: usize = kani::any();
    kani::assume(clk == 1 || clk == 3 || clk == 4);
    let flavour: u8 = kani::any();
    kani::assume(flavour < 4);
    match flavour {
        0 => c.wait_mreq(addr, clk),
        1 => c.wait_no_mreq(addr, clk),
        2 => {
            let _ = c.read(addr, clk);
        }
        _ => c.write(addr, kani::any(), clk),
    }
    let cont = spec_contended(m, &latch, addr);
    let want = if cont { spec_delay(m, t) + clk } else { clk };
    kani::assert(elapsed(&c, t) == want, "c04.mem.elapsed_equals_delay_plus_cycle");
    kani::assert(c.frame_clocks < spec_frame_len(m), "c04.mem.clock_in_frame");
    kani::assert(c.passed_frames <= 1, "c04.mem.at_most_one_frame_end");
    kani::cover!(cont && spec_delay(m, t) == 6 && m == ZXMachine::Sinclair128K && addr >= 0xC000, "128K paged odd bank contended by 6");
    kani::cover!(cont && spec_delay(m, t) == 1 && m == ZXMachine::Sinclair48K, "48K delay 1");
    kani::cover!(!cont && addr >= 0xC000 && m == ZXMachine::Sinclair128K && spec_delay(m, t) > 0, "128K even bank not contended");
    kani::cover!(c.passed_frames == 1, "frame wrap");
}

// @harness
// @prop C04
// @tier quick
// @timeout 600
// @fn Z80Bus::wait_loop (default, as inherited by ZXController); ZXController::wait_no_mreq; ZXController::wait_mreq; ZXController::wait_internal; ZXMachine::contention_clocks
// @sym machine, latch, frame T-state, address, count 0..7
// @assert n single internal T-states carrying an address each get their own ULA delay: elapsed == sum over i of (delay(t_i) if contended) + 1 with t_{i+1} = t_i + step_i (mod frame)
// @bound count <= 7 (the CPU never issues more than 7; unwind 9)
// @stub ZXScreen::process_clocks -> no-op
// @replay solver-only
#[kani::proof]
#[kani::unwind(10)]
#[kani::stub(crate::zx::video::screen::ZXScreen::process_clocks, noop_screen_clocks)]
fn c04_wait_loop() {
    let (mut c, latch, t) = any_controller_at(false, false);
    let m = c.machine;
    let addr: u16 = kani::any();
    let n: usize = kani::any();
    kani::assume(n <= 7);
    c.wait_loop(addr, n);
    let cont = spec_contended(m, &latch, addr);
    let f = spec_frame_len(m);
    let mut tt = t;
    let mut total = 0usize;
    let mut i = 0;
    while i < 7 {
        if i < n {
            let step = if cont { spec_delay(m, tt % f) + 1 } else { 1 };
            total += step;
            tt += step;
        }
        i += 1;
    }
    kani::assert(elapsed(&c, t) == total, "c04.loop.each_tstate_delayed_separately");
    kani::cover!(n == 7 && cont && total > 20, "seven contended T-states");
    kani::cover!(n == 5 && !cont, "uncontended loop");
}

/// C04 port-cycle specification: the four ULA patterns.
pub(crate) fn spec_io_elapsed(m: ZXMachine, latch: &SpecLatch, port: u16, t: usize) -> usize {
    let f = spec_frame_len(m);
    let hi_cont = spec_contended(m, latch, port);
    let low = port & 1 == 0;
    let mut tt = t;
    let c = |tt: &mut usize, n: usize| {
        *tt += spec_delay(m, *tt % f) + n;
    };
    match (hi_cont, low) {
        (false, true) => {
            tt += 1; // N:1
            c(&mut tt, 3); // C:3
        }
        (false, false) => {
            tt += 4; // N:4
        }
        (true, true) => {
            c(&mut tt, 1); // C:1
            c(&mut tt, 3); // C:3
        }
        (true, false) => {
            c(&mut tt, 1);
            c(&mut tt, 1);
            c(&mut tt, 1);
            c(&mut tt, 1);
        }
    }
    tt - t
}

// @harness
// @prop C04
// @tier quick
// @timeout 900
// @fn ZXController::read_io; ZXController::io_contention_first; ZXController::io_contention_last; ZXController::do_contention_and_wait; ZXMachine::port_is_contended; ZXController::floating_bus_value
// @sym machine, latch, frame T-state, 16-bit port
// @assert a port read takes 4 T plus the ULA delays of the pattern selected by A0 and by whether the high byte addresses contended RAM: N:1,C:3 / N:4 / C:1,C:3 / C:1,C:1,C:1,C:1
// @bound one port cycle per query; keyboard row loop unwound 9
// @stub ZXScreen::process_clocks -> no-op
// @replay solver-only
#[kani::proof]
#[kani::unwind(10)]
#[kani::stub(crate::zx::video::screen::ZXScreen::process_clocks, noop_screen_clocks)]
fn c04_port_read() {
    let (mut c, latch, t) = any_controller_at(false, false);
    let m = c.machine;
    let port: u16 = kani::any();
    let _ = c.read_io(port);
    let want = spec_io_elapsed(m, &latch, port, t);
    kani::assert(elapsed(&c, t) == want, "c04.io_read.pattern");
    kani::cover!(want == 4, "uncontended port cycle");
    kani::cover!(want > 14 && port & 1 == 1, "C:1 x4 pattern with delays");
    kani::cover!(want > 8 && port & 1 == 0 && !spec_contended(m, &latch, port), "N:1,C:3 with delay");
}

// @harness
// @prop C04
// @tier quick
// @timeout 900
// @fn ZXController::write_io; ZXController::io_contention_first; ZXController::io_contention_last; ZXController::set_border_color; ZXController::write_7ffd
// @sym machine, latch, frame T-state, 16-bit port, data
// @assert a port write takes 4 T plus the ULA delays of the selected pattern; when the write itself changes the paging latch the pattern is still selected by the mapping... see @outside
// @assume the write does not itself change which bank is mapped where the port's high byte points (port is not an accepted 128K paging write with a different bank/parity), because the statement does not say which mapping times such a cycle
// @bound one port cycle per query
// @stub ZXScreen::process_clocks -> no-op
// @replay solver-only
#[kani::proof]
#[kani::stub(crate::zx::video::screen::ZXScreen::process_clocks, noop_screen_clocks)]
fn c04_port_write() {
    let (mut c, latch, t) = any_controller_at(false, false);
    let m = c.machine;
    let port: u16 = kani::any();
    let data: u8 = kani::any();
    let mut after = latch;
    if port & 0x8003 == 0x0001 {
        after.write(m, data);
    }
    kani::assume(spec_contended(m, &after, port) == spec_contended(m, &latch, port));
    c.write_io(port, data);
    let want = spec_io_elapsed(m, &latch, port, t);
    kani::assert(elapsed(&c, t) == want, "c04.io_write.pattern");
    kani::cover!(want == 4, "uncontended port cycle");
    kani::cover!(want > 14 && port & 1 == 1, "C:1 x4 pattern with delays");
    kani::cover!(port & 0x8003 == 0x0001 && m == ZXMachine::Sinclair128K && after.val != latch.val, "paging write timed");
}

// =============================================================================================
// C05 — frame length, INT pulse, conservation of T-states
// =============================================================================================

// @harness
// @prop C05
// @tier quick
// @timeout 300
// @fn ZXSpecsBuilder::build (whole builder chain through lazy_static); ZXMachine::specs; ZXController::int_active
// @sym machine, frame T-state
// @assert frame length is 69888 / 70908 T, line length 224 / 228 T, INT pulse length 32 T; the INT line is active exactly for frame T-states 0..31
// @bound all in-frame T-states, both machines
#[kani::proof]
fn c05_constants_and_int_pulse() {
    let m = crate::emulator::verif_hooks::any_machine();
    let s = m.specs();
    kani::assert(s.clocks_frame == spec_frame_len(m), "c05.const.frame_length");
    kani::assert(s.clocks_line == if m == ZXMachine::Sinclair48K { 224 } else { 228 }, "c05.const.line_length");
    kani::assert(s.interrupt_length == 32, "c05.const.int_length");
    let mut c = mk_controller(m, FbCtx { wx: 0, wy: 0 }, false, false);
    // any paging history (128K: any latch value, paging locked or not): frame timing never depends on it
    c.write_7ffd(kani::any());
    let t: usize = kani::any();
    kani::assume(t < spec_frame_len(m));
    c.frame_clocks = t;
    kani::assert(c.int_active() == (t < 32), "c05.int.active_first_32_tstates");
    kani::assert(!c.nmi_active(), "c05.int.no_nmi_source");
    kani::cover!(t == 31 && c.int_active(), "last T-state of the pulse");
    kani::cover!(t == 32 && !c.int_active(), "first T-state after the pulse");
}

// @harness
// @prop C05
// @tier quick
// @timeout 600
// @fn ZXController::wait_internal; ZXController::new_frame; ZXController::frames_count; ZXController::reset_frame_counter
// @sym machine, frame T-state, step length 0..=frame-1 (the CPU issues at most 7 at once), frames already counted, paging latch (any value written to 7FFD before: locked or not)
// @assert conservation: clock' + frame*(frames' - frames) == clock + step; at most one frame end per step; clock' < frame (invariant); the overrun is carried, never dropped
// @bound one clock step from any in-frame time (inductive for runs of any length)
// @stub ZXScreen::process_clocks -> no-op
// @replay solver-only
#[kani::proof]
#[kani::stub(crate::zx::video::screen::ZXScreen::process_clocks, noop_screen_clocks)]
fn c05_clock_step_conserves_time() {
    let m = crate::emulator::verif_hooks::any_machine();
    let f = spec_frame_len(m);
    let mut c = mk_controller(m, FbCtx { wx: 0, wy: 0 }, false, false);
    let t: usize = kani::any();
    let step: usize = kani::any();
    let frames0: usize = kani::any();
    kani::assume(t < f && step < f && frames0 < 1000);
    // any paging history (128K: any latch value, paging locked or not): the frame length never depends on it
    let latch: u8 = kani::any();
    c.write_7ffd(latch);
    c.frame_clocks = t;
    c.passed_frames = frames0;
    c.wait_internal(step);
    let df = c.frames_count() - frames0;
    kani::assert(c.frame_clocks + f * df == t + step, "c05.step.time_conserved");
    kani::assert(df <= 1, "c05.step.at_most_one_frame_end");
    kani::assert(c.frame_clocks < f, "c05.step.clock_stays_in_frame");
    c.reset_frame_counter();
    kani::assert(c.frames_count() == 0 && c.frame_clocks + f * df == t + step, "c05.step.counter_reset_keeps_clock");
    kani::cover!(df == 1 && c.frame_clocks == 5, "overrun of 5 T carried into the next frame");
    kani::cover!(df == 0 && step == 7, "ordinary step");
    kani::cover!(df == 1 && latch & 0x20 != 0 && m == ZXMachine::Sinclair128K, "frame end on a 128K with paging locked");
}

// @harness
// @prop C05
// @tier quick
// @timeout 600
// @fn ZXController::halt; ZXController::reti; ZXController::pc_callback; ZXController::read_interrupt; ZXController::int_active; ZXController::nmi_active; ZXController::take_events; ZXController::reset_frame_counter
// @sym machine, frame T-state (any, including the INT window and the 1-3 T carried over a frame end), frames counted, every argument of the callbacks
// @assert emulated time moves only through the bus wait primitives: the notifications the CPU sends while it accepts an interrupt or runs (HALT line changes in both directions, RETI, the PC callback, the interrupt-vector read, sampling INT/NMI) and the host-side accessors leave the frame clock and the frame count exactly as they were - no T-state is dropped or invented at the interrupt-acceptance step
// @bound one call of each callback from an arbitrary in-frame time
// @stub ZXScreen::process_clocks -> no-op
// @replay solver-only
#[kani::proof]
#[kani::stub(crate::zx::video::screen::ZXScreen::process_clocks, noop_screen_clocks)]
fn c05_only_bus_waits_move_the_clock() {
    let m = crate::emulator::verif_hooks::any_machine();
    let f = spec_frame_len(m);
    let mut c = mk_controller(m, FbCtx { wx: 0, wy: 0 }, false, false);
    let t: usize = kani::any();
    let frames0: usize = kani::any();
    kani::assume(t < f && frames0 < 1000);
    c.frame_clocks = t;
    c.passed_frames = frames0;
    c.halt(kani::any());
    c.halt(kani::any());
    c.reti();
    let _ = c.read_interrupt();
    let _ = c.int_active();
    let _ = c.nmi_active();
    c.pc_callback(kani::any());
    let _ = c.take_events();
    kani::assert(c.frame_clocks == t && c.passed_frames == frames0, "c05.callbacks.cpu_notifications_do_not_move_the_clock");
    kani::cover!(t == 3, "HALT released 3 T-states into the frame (the carried overrun)");
    kani::cover!(t == 40000, "mid frame");
}

// =============================================================================================
// C06 — memory map and 128K paging
// =============================================================================================

fn page_eq(a: Page, b: Page) -> bool {
    a == b
}

// @harness
// @prop C06
// @tier quick
// @timeout 900
// @fn ZXController::write_io (paging arm and every other arm); ZXController::write_7ffd; ZXController::read_7ffd; ZXMemory::remap; ZXMemory::get_bank_type; ZXMemory::get_page; ZXMemory::new
// @sym machine, three port writes with fully symbolic 16-bit port and data (so paging writes, non-paging writes, locked writes in any order), start frame time
// @assert after any 3 port writes the four 16K windows map exactly what the paging rules say: ROM = bit 4 of the last accepted value, 0x4000 bank 5, 0x8000 bank 2, 0xC000 bank = bits 0-2; a value with bit 5 locks the latch for good; 48K ignores all paging writes; writes to other ports never change the map
// @assume ports that select both the ULA and the paging latch (A0=0 with A15=0,A1=0 on the 128K) are excluded: the statement speaks of paging writes only
// @bound 3 writes from reset: every reachable (value, lock) latch state is reached by <= 2 writes, the third exercises the step from it
// @stub ZXScreen::process_clocks -> no-op
// @replay solver-only
#[kani::proof]
#[kani::unwind(10)]
#[kani::stub(crate::zx::video::screen::ZXScreen::process_clocks, noop_screen_clocks)]
fn c06_paging_latch_history() {
    let m = crate::emulator::verif_hooks::any_machine();
    let mut c = mk_controller(m, FbCtx { wx: 0, wy: 0 }, false, false);
    let t: usize = kani::any();
    kani::assume(t < spec_frame_len(m));
    c.frame_clocks = t;
    let mut latch = SpecLatch::reset();
    let mut accepted = 0u8;
    let mut i = 0;
    while i < 3 {
        let port: u16 = kani::any();
        let data: u8 = kani::any();
        let paging = m == ZXMachine::Sinclair128K && port & 0x8002 == 0;
        kani::assume(!(paging && port & 1 == 0));
        if paging {
            if !latch.locked {
                accepted += 1;
            }
            latch.write(m, data);
        }
        c.write_io(port, data);
        i += 1;
    }
    let mut w = 0;
    while w < 4 {
        kani::assert(page_eq(c.memory.get_bank_type(w), latch.page(m, w)), "c06.latch.window_maps_spec_page");
        w += 1;
    }
    if m == ZXMachine::Sinclair128K {
        kani::assert(c.read_7ffd() == latch.val, "c06.latch.value_is_last_accepted");
        kani::assert(c.paging_enabled == !latch.locked, "c06.latch.lock");
    }
    kani::cover!(m == ZXMachine::Sinclair128K && latch.locked && accepted == 2, "lock reached on the 2nd accepted write, 3rd ignored or foreign");
    kani::cover!(m == ZXMachine::Sinclair128K && accepted == 3 && latch.val & 0x17 == 0x13, "three accepted writes, ROM 1 bank 3");
    kani::cover!(m == ZXMachine::Sinclair48K, "48K");
}

/// one CPU write at a concrete (window, offset) chosen symbolically: every store index is a literal
fn write_at_class(c: &mut ZXController<VHost>, window: u8, osel: u8, d: u8) -> u16 {
    let off: u16 = match osel {
        0 => 0x0000,
        1 => 0x1AFF,
        _ => 0x3FFF,
    };
    let a = ((window as u16) << 14) | off;
    match (window, osel) {
        (0, 0) => c.write(0x0000, d, 3),
        (0, 1) => c.write(0x1AFF, d, 3),
        (0, _) => c.write(0x3FFF, d, 3),
        (1, 0) => c.write(0x4000, d, 3),
        (1, 1) => c.write(0x5AFF, d, 3),
        (1, _) => c.write(0x7FFF, d, 3),
        (2, 0) => c.write(0x8000, d, 3),
        (2, 1) => c.write(0x9AFF, d, 3),
        (2, _) => c.write(0xBFFF, d, 3),
        (_, 0) => c.write(0xC000, d, 3),
        (_, 1) => c.write(0xDAFF, d, 3),
        (_, _) => c.write(0xFFFF, d, 3),
    }
    a
}

fn aliasing_body(paged_bank: Option<u8>) {
    let (mut c, latch, _t) = any_controller_at(false, false);
    let m = c.machine;
    let window: u8 = kani::any();
    let osel: u8 = kani::any();
    kani::assume(window < 4 && osel < 3);
    match paged_bank {
        None => kani::assume(window < 3 || m == ZXMachine::Sinclair48K),
        Some(k) => {
            // concretisation device: the bank at 0xC000 is fixed per query so that the RAM store
            // index is a literal (CBMC does not finish a 128K-array store at a symbolic index)
            kani::assume(m == ZXMachine::Sinclair128K && window == 3 && latch.val & 7 == k);
            c.memory.remap(3, Page::Ram(k));
        }
    }
    let d: u8 = kani::any();
    kani::assume(d != 0);
    let a1 = write_at_class(&mut c, window, osel, d);
    let a2: u16 = kani::any();
    let got = c.read(a2, 3);
    let p1 = latch.page(m, (a1 >> 14) as usize);
    let p2 = latch.page(m, (a2 >> 14) as usize);
    let same = match (p1, p2) {
        (Page::Ram(b1), Page::Ram(b2)) => b1 == b2 && (a1 & 0x3FFF) == (a2 & 0x3FFF),
        _ => false,
    };
    kani::assert(got == if same { d } else { 0 }, "c06.alias.read_back_iff_same_bank_and_offset");
    let two_windows_possible = match paged_bank {
        None => true,
        Some(k) => k == 2 || k == 5,
    };
    kani::cover!(same && (a1 != a2) == two_windows_possible, "read back (through a second window where the bank has one)");
    kani::cover!(!same && (a1 & 0x3FFF) == (a2 & 0x3FFF) && a2 >= 0x4000 && a1 >= 0x4000, "same offset, different banks");
}

// @harness
// @prop C06
// @tier quick
// @timeout 900
// @fn Z80Bus::write (default) -> ZXController::write_internal -> ZXMemory::write; Z80Bus::read (default) -> ZXController::read_internal -> ZXMemory::read; ZXMemory::paged_address; ZXController::write_7ffd
// @sym machine, latch (two symbolic writes), written window 0..2 (48K: 0..3) x offset in {0, 0x1AFF, 0x3FFF}, data, read address a2 (all 65536)
// @assert a byte written through a fixed window is read back at a2 exactly when a2 denotes the same RAM bank and offset under the paging rules (bank 5 or 2 also paged at 0xC000); every other address still reads its prior content; a write into the ROM window changes nothing
// @bound one write + one read on zero-initialised memory (prior content 0, written data != 0); write offsets from the class (the offset is passed through `addr % 16K` only)
// @stub ZXScreen::process_clocks -> no-op; ZXScreen::update -> no-op (the display copy is C08's subject)
// @replay solver-only
#[kani::proof]
#[kani::unwind(10)]
#[kani::stub(crate::zx::video::screen::ZXScreen::process_clocks, noop_screen_clocks)]
#[kani::stub(crate::zx::video::screen::ZXScreen::update, noop_screen_update)]
fn c06_window_aliasing() {
    aliasing_body(None);
}

// @harness
// @prop C06
// @tier thorough
// @timeout 900
// @fn Z80Bus::write (default) -> ZXController::write_internal -> ZXMemory::write; Z80Bus::read; ZXMemory::paged_address; ZXController::write_7ffd
// @sym 128K latch with bank 0 at 0xC000 (other bits and history symbolic), write through 0xC000 window at offset in {0, 0x1AFF, 0x3FFF}, data, read address a2 (all 65536)
// @assert a byte written through the paged window is read back at a2 exactly when a2 denotes bank 0 at the same offset (through 0xC000, and through 0x4000/0x8000 when bank 0 is 5/2); nothing else changes
// @assume bank at 0xC000 == 0 (one query per bank: quick 2,5,7; thorough all 8)
// @bound one write + one read
// @stub ZXScreen::process_clocks -> no-op; ZXScreen::update -> no-op
// @replay solver-only
#[kani::proof]
#[kani::unwind(10)]
#[kani::stub(crate::zx::video::screen::ZXScreen::process_clocks, noop_screen_clocks)]
#[kani::stub(crate::zx::video::screen::ZXScreen::update, noop_screen_update)]
fn c06_paged_window_aliasing_bank0() {
    aliasing_body(Some(0));
}

// @harness
// @prop C06
// @tier thorough
// @timeout 900
// @fn Z80Bus::write (default) -> ZXController::write_internal -> ZXMemory::write; Z80Bus::read; ZXMemory::paged_address; ZXController::write_7ffd
// @sym 128K latch with bank 1 at 0xC000 (other bits and history symbolic), write through 0xC000 window at offset in {0, 0x1AFF, 0x3FFF}, data, read address a2 (all 65536)
// @assert a byte written through the paged window is read back at a2 exactly when a2 denotes bank 1 at the same offset (through 0xC000, and through 0x4000/0x8000 when bank 1 is 5/2); nothing else changes
// @assume bank at 0xC000 == 1 (one query per bank: quick 2,5,7; thorough all 8)
// @bound one write + one read
// @stub ZXScreen::process_clocks -> no-op; ZXScreen::update -> no-op
// @replay solver-only
#[kani::proof]
#[kani::unwind(10)]
#[kani::stub(crate::zx::video::screen::ZXScreen::process_clocks, noop_screen_clocks)]
#[kani::stub(crate::zx::video::screen::ZXScreen::update, noop_screen_update)]
fn c06_paged_window_aliasing_bank1() {
    aliasing_body(Some(1));
}

// @harness
// @prop C06
// @tier quick
// @timeout 900
// @fn Z80Bus::write (default) -> ZXController::write_internal -> ZXMemory::write; Z80Bus::read; ZXMemory::paged_address; ZXController::write_7ffd
// @sym 128K latch with bank 2 at 0xC000 (other bits and history symbolic), write through 0xC000 window at offset in {0, 0x1AFF, 0x3FFF}, data, read address a2 (all 65536)
// @assert a byte written through the paged window is read back at a2 exactly when a2 denotes bank 2 at the same offset (through 0xC000, and through 0x4000/0x8000 when bank 2 is 5/2); nothing else changes
// @assume bank at 0xC000 == 2 (one query per bank: quick 2,5,7; thorough all 8)
// @bound one write + one read
// @stub ZXScreen::process_clocks -> no-op; ZXScreen::update -> no-op
// @replay solver-only
#[kani::proof]
#[kani::unwind(10)]
#[kani::stub(crate::zx::video::screen::ZXScreen::process_clocks, noop_screen_clocks)]
#[kani::stub(crate::zx::video::screen::ZXScreen::update, noop_screen_update)]
fn c06_paged_window_aliasing_bank2() {
    aliasing_body(Some(2));
}

// @harness
// @prop C06
// @tier thorough
// @timeout 900
// @fn Z80Bus::write (default) -> ZXController::write_internal -> ZXMemory::write; Z80Bus::read; ZXMemory::paged_address; ZXController::write_7ffd
// @sym 128K latch with bank 3 at 0xC000 (other bits and history symbolic), write through 0xC000 window at offset in {0, 0x1AFF, 0x3FFF}, data, read address a2 (all 65536)
// @assert a byte written through the paged window is read back at a2 exactly when a2 denotes bank 3 at the same offset (through 0xC000, and through 0x4000/0x8000 when bank 3 is 5/2); nothing else changes
// @assume bank at 0xC000 == 3 (one query per bank: quick 2,5,7; thorough all 8)
// @bound one write + one read
// @stub ZXScreen::process_clocks -> no-op; ZXScreen::update -> no-op
// @replay solver-only
#[kani::proof]
#[kani::unwind(10)]
#[kani::stub(crate::zx::video::screen::ZXScreen::process_clocks, noop_screen_clocks)]
#[kani::stub(crate::zx::video::screen::ZXScreen::update, noop_screen_update)]
fn c06_paged_window_aliasing_bank3() {
    aliasing_body(Some(3));
}

// @harness
// @prop C06
// @tier thorough
// @timeout 900
// @fn Z80Bus::write (default) -> ZXController::write_internal -> ZXMemory::write; Z80Bus::read; ZXMemory::paged_address; ZXController::write_7ffd
// @sym 128K latch with bank 4 at 0xC000 (other bits and history symbolic), write through 0xC000 window at offset in {0, 0x1AFF, 0x3FFF}, data, read address a2 (all 65536)
// @assert a byte written through the paged window is read back at a2 exactly when a2 denotes bank 4 at the same offset (through 0xC000, and through 0x4000/0x8000 when bank 4 is 5/2); nothing else changes
// @assume bank at 0xC000 == 4 (one query per bank: quick 2,5,7; thorough all 8)
// @bound one write + one read
// @stub ZXScreen::process_clocks -> no-op; ZXScreen::update -> no-op
// @replay solver-only
#[kani::proof]
#[kani::unwind(10)]
#[kani::stub(crate::zx::video::screen::ZXScreen::process_clocks, noop_screen_clocks)]
#[kani::stub(crate::zx::video::screen::ZXScreen::update, noop_screen_update)]
fn c06_paged_window_aliasing_bank4() {
    aliasing_body(Some(4));
}

// @harness
// @prop C06
// @tier quick
// @timeout 900
// @fn Z80Bus::write (default) -> ZXController::write_internal -> ZXMemory::write; Z80Bus::read; ZXMemory::paged_address; ZXController::write_7ffd
// @sym 128K latch with bank 5 at 0xC000 (other bits and history symbolic), write through 0xC000 window at offset in {0, 0x1AFF, 0x3FFF}, data, read address a2 (all 65536)
// @assert a byte written through the paged window is read back at a2 exactly when a2 denotes bank 5 at the same offset (through 0xC000, and through 0x4000/0x8000 when bank 5 is 5/2); nothing else changes
// @assume bank at 0xC000 == 5 (one query per bank: quick 2,5,7; thorough all 8)
// @bound one write + one read
// @stub ZXScreen::process_clocks -> no-op; ZXScreen::update -> no-op
// @replay solver-only
#[kani::proof]
#[kani::unwind(10)]
#[kani::stub(crate::zx::video::screen::ZXScreen::process_clocks, noop_screen_clocks)]
#[kani::stub(crate::zx::video::screen::ZXScreen::update, noop_screen_update)]
fn c06_paged_window_aliasing_bank5() {
    aliasing_body(Some(5));
}

// @harness
// @prop C06
// @tier thorough
// @timeout 900
// @fn Z80Bus::write (default) -> ZXController::write_internal -> ZXMemory::write; Z80Bus::read; ZXMemory::paged_address; ZXController::write_7ffd
// @sym 128K latch with bank 6 at 0xC000 (other bits and history symbolic), write through 0xC000 window at offset in {0, 0x1AFF, 0x3FFF}, data, read address a2 (all 65536)
// @assert a byte written through the paged window is read back at a2 exactly when a2 denotes bank 6 at the same offset (through 0xC000, and through 0x4000/0x8000 when bank 6 is 5/2); nothing else changes
// @assume bank at 0xC000 == 6 (one query per bank: quick 2,5,7; thorough all 8)
// @bound one write + one read
// @stub ZXScreen::process_clocks -> no-op; ZXScreen::update -> no-op
// @replay solver-only
#[kani::proof]
#[kani::unwind(10)]
#[kani::stub(crate::zx::video::screen::ZXScreen::process_clocks, noop_screen_clocks)]
#[kani::stub(crate::zx::video::screen::ZXScreen::update, noop_screen_update)]
fn c06_paged_window_aliasing_bank6() {
    aliasing_body(Some(6));
}

// @harness
// @prop C06
// @tier quick
// @timeout 900
// @fn Z80Bus::write (default) -> ZXController::write_internal -> ZXMemory::write; Z80Bus::read; ZXMemory::paged_address; ZXController::write_7ffd
// @sym 128K latch with bank 7 at 0xC000 (other bits and history symbolic), write through 0xC000 window at offset in {0, 0x1AFF, 0x3FFF}, data, read address a2 (all 65536)
// @assert a byte written through the paged window is read back at a2 exactly when a2 denotes bank 7 at the same offset (through 0xC000, and through 0x4000/0x8000 when bank 7 is 5/2); nothing else changes
// @assume bank at 0xC000 == 7 (one query per bank: quick 2,5,7; thorough all 8)
// @bound one write + one read
// @stub ZXScreen::process_clocks -> no-op; ZXScreen::update -> no-op
// @replay solver-only
#[kani::proof]
#[kani::unwind(10)]
#[kani::stub(crate::zx::video::screen::ZXScreen::process_clocks, noop_screen_clocks)]
#[kani::stub(crate::zx::video::screen::ZXScreen::update, noop_screen_update)]
fn c06_paged_window_aliasing_bank7() {
    aliasing_body(Some(7));
}

// @harness
// @prop C06
// @tier quick
// @timeout 900
// @fn ZXMemory::rom_page_data_mut; ZXMemory::read; ZXController::write_7ffd; ZXController::read_internal
// @sym machine, latch, witness byte value, witness ROM page (both) x offset in {0, 0x056B, 0x3FFE, 0x3FFF} chosen symbolically but stored at concrete indices, read address fully symbolic
// @assert 0x0000-0x3FFF reads the byte of the ROM image selected by bit 4 of the last accepted paging value at the same offset (48K: the only ROM), for the witness byte and (zero image) every other one
// @bound one witness byte per query; the page copy loop of load_rom itself is covered in C15
// @stub ZXScreen::process_clocks -> no-op
// @replay solver-only
#[kani::proof]
#[kani::stub(crate::zx::video::screen::ZXScreen::process_clocks, noop_screen_clocks)]
fn c06_rom_window() {
    let (mut c, latch, _t) = any_controller_at(false, false);
    let m = c.machine;
    // witness position: ROM page enumerated, offset from the concrete class (a symbolic store through
    // the page slice does not terminate in CBMC); the read address below stays fully symbolic
    let page: u8 = if kani::any() && m == ZXMachine::Sinclair128K { 1 } else { 0 };
    let off: usize = match kani::any::<u8>() & 3 {
        0 => 0,
        1 => 0x056B,
        2 => 0x3FFE,
        _ => 0x3FFF,
    };
    let v: u8 = kani::any();
    kani::assume(v != 0);
    if page == 0 {
        match off {
            0 => c.memory.rom_page_data_mut(0)[0] = v,
            0x056B => c.memory.rom_page_data_mut(0)[0x056B] = v,
            0x3FFE => c.memory.rom_page_data_mut(0)[0x3FFE] = v,
            _ => c.memory.rom_page_data_mut(0)[0x3FFF] = v,
        }
    } else {
        match off {
            0 => c.memory.rom_page_data_mut(1)[0] = v,
            0x056B => c.memory.rom_page_data_mut(1)[0x056B] = v,
            0x3FFE => c.memory.rom_page_data_mut(1)[0x3FFE] = v,
            _ => c.memory.rom_page_data_mut(1)[0x3FFF] = v,
        }
    }
    let a: u16 = kani::any();
    kani::assume(a < 0x4000);
    let got = c.read(a, 3);
    let sel = match latch.page(m, 0) {
        Page::Rom(r) => r,
        Page::Ram(_) => 0xFF,
    };
    kani::assert(sel != 0xFF, "c06.rom.window0_is_rom");
    let want = if sel == page && a as usize == off { v } else { 0 };
    kani::assert(got == want, "c06.rom.reads_selected_image");
    kani::cover!(sel == 1 && page == 1 && got == v, "ROM 1 selected and read");
    kani::cover!(sel == 0 && page == 1 && a as usize == off, "witness in the unselected ROM is invisible");
}

// =============================================================================================
// C07 — port decoding and floating bus
// =============================================================================================

/// Which devices a port address selects under the partial decoding of the C07 statement.
#[derive(Clone, Copy)]
pub(crate) struct Sel {
    pub ext: bool,
    pub ula: bool,
    pub page: bool,
    pub ay_sel: bool,
    pub ay_data: bool,
    pub kemp: bool,
    pub mouse_b: bool,
    pub mouse_x: bool,
    pub mouse_y: bool,
    pub mouse_unspecified: bool,
}

impl Sel {
    /// devices other than the host extender
    pub fn count(&self) -> u8 {
        self.ula as u8
            + self.page as u8
            + self.ay_sel as u8
            + self.ay_data as u8
            + self.kemp as u8
            + (self.mouse_b || self.mouse_x || self.mouse_y || self.mouse_unspecified) as u8
    }
}

pub(crate) fn spec_select(m: ZXMachine, port: u16, kemp_on: bool, mouse_on: bool, ext: Option<(u16, u16)>) -> Sel {
    let a = |n: u16| port & (1 << n) != 0;
    // Kempston mouse: low byte of the 0xDF style (A5 = 0, odd); buttons/X/Y by (A8, A10) = (0,0)/(1,0)/(1,1)
    let mouse_style = mouse_on && !a(5) && a(0);
    Sel {
        ext: match ext {
            Some((mask, val)) => port & mask == val,
            None => false,
        },
        ula: !a(0),
        page: m == ZXMachine::Sinclair128K && !a(15) && !a(1),
        ay_sel: a(15) && a(14) && !a(1),
        ay_data: a(15) && !a(14) && !a(1),
        kemp: kemp_on && port & 0x00E0 == 0,
        mouse_b: mouse_style && !a(8) && !a(10),
        mouse_x: mouse_style && a(8) && !a(10),
        mouse_y: mouse_style && a(8) && a(10),
        mouse_unspecified: mouse_style && !a(8) && a(10),
    }
}

/// Symbolic device configuration on top of `any_controller_at`.
pub(crate) struct Cfg {
    pub kemp_on: bool,
    pub mouse_on: bool,
    pub ext: Option<(u16, u16)>,
    pub kemp_state: u8,
    pub mouse: (u8, u8, u8),
    pub ext_answer: u8,
}

pub(crate) fn any_devices(c: &mut ZXController<VHost>) -> Cfg {
    let kemp_on = c.kempston.is_some();
    let mouse_on = c.mouse.is_some();
    let kemp_state: u8 = kani::any();
    if let Some(k) = &mut c.kempston {
        crate::zx::joy::kempston::verif_hooks::set_state(k, kemp_state);
    }
    let mouse: (u8, u8, u8) = (kani::any(), kani::any(), kani::any());
    if let Some(ms) = &mut c.mouse {
        ms.buttons_port = mouse.0;
        ms.x_pos_port = mouse.1;
        ms.y_pos_port = mouse.2;
    }
    let ext_answer: u8 = kani::any();
    let ext = if kani::any() {
        let (mask, val): (u16, u16) = (kani::any(), kani::any());
        kani::assume(val & !mask == 0);
        c.io_extender = Some(crate::verif_hooks::VExt { mask, val, answer: ext_answer, reads: 0, writes: 0, last_port: 0, last_data: 0 });
        Some((mask, val))
    } else {
        None
    };
    let mut r = 0;
    while r < 8 {
        let (k, e, s): (u8, u8, u8) = (kani::any(), kani::any(), kani::any());
        // representation invariant of the three matrices (preserved by every event: C17): bits 5-7 set
        c.keyboard[r] = k | 0xE0;
        c.keyboard_extended[r] = e | 0xE0;
        c.keyboard_sinclair[r] = s | 0xE0;
        r += 1;
    }
    Cfg { kemp_on, mouse_on, ext, kemp_state, mouse, ext_answer }
}

fn write_decode_body(m: ZXMachine) {
    let kemp: bool = kani::any();
    let mouse: bool = kani::any();
    let (mut c, latch, _t) = controller_at_machine(m, kemp, mouse);
    let cfg = any_devices(&mut c);
    let port: u16 = kani::any();
    let data: u8 = kani::any();
    let sel = spec_select(m, port, cfg.kemp_on, cfg.mouse_on, cfg.ext);
    kani::assume(sel.count() <= 1);
    let border0: u8 = c.border_color.into();
    c.write_io(port, data);
    let mut want_latch = latch;
    if sel.page {
        want_latch.write(m, data);
    }
    let border1: u8 = c.border_color.into();
    // a port claimed by the extender AND decoded by a built-in device selects two devices: only the
    // extender's side is asserted then
    if !(sel.ext && sel.count() == 1) {
        kani::assert(border1 == if sel.ula { data & 7 } else { border0 }, "c07.write.border_only_from_ula_port");
        if m == ZXMachine::Sinclair128K {
            kani::assert(c.read_7ffd() == want_latch.val && c.paging_enabled == !want_latch.locked, "c07.write.latch_only_from_paging_port");
        }
        kani::assert(page_eq(c.memory.get_bank_type(3), want_latch.page(m, 3)) && page_eq(c.memory.get_bank_type(0), want_latch.page(m, 0)), "c07.write.map_follows_latch");
    }
    if let Some(e) = &c.io_extender {
        kani::assert(e.reads == 0, "c07.write.extender_not_read");
        if sel.ext {
            kani::assert(e.writes == 1 && e.last_port == port && e.last_data == data, "c07.write.extender_gets_its_port");
        } else {
            kani::assert(e.writes == 0, "c07.write.extender_gets_only_its_ports");
        }
    }
    if let Some(k) = &c.kempston {
        kani::assert(k.read() == cfg.kemp_state, "c07.write.joystick_untouched");
    }
    if let Some(ms) = &c.mouse {
        kani::assert((ms.buttons_port, ms.x_pos_port, ms.y_pos_port) == cfg.mouse, "c07.write.mouse_untouched");
    }
    kani::cover!(sel.ext && sel.count() == 0, "extender claims a port no built-in device decodes");
    kani::cover!(sel.ext && sel.ula, "extender claims an even port");
    kani::cover!(m == ZXMachine::Sinclair48K || (sel.page && !sel.ext && want_latch.val != latch.val), "paging write");
    kani::cover!(sel.ula && !sel.ext && border1 != border0, "border write");
    kani::cover!(sel.count() == 0 && !sel.ext, "no device");
}

// @harness
// @prop C07 C09
// @tier quick
// @timeout 900
// @fn ZXController::write_io; ZXController::set_border_color; ZXController::write_7ffd; ZXController::write_ay_port; ZXController::select_ay_reg; IoExtender dispatch
// @sym 48K machine (literal), latch, frame time, 16-bit port, data, Kempston joystick/mouse present or not with arbitrary state, extender present or not claiming (port & mask) == val for symbolic mask/val, keyboard matrices
// @assert for every port selecting at most one device: an even port sets the border to data&7 and nothing else; a 128K paging port updates the latch per C06 and nothing else; an extender port reaches the extender exactly once with (port, data) and nothing else; ports of read-only or absent devices change nothing
// @assume the port selects at most one built-in device (statement: "selects exactly one device"); when the extender also claims it only the extender side is asserted (statement: the extender "receives exactly the ports it claims")
// @bound one port write per query; AY register effects are in c07_ay_ports (feature ay)
// @stub ZXScreen::process_clocks -> no-op
// @replay solver-only
#[kani::proof]
#[kani::unwind(10)]
#[kani::stub(crate::zx::video::screen::ZXScreen::process_clocks, noop_screen_clocks)]
fn c07_write_reaches_one_device_48k() {
    write_decode_body(ZXMachine::Sinclair48K);
}

// @harness
// @prop C07 C06
// @tier quick
// @timeout 900
// @fn ZXController::write_io; ZXController::set_border_color; ZXController::write_7ffd; ZXController::write_ay_port; ZXController::select_ay_reg; IoExtender dispatch
// @sym 128K machine (literal), latch, frame time, 16-bit port, data, Kempston joystick/mouse present or not with arbitrary state, extender present or not claiming (port & mask) == val for symbolic mask/val, keyboard matrices
// @assert for every port selecting at most one device: an even port sets the border to data&7 and nothing else; a 128K paging port updates the latch per C06 and nothing else; an extender port reaches the extender exactly once with (port, data) and nothing else; ports of read-only or absent devices change nothing
// @assume the port selects at most one built-in device (statement: "selects exactly one device"); when the extender also claims it only the extender side is asserted (statement: the extender "receives exactly the ports it claims")
// @bound one port write per query; AY register effects are in c07_ay_ports (feature ay)
// @stub ZXScreen::process_clocks -> no-op
// @replay solver-only
#[kani::proof]
#[kani::unwind(10)]
#[kani::stub(crate::zx::video::screen::ZXScreen::process_clocks, noop_screen_clocks)]
fn c07_write_reaches_one_device_128k() {
    write_decode_body(ZXMachine::Sinclair128K);
}

/// floating-bus helper: (line, 8T-cell) being fetched at frame time tau, or None-like flags
fn fetch_pos(m: ZXMachine, tau: isize) -> (bool, usize, usize) {
    let (fp, line) = match m {
        ZXMachine::Sinclair48K => (14336isize, 224isize),
        ZXMachine::Sinclair128K => (14362isize, 228isize),
    };
    let d = tau - fp;
    if d < 0 {
        return (false, 0, 0);
    }
    let l = d / line;
    let x = d % line;
    if l >= 192 || x >= 128 {
        return (false, l as usize, 16);
    }
    (true, l as usize, (x / 8) as usize)
}

fn read_decode_body(m: ZXMachine, with_tape: bool) {
    let kemp: bool = kani::any();
    let mouse: bool = kani::any();
    let (mut c, latch, t) = controller_at_machine(m, kemp, mouse);
    let cfg = any_devices(&mut c);
    // tape deck: empty, or a loaded (stopped) tape with an arbitrary EAR level
    let ear: bool = kani::any();
    if with_tape {
        c.tape = crate::zx::tape::verif_hooks_tap::stopped_tape_with_level(ear).into();
    } else {
        kani::assume(!ear);
    }
    let port: u16 = kani::any();
    let sel = spec_select(m, port, cfg.kemp_on, cfg.mouse_on, cfg.ext);
    kani::assume(sel.count() <= 1 && !sel.ay_sel && !sel.ay_data && !sel.mouse_unspecified);
    let border0: u8 = c.border_color.into();
    let got = c.read_io(port);
    let te = t + elapsed(&c, t);
    // device state untouched by reads
    let border1: u8 = c.border_color.into();
    kani::assert(border1 == border0, "c07.read.border_untouched");
    if m == ZXMachine::Sinclair128K {
        kani::assert(c.read_7ffd() == latch.val && c.paging_enabled == !latch.locked, "c07.read.latch_untouched");
    }
    if let Some(e) = &c.io_extender {
        kani::assert(e.writes == 0, "c07.read.extender_not_written");
        kani::assert(e.reads == if sel.ext { 1 } else { 0 }, "c07.read.extender_gets_only_its_ports");
    }
    if sel.ext {
        kani::assert(got == cfg.ext_answer, "c07.read.extender_answers_its_port");
    } else if sel.ula {
        let h = (port >> 8) as u8;
        let mut want = 0xFFu8;
        let mut n = 0;
        while n < 8 {
            if (h >> n) & 1 == 0 {
                want &= c.keyboard[n] & c.keyboard_extended[n] & c.keyboard_sinclair[n];
            }
            n += 1;
        }
        // bit 6 = tape EAR level (low for the empty deck); bits 5 and 7 read 1
        kani::assert(got == (want & 0x1F) | 0xA0 | if ear { 0x40 } else { 0 }, "c07.read.ula_keyboard_and_ear");
    } else if sel.kemp {
        kani::assert(got == cfg.kemp_state, "c07.read.kempston");
    } else if sel.mouse_b {
        kani::assert(got == cfg.mouse.0, "c07.read.mouse_buttons");
    } else if sel.mouse_x {
        kani::assert(got == cfg.mouse.1, "c07.read.mouse_x");
    } else if sel.mouse_y {
        kani::assert(got == cfg.mouse.2, "c07.read.mouse_y");
    } else {
        // unclaimed port: the floating bus; with all-zero RAM it can only show 0xFF or 0x00 here - the
        // fetch-window and bank rules are checked with a witness byte in c07_floating_bus_*
        kani::assert(got == 0xFF || got == 0, "c07.float.only_ff_or_display_bytes");
    }
    kani::cover!(sel.ula && got & 0x1F != 0x1F, "key held on a selected row");
    kani::cover!(!with_tape || (sel.ula && !sel.ext && got & 0x40 != 0), "EAR high on bit 6");
    kani::cover!(sel.kemp, "kempston read");
    kani::cover!(sel.mouse_y, "mouse Y read");
    kani::cover!(sel.ext && port & 1 == 0, "extender answers an even port it claims");
    kani::cover!(m == ZXMachine::Sinclair48K || (sel.page && !sel.ext), "read from the paging port floats");
}

// @harness
// @prop C07 C17
// @tier quick
// @timeout 1200
// @fn ZXController::read_io; ZXController::floating_bus_value; KempstonJoy::read; TapeImpl::current_bit; bitmap_line_addr; ZXMemory::read
// @sym 48K machine (literal), latch, frame time, 16-bit port, device configuration as in c07_write_reaches_one_device, keyboard/extended/sinclair matrices (bits 5-7 set), one witness byte (position from a class of 5 display cells) in the normal screen bank, the shadow screen bank or a non-display bank
// @assert for every port selecting at most one device: extender ports return the extender's byte (read once); even ports return the AND of the half-rows selected by zero bits of A8-A15 over the three key sources, bit 6 = EAR, bits 5,7 = 1; Kempston port returns the joystick byte; mouse ports return buttons/X/Y; a port no device claims returns 0xFF when the whole cycle lies outside the picture fetch windows (+-4 T), otherwise 0xFF or a byte of display/attribute memory of the cells fetched during the cycle (+-4 T), taken from the bank the ULA is displaying (bank 7 while latch bit 3 is set) and from no other RAM; reads change no device state
// @assume at most one device selected; AY ports are excluded in this build (no AY compiled in; see c07_ay_ports); (A8,A10)=(0,1) mouse-style addresses are excluded (statement names only the FADF/FBDF/FFDF forms); tape deck empty (EAR low)
// @bound one port read per query
// @stub ZXScreen::process_clocks -> no-op
// @replay solver-only
#[kani::proof]
#[kani::unwind(10)]
#[kani::stub(crate::zx::video::screen::ZXScreen::process_clocks, noop_screen_clocks)]
fn c07_read_comes_from_one_device_48k() {
    read_decode_body(ZXMachine::Sinclair48K, false);
}

// @harness
// @prop C07
// @tier quick
// @timeout 1200
// @fn ZXController::read_io; ZXController::floating_bus_value; KempstonJoy::read; TapeImpl::current_bit; bitmap_line_addr; ZXMemory::read
// @sym 128K machine (literal), latch, frame time, 16-bit port, device configuration as in c07_write_reaches_one_device, keyboard/extended/sinclair matrices (bits 5-7 set), one witness byte (position from a class of 5 display cells) in the normal screen bank, the shadow screen bank or a non-display bank
// @assert for every port selecting at most one device: extender ports return the extender's byte (read once); even ports return the AND of the half-rows selected by zero bits of A8-A15 over the three key sources, bit 6 = EAR, bits 5,7 = 1; Kempston port returns the joystick byte; mouse ports return buttons/X/Y; a port no device claims returns 0xFF when the whole cycle lies outside the picture fetch windows (+-4 T), otherwise 0xFF or a byte of display/attribute memory of the cells fetched during the cycle (+-4 T), taken from the bank the ULA is displaying (bank 7 while latch bit 3 is set) and from no other RAM; reads change no device state
// @assume at most one device selected; AY ports are excluded in this build (no AY compiled in; see c07_ay_ports); (A8,A10)=(0,1) mouse-style addresses are excluded (statement names only the FADF/FBDF/FFDF forms); tape deck empty (EAR low)
// @bound one port read per query
// @stub ZXScreen::process_clocks -> no-op
// @replay solver-only
#[kani::proof]
#[kani::unwind(10)]
#[kani::stub(crate::zx::video::screen::ZXScreen::process_clocks, noop_screen_clocks)]
fn c07_read_comes_from_one_device_128k() {
    read_decode_body(ZXMachine::Sinclair128K, false);
}

// @harness
// @prop C07
// @tier quick
// @timeout 1200
// @fn ZXController::read_io; ZXController::floating_bus_value; KempstonJoy::read; TapeImpl::current_bit; bitmap_line_addr; ZXMemory::read
// @sym 48K machine (literal), latch, frame time, 16-bit port, device configuration as in c07_write_reaches_one_device, keyboard/extended/sinclair matrices (bits 5-7 set), one witness byte (position from a class of 5 display cells) in the normal screen bank, the shadow screen bank or a non-display bank
// @assert for every port selecting at most one device: extender ports return the extender's byte (read once); even ports return the AND of the half-rows selected by zero bits of A8-A15 over the three key sources, bit 6 = EAR, bits 5,7 = 1; Kempston port returns the joystick byte; mouse ports return buttons/X/Y; a port no device claims returns 0xFF when the whole cycle lies outside the picture fetch windows (+-4 T), otherwise 0xFF or a byte of display/attribute memory of the cells fetched during the cycle (+-4 T), taken from the bank the ULA is displaying (bank 7 while latch bit 3 is set) and from no other RAM; reads change no device state
// @assume at most one device selected; AY ports are excluded in this build (no AY compiled in; see c07_ay_ports); (A8,A10)=(0,1) mouse-style addresses are excluded (statement names only the FADF/FBDF/FFDF forms); a tape is loaded (stopped) with an arbitrary EAR level
// @bound one port read per query
// @stub ZXScreen::process_clocks -> no-op
// @replay solver-only
#[kani::proof]
#[kani::unwind(10)]
#[kani::stub(crate::zx::video::screen::ZXScreen::process_clocks, noop_screen_clocks)]
fn c07_read_with_tape_loaded() {
    read_decode_body(ZXMachine::Sinclair48K, true);
}


/// floating-bus check with a witness byte in a literal bank class: 0 = the normal screen, 1 = the shadow
/// screen (128K bank 7), 2 = RAM that is never display memory
fn floating_bus_body(m: ZXMachine, shadow_displayed: bool) {
    let (mut c, latch, t) = controller_at_machine(m, false, false);
    // which screen the ULA displays is literal per harness (re-assigning the field to the value it is
    // assumed to hold keeps the page base address in floating_bus_value a constant for the solver)
    if shadow_displayed {
        kani::assume(m == ZXMachine::Sinclair128K && latch.val & 0x08 != 0);
        kani::assert(c.screen_bank == 7, "c07.float.shadow_screen_selected_by_latch_bit3");
        c.screen_bank = 7;
    } else if m == ZXMachine::Sinclair128K {
        kani::assume(latch.val & 0x08 == 0);
        kani::assert(c.screen_bank == 5, "c07.float.normal_screen_selected");
        c.screen_bank = 5;
    } else {
        kani::assert(c.screen_bank == 0, "c07.float.48k_screen");
        c.screen_bank = 0;
    }
    // witness bank class: 0 = the normal screen bank, 1 = the shadow screen bank, 2 = never display memory
    let bank_class: u8 = kani::any();
    kani::assume(bank_class < 3 && (bank_class != 1 || m == ZXMachine::Sinclair128K));
    let v: u8 = kani::any();
    kani::assume(v != 0 && v != 0xFF);
    let wsel: u8 = kani::any();
    kani::assume(wsel < 5);
    // (is_attr, line or attr row, column)
    let (w_attr, w_line, w_col): (bool, usize, usize) = match wsel {
        0 => (false, 0, 0),
        1 => (false, 100, 17), // offset 0x0C80 + 17: line 100 = 0b01100100 -> 0x0800 | 0x0400 | 0x0080
        2 => (false, 191, 31),
        3 => (true, 12, 17),
        _ => (true, 23, 31),
    };
    let w_bank: u8 = match (m, bank_class) {
        (ZXMachine::Sinclair48K, 0) => 0,
        (ZXMachine::Sinclair48K, _) => 1,
        (_, 0) => 5,
        (_, 1) => 7,
        (_, _) => 3,
    };
    // literal bank and offset in every store
    match (w_bank, wsel) {
        (0, 0) => c.memory.ram_page_data_mut(0)[0x0000] = v,
        (0, 1) => c.memory.ram_page_data_mut(0)[0x0C80 + 17] = v,
        (0, 2) => c.memory.ram_page_data_mut(0)[0x17FF] = v,
        (0, 3) => c.memory.ram_page_data_mut(0)[0x1800 + 12 * 32 + 17] = v,
        (0, 4) => c.memory.ram_page_data_mut(0)[0x1AFF] = v,
        (1, 0) => c.memory.ram_page_data_mut(1)[0x0000] = v,
        (1, 1) => c.memory.ram_page_data_mut(1)[0x0C80 + 17] = v,
        (1, 2) => c.memory.ram_page_data_mut(1)[0x17FF] = v,
        (1, 3) => c.memory.ram_page_data_mut(1)[0x1800 + 12 * 32 + 17] = v,
        (1, 4) => c.memory.ram_page_data_mut(1)[0x1AFF] = v,
        (3, 0) => c.memory.ram_page_data_mut(3)[0x0000] = v,
        (3, 1) => c.memory.ram_page_data_mut(3)[0x0C80 + 17] = v,
        (3, 2) => c.memory.ram_page_data_mut(3)[0x17FF] = v,
        (3, 3) => c.memory.ram_page_data_mut(3)[0x1800 + 12 * 32 + 17] = v,
        (3, 4) => c.memory.ram_page_data_mut(3)[0x1AFF] = v,
        (5, 0) => c.memory.ram_page_data_mut(5)[0x0000] = v,
        (5, 1) => c.memory.ram_page_data_mut(5)[0x0C80 + 17] = v,
        (5, 2) => c.memory.ram_page_data_mut(5)[0x17FF] = v,
        (5, 3) => c.memory.ram_page_data_mut(5)[0x1800 + 12 * 32 + 17] = v,
        (5, 4) => c.memory.ram_page_data_mut(5)[0x1AFF] = v,
        (7, 0) => c.memory.ram_page_data_mut(7)[0x0000] = v,
        (7, 1) => c.memory.ram_page_data_mut(7)[0x0C80 + 17] = v,
        (7, 2) => c.memory.ram_page_data_mut(7)[0x17FF] = v,
        (7, 3) => c.memory.ram_page_data_mut(7)[0x1800 + 12 * 32 + 17] = v,
        (7, 4) => c.memory.ram_page_data_mut(7)[0x1AFF] = v,
        _ => {}
    }
    let shown_bank: u8 = match m {
        ZXMachine::Sinclair48K => 0,
        ZXMachine::Sinclair128K => {
            if latch.val & 0x08 != 0 {
                7
            } else {
                5
            }
        }
    };
    let port: u16 = kani::any();
    // a port no device claims: odd, not the paging latch ... reads of the latch port float too, but keep to
    // the unambiguous ones: A0 = 1 and not an AY address (no AY in this build, excluded for symmetry)
    let sel = spec_select(m, port, false, false, None);
    kani::assume(!sel.ula && !sel.ay_sel && !sel.ay_data);
    let got = c.read_io(port);
    let te = t + elapsed(&c, t);
    {
        // floating bus
        let (in_lo, l_lo, c_lo) = fetch_pos(m, t as isize - 4);
        let (in_hi, l_hi, c_hi) = fetch_pos(m, te as isize + 4);
        let same_gap = !in_lo && !in_hi && (te + 4 - t + 4) < 96 && (l_lo == l_hi || (t as isize - 4) < 14336);
        if same_gap {
            kani::assert(got == 0xFF, "c07.float.idle_bus_reads_ff");
        }
        kani::assert(got == 0xFF || got == 0 || got == v, "c07.float.only_ff_or_display_bytes");
        if got == v {
            // only memory the ULA is displaying can appear on the bus
            kani::assert(w_bank == shown_bank, "c07.float.byte_comes_from_the_displayed_screen_bank");
            // the witness must belong to a cell fetched between t-4 and te+4
            let wl_lo = if w_attr { w_line * 8 } else { w_line };
            let wl_hi = if w_attr { w_line * 8 + 7 } else { w_line };
            let wcell = w_col / 2;
            let after_lo = (l_lo < wl_hi) || (l_lo <= wl_hi && c_lo <= wcell);
            let before_hi = (l_hi > wl_lo) || (l_hi >= wl_lo && c_hi >= wcell);
            kani::assert((in_lo || in_hi) && after_lo && before_hi, "c07.float.byte_is_the_one_being_fetched");
        }
        kani::cover!(got == v && w_attr, "attribute byte seen on the floating bus");
        kani::cover!(!shadow_displayed || (got == v && w_bank == 7), "shadow-screen byte seen on the floating bus");
        kani::cover!(got == v && !w_attr && wsel == 1, "bitmap byte seen on the floating bus");
        kani::cover!(same_gap && t > 20000, "idle bus inside the picture area (right border / retrace)");
    }
    
    kani::cover!(got == 0xFF && t > 20000, "0xFF read");
}

// @harness
// @prop C07
// @tier quick
// @timeout 1500
// @fn ZXController::read_io (unclaimed port); ZXController::floating_bus_value; bitmap_line_addr; ZXMemory::ram_page_data
// @sym 48K machine; latch otherwise symbolic (any bank at 0xC000, lock, ROM), frame time, unclaimed odd port, one witness byte (cell from a class of 5 bitmap/attribute positions) in the normal screen bank, the shadow screen bank or a RAM bank that is never display memory
// @assert a read from a port no device claims returns 0xFF when the whole cycle lies outside the picture fetch windows (+-4 T); otherwise 0xFF or a byte of the display file/attributes of the cells being fetched during the cycle (+-4 T), taken from the bank the ULA is displaying (bank 7 while latch bit 3 is set) and from no other RAM bank, whatever is paged at 0xC000
// @bound one port read; witness positions {(0,0), (100,17), (191,31)} bitmap, {(12,17), (23,31)} attributes
// @stub ZXScreen::process_clocks -> no-op
// @replay solver-only
#[kani::proof]
#[kani::unwind(10)]
#[kani::stub(crate::zx::video::screen::ZXScreen::process_clocks, noop_screen_clocks)]
fn c07_floating_bus_48k() {
    floating_bus_body(ZXMachine::Sinclair48K, false);
}

// @harness
// @prop C07
// @tier thorough
// @timeout 3000
// @fn ZXController::read_io (unclaimed port); ZXController::floating_bus_value; bitmap_line_addr; ZXMemory::ram_page_data
// @sym 128K with latch bit 3 clear (normal screen displayed); latch otherwise symbolic (any bank at 0xC000, lock, ROM), frame time, unclaimed odd port, one witness byte (cell from a class of 5 bitmap/attribute positions) in the normal screen bank, the shadow screen bank or a RAM bank that is never display memory
// @assert a read from a port no device claims returns 0xFF when the whole cycle lies outside the picture fetch windows (+-4 T); otherwise 0xFF or a byte of the display file/attributes of the cells being fetched during the cycle (+-4 T), taken from the bank the ULA is displaying (bank 7 while latch bit 3 is set) and from no other RAM bank, whatever is paged at 0xC000
// @bound one port read; witness positions {(0,0), (100,17), (191,31)} bitmap, {(12,17), (23,31)} attributes
// @stub ZXScreen::process_clocks -> no-op
// @replay solver-only
#[kani::proof]
#[kani::unwind(10)]
#[kani::stub(crate::zx::video::screen::ZXScreen::process_clocks, noop_screen_clocks)]
fn c07_floating_bus_normal_screen() {
    floating_bus_body(ZXMachine::Sinclair128K, false);
}

// @harness
// @prop C07
// @tier thorough
// @timeout 3000
// @fn ZXController::read_io (unclaimed port); ZXController::floating_bus_value; bitmap_line_addr; ZXMemory::ram_page_data
// @sym 128K with latch bit 3 set (shadow screen displayed); latch otherwise symbolic (any bank at 0xC000, lock, ROM), frame time, unclaimed odd port, one witness byte (cell from a class of 5 bitmap/attribute positions) in the normal screen bank, the shadow screen bank or a RAM bank that is never display memory
// @assert a read from a port no device claims returns 0xFF when the whole cycle lies outside the picture fetch windows (+-4 T); otherwise 0xFF or a byte of the display file/attributes of the cells being fetched during the cycle (+-4 T), taken from the bank the ULA is displaying (bank 7 while latch bit 3 is set) and from no other RAM bank, whatever is paged at 0xC000
// @bound one port read; witness positions {(0,0), (100,17), (191,31)} bitmap, {(12,17), (23,31)} attributes
// @stub ZXScreen::process_clocks -> no-op
// @replay solver-only
#[kani::proof]
#[kani::unwind(10)]
#[kani::stub(crate::zx::video::screen::ZXScreen::process_clocks, noop_screen_clocks)]
fn c07_floating_bus_shadow_screen() {
    floating_bus_body(ZXMachine::Sinclair128K, true);
}

// @harness
// @prop C07
// @tier quick
// @timeout 600
// @fn ZXController::floating_bus_value; ZXController::write_7ffd; ZXMemory::ram_page_data; bitmap_line_addr
// @sym 128K paging latch (two symbolic writes: every bank at 0xC000, either screen, lock, ROM), witness byte value and the bank holding it (5, 7 or 3) at the display-file offset of line 100, column 17
// @assert at the literal frame time at which the ULA fetches that display byte, the floating bus shows the witness exactly when it lies in the bank being DISPLAYED (5, or 7 while latch bit 3 is set) - never a byte of bank 5 while the shadow screen is shown, never a byte of whatever bank is paged at 0xC000
// @bound one literal beam position (T = 14362+2 + 100*228 + 66); all latch states; the position arithmetic for all beam positions is c07_floating_bus_48k (quick) and the two thorough 128K harnesses
#[kani::proof]
#[kani::unwind(10)]
fn c07_floating_bus_bank_selection() {
    let (mut c, latch, _t) = controller_at_machine(ZXMachine::Sinclair128K, false, false);
    let v: u8 = kani::any();
    kani::assume(v != 0 && v != 0xFF);
    let cls: u8 = kani::any();
    kani::assume(cls < 3);
    let w_bank: u8 = match cls {
        0 => {
            c.memory.ram_page_data_mut(5)[0x0C80 + 17] = v;
            5
        }
        1 => {
            c.memory.ram_page_data_mut(7)[0x0C80 + 17] = v;
            7
        }
        _ => {
            c.memory.ram_page_data_mut(3)[0x0C80 + 17] = v;
            3
        }
    };
    let shown: u8 = if latch.val & 0x08 != 0 { 7 } else { 5 };
    c.frame_clocks = 14362 + 2 + 100 * 228 + 66;
    let got = c.floating_bus_value();
    kani::assert(got == if w_bank == shown { v } else { 0 }, "c07.float.byte_comes_from_the_displayed_screen_bank");
    kani::cover!(shown == 7 && w_bank == 7 && latch.val & 7 == 3, "shadow screen shown while bank 3 is paged at 0xC000");
    kani::cover!(shown == 5 && w_bank == 7, "shadow bank not shown");
}

// =============================================================================================
// C08 — every way of writing screen memory reaches the display copy
// =============================================================================================
use crate::utils::screen::verif_hooks::{spec_attr_offset, spec_bitmap_offset};
use crate::zx::video::screen::verif_hooks as sh;

pub(crate) fn noop_memory_write(_m: &mut ZXMemory, _addr: u16, _value: u8) {}

/// local display bank (0 = bank 5 / 48K screen, 1 = bank 7) of a Spectrum RAM bank, per the C08 statement
pub(crate) fn spec_display_bank(m: ZXMachine, bank: u8) -> Option<usize> {
    match (m, bank) {
        (ZXMachine::Sinclair48K, 0) => Some(0),
        (ZXMachine::Sinclair128K, 5) => Some(0),
        (ZXMachine::Sinclair128K, 7) => Some(1),
        _ => None,
    }
}

// @harness
// @prop C08
// @tier quick
// @timeout 900
// @fn Z80Bus::write (default) -> ZXController::write_internal; ZXMemory::get_page; ZXScreen::update; ZXController::write_7ffd -> ZXScreen::switch_bank
// @sym machine, paging latch (two symbolic writes), CPU write address (all 65536), data, probe cell (bank, y, column)
// @assert a CPU write through ANY window reaches the display copy of the bank it lands in (bank 5 at 0x4000, and bank 5 or 7 paged at 0xC000; 48K 0x4000) at the cell given by the statement's offset formula, and no other cell; the bank shown is 7 exactly while bit 3 of the latch is set
// @bound one write; the RAM array store itself is cut (ZXMemory::write stubbed) because CBMC cannot afford a 128K array store at a symbolic address - RAM content after a write is C06's subject
// @stub ZXMemory::write -> no-op; ZXScreen::process_clocks -> no-op
// @replay solver-only
#[kani::proof]
#[kani::unwind(10)]
#[kani::stub(crate::zx::video::screen::ZXScreen::process_clocks, noop_screen_clocks)]
#[kani::stub(crate::zx::memory::ZXMemory::write, noop_memory_write)]
fn c08_cpu_write_reaches_display_copy() {
    let (mut c, latch, _t) = any_controller_at(false, false);
    let m = c.machine;
    let want_shown = if m == ZXMachine::Sinclair128K && latch.val & 0x08 != 0 { 1 } else { 0 };
    kani::assert(sh::active_local_bank(&c.screen) == want_shown, "c08.bank.shadow_screen_iff_latch_bit3");
    let addr: u16 = kani::any();
    let d: u8 = kani::any();
    kani::assume(d != 0);
    c.write(addr, d, 3);
    let landed = match latch.page(m, (addr >> 14) as usize) {
        Page::Ram(b) => spec_display_bank(m, b),
        Page::Rom(_) => None,
    };
    let off = (addr & 0x3FFF) as usize;
    let (pl, py, pc): (usize, usize, usize) = (kani::any(), kani::any(), kani::any());
    kani::assume(pl < 2 && py < 192 && pc < 32);
    let hit_bitmap = landed == Some(pl) && off == spec_bitmap_offset(py, pc);
    let hit_attr = landed == Some(pl) && off == spec_attr_offset(py, pc);
    kani::assert(sh::shadow_bitmap(&c.screen, pl, py, pc) == if hit_bitmap { d } else { 0 }, "c08.cpu_write.bitmap_cell");
    kani::assert(sh::shadow_attr(&c.screen, pl, py >> 3, pc) == if hit_attr { d } else { 0 }, "c08.cpu_write.attribute_cell");
    kani::cover!(hit_bitmap && pl == 1 && addr >= 0xC000, "bank 7 written through 0xC000");
    kani::cover!(hit_attr && pl == 0 && addr >= 0xC000, "bank 5 attribute written through 0xC000");
    kani::cover!(hit_bitmap && addr < 0x8000, "fixed screen window");
    kani::cover!(landed.is_none() && addr >= 0xC000, "other bank at 0xC000 is not display memory");
}

static mut RF_REL: u16 = 0;
static mut RF_BANK: usize = 0;
static mut RF_HITS: u32 = 0;
static mut RF_DATA: u8 = 0;
static mut RF_OTHER_NONZERO: bool = false;

/// replacement for ZXScreen::update inside the refresh loop: remembers what was passed for the witness cell
fn witness_screen_update<FB: crate::host::FrameBuffer>(_s: &mut ZXScreen<FB>, rel: u16, bank: usize, data: u8) {
    unsafe {
        if rel == RF_REL && bank == RF_BANK {
            RF_HITS += 1;
            RF_DATA = data;
        } else if data != 0 {
            RF_OTHER_NONZERO = true;
        }
    }
}

fn refresh_body() {
    let m = crate::emulator::verif_hooks::any_machine();
    let mut c = mk_controller(m, FbCtx { wx: 0, wy: 0 }, false, false);
    let d: u8 = kani::any();
    kani::assume(d != 0);
    let second: bool = kani::any();
    kani::assume(!second || m == ZXMachine::Sinclair128K);
    let bank: u8 = match (m, second) {
        (ZXMachine::Sinclair48K, _) => 0,
        (_, false) => 5,
        (_, true) => 7,
    };
    let sel: u8 = kani::any();
    kani::assume(sel < 6);
    let off: u16 = match sel {
        0 => 0,
        1 => 0x07FF,
        2 => 0x17FF,
        3 => 0x1800,
        4 => 0x1955,
        _ => 0x1AFF,
    };
    {
        let page = c.memory.ram_page_data_mut(bank);
        match sel {
            0 => page[0] = d,
            1 => page[0x07FF] = d,
            2 => page[0x17FF] = d,
            3 => page[0x1800] = d,
            4 => page[0x1955] = d,
            _ => page[0x1AFF] = d,
        }
    }
    unsafe {
        RF_REL = off;
        RF_BANK = bank as usize;
        RF_HITS = 0;
        RF_DATA = 0;
        RF_OTHER_NONZERO = false;
    }
    c.refresh_memory_dependent_devices();
    unsafe {
        kani::assert(RF_HITS == 1 && RF_DATA == d, "c08.refresh.witness_byte_forwarded_to_display_copy");
        kani::assert(!RF_OTHER_NONZERO, "c08.refresh.nothing_else_forwarded_as_nonzero");
    }
    kani::cover!(second && sel == 5, "bank 7 last attribute");
    kani::cover!(m == ZXMachine::Sinclair48K && sel == 2, "48K last bitmap byte");
}

// @harness
// @prop C08 C14
// @tier quick
// @timeout 900
// @fn ZXController::refresh_memory_dependent_devices (loop structure and bank pairing; page slices cut to their first 4 bytes)
// @sym machine, witness byte value, display bank (48K screen / bank 5 / bank 7), witness offset 0..3
// @assert the refresh after a snapshot / screen-file load forwards the bytes of each displayable RAM bank to the display copy of THAT bank at the same offset: the witness arrives exactly once as (offset, bank, value) and nothing else arrives non-zero
// @bound page slices shortened to 4 bytes by a stub so that the loops unroll in seconds; the full 16384-byte loops are outside the claim (a complete unrolling did not finish in 3000 s) c08_snapshot_refresh_copies_ram
// @stub ZXMemory::ram_page_data -> a 4-byte head per page held in a harness table (the witness byte sits in the head of its bank); ZXScreen::update -> witness recorder
// @replay solver-only
#[kani::proof]
#[kani::unwind(10)]
#[kani::stub(crate::zx::memory::ZXMemory::ram_page_data, crate::zx::memory::verif_hooks::ram_page_head)]
#[kani::stub(crate::zx::video::screen::ZXScreen::update, witness_screen_update)]
fn c08_snapshot_refresh_bank_pairing() {
    let m = crate::emulator::verif_hooks::any_machine();
    let mut c = mk_controller(m, FbCtx { wx: 0, wy: 0 }, false, false);
    let d: u8 = kani::any();
    kani::assume(d != 0);
    let second: bool = kani::any();
    kani::assume(!second || m == ZXMachine::Sinclair128K);
    let bank: u8 = match (m, second) {
        (ZXMachine::Sinclair48K, _) => 0,
        (_, false) => 5,
        (_, true) => 7,
    };
    let sel: u8 = kani::any();
    kani::assume(sel < 4);
    unsafe {
        crate::zx::memory::verif_hooks::PAGE_HEADS = [[0; 4]; 8];
        match sel {
            0 => crate::zx::memory::verif_hooks::PAGE_HEADS[bank as usize][0] = d,
            1 => crate::zx::memory::verif_hooks::PAGE_HEADS[bank as usize][1] = d,
            2 => crate::zx::memory::verif_hooks::PAGE_HEADS[bank as usize][2] = d,
            _ => crate::zx::memory::verif_hooks::PAGE_HEADS[bank as usize][3] = d,
        }
    }
    unsafe {
        RF_REL = sel as u16;
        RF_BANK = bank as usize;
        RF_HITS = 0;
        RF_DATA = 0;
        RF_OTHER_NONZERO = false;
    }
    c.refresh_memory_dependent_devices();
    unsafe {
        kani::assert(RF_HITS == 1 && RF_DATA == d, "c08.refresh.witness_byte_forwarded_to_display_copy");
        kani::assert(!RF_OTHER_NONZERO, "c08.refresh.nothing_else_forwarded_as_nonzero");
    }
    kani::cover!(second && sel == 3, "bank 7");
    kani::cover!(m == ZXMachine::Sinclair48K, "48K");
}

// (a thorough variant that unrolled the real 16384-iteration loops of refresh_memory_dependent_devices was
// removed: unwind 16386 did not finish symbolic execution in 3000 s; the loop length is outside the claim,
// see DESIGN section 12)

// =============================================================================================
// C11 / C07 - bit 6 of the ULA port is the tape's EAR level, whatever the program wrote to the port
// =============================================================================================
fn ear_input_case(m: ZXMachine) {
    let mut c = mk_controller(m, FbCtx { wx: 0, wy: 0 }, false, false);
    // literal frame time: port timing is C04's subject
    c.frame_clocks = 1000;
    let level: bool = kani::any();
    c.tape = crate::zx::tape::verif_hooks_tap::stopped_tape_with_level(level).into();
    // what the program did before: any value written to the ULA port (border, MIC bit 3, speaker bit 4)
    let (wh, data): (u8, u8) = (kani::any(), kani::any());
    c.write_io(u16::from_le_bytes([0xFE, wh]), data);
    let rh: u8 = kani::any();
    let got = c.read_io(u16::from_le_bytes([0xFE, rh]));
    kani::assert((got & 0x40 != 0) == level, "c11.ear.bit6_is_the_tape_level_whatever_was_written_to_the_port");
    kani::assert(got & 0xA0 == 0xA0, "c07.read.bits_5_and_7_set");
    kani::cover!(level && data & 0x18 == 0, "tape high, speaker and MIC outputs low");
    kani::cover!(!level && data & 0x10 != 0, "tape low, speaker output high");
}

// @harness
// @prop C11 C07
// @tier quick
// @timeout 900
// @fn ZXController::write_io -> write_fe; ZXController::read_io (ULA arm); ZXTape::current_bit
// @sym machine (literal per case), tape EAR level, the value last written to the ULA port (all 256: border, MIC, speaker bits) and both port high bytes
// @assert the EAR input the CPU reads on bit 6 of an even port is the tape's level and nothing else - in particular not the program's own speaker/MIC output bits - so the waveform the tape presents is the waveform the loader sees, whatever the CPU executed before ("tape EAR on bit 6"; "whatever instructions the CPU is executing")
// @bound one write followed by one read; frame time literal
// @stub ZXScreen::process_clocks -> no-op
// @replay solver-only
#[kani::proof]
#[kani::unwind(10)]
#[kani::stub(crate::zx::video::screen::ZXScreen::process_clocks, noop_screen_clocks)]
fn c11_ear_input_is_the_tape_level() {
    if kani::any() {
        ear_input_case(ZXMachine::Sinclair48K);
    } else {
        ear_input_case(ZXMachine::Sinclair128K);
    }
}

// =============================================================================================
// C11 - every T-state the machine spends reaches the tape
// =============================================================================================

// @harness
// @prop C11 C04
// @tier quick
// @timeout 900
// @fn ZXController::wait_mreq; ZXController::wait_no_mreq; ZXController::wait_internal; ZXController::do_contention; Z80Bus::read/write (defaults); Z80Bus::wait_loop (default); Tap::process_clocks (countdown)
// @sym machine, latch, frame time, address, cycle flavour (mreq / no-mreq: the two primitives all bus cycles are composed of), cycle length 1..4
// @assert a playing tape in the middle of a pulse sees exactly the T-states the machine spent in the bus cycle - cycle length PLUS every ULA contention delay: pulse time left afterwards == time left before - elapsed frame time (so contention can never stretch a pulse beyond the step granularity)
// @bound one bus cycle; tape 5000 T-states away from its next edge
// @stub ZXScreen::process_clocks -> no-op
// @replay solver-only
#[kani::proof]
#[kani::unwind(10)]
#[kani::stub(crate::zx::video::screen::ZXScreen::process_clocks, noop_screen_clocks)]
fn c11_every_bus_wait_reaches_the_tape() {
    let (mut c, _latch, t) = any_controller_at(false, false);
    c.tape = crate::zx::tape::verif_hooks_tap::playing_tape_with_delay(5000).into();
    let addr: u16 = kani::any();
    let clk: usize = kani::any();
    kani::assume(clk >= 1 && clk <= 4);
    // the two primitives every other bus cycle is built from (read/write/wait_loop are the trait's
    // default compositions of these, checked for time in c04_memory_cycle / c04_wait_loop)
    if kani::any() {
        c.wait_mreq(addr, clk);
    } else {
        c.wait_no_mreq(addr, clk);
    }
    let spent = elapsed(&c, t);
    let left = match &c.tape {
        crate::zx::tape::ZXTape::Tap(tp) => crate::zx::tape::verif_hooks_tap::delay_left(tp),
        _ => 0,
    };
    kani::assert(left + spent == 5000, "c11.bus.tape_time_equals_machine_time");
    kani::cover!(spent > clk, "contended cycle: the delay reached the tape too");
    kani::cover!(spent == clk, "uncontended cycle");
}

// =============================================================================================
// thorough-tier variants
// =============================================================================================

// @harness
// @prop C04
// @tier thorough
// @timeout 3000
// @fn ZXController::wait_mreq; ZXController::wait_no_mreq; ZXController::wait_internal; ZXController::do_contention; ZXMachine::contention_clocks
// @sym as c04_memory_cycle with any cycle length 0..=23 (longer than any machine cycle the CPU issues) and three consecutive cycles at independent addresses
// @assert three consecutive bus cycles: total elapsed == sum of (delay at the start time of each cycle if its address is contended) + its length - delays compose exactly as the statement says for whole instructions
// @bound 3 cycles, lengths <= 23
// @stub ZXScreen::process_clocks -> no-op
// @replay solver-only
#[kani::proof]
#[kani::unwind(10)]
#[kani::stub(crate::zx::video::screen::ZXScreen::process_clocks, noop_screen_clocks)]
fn c04_three_memory_cycles_compose() {
    let (mut c, latch, t) = any_controller_at(false, false);
    let m = c.machine;
    let f = spec_frame_len(m);
    let mut tt = t;
    let mut i = 0;
    while i < 3 {
        let addr: u16 = kani::any();
        let clk: usize = kani::any();
        kani::assume(clk <= 23);
        c.wait_mreq(addr, clk);
        tt += if spec_contended(m, &latch, addr) { spec_delay(m, tt % f) + clk } else { clk };
        i += 1;
    }
    kani::assert(elapsed(&c, t) == tt - t, "c04.mem3.delays_compose");
    kani::cover!(tt - t > 60, "long sequence with delays");
    kani::cover!(c.passed_frames == 1, "frame wrap inside the sequence");
}

// =============================================================================================
// C09 — glue between the ULA port and the border device (feature precise-border)
// =============================================================================================
#[cfg(feature = "precise-border")]
static mut BORDER_CALLS: u32 = 0;
#[cfg(feature = "precise-border")]
static mut BORDER_T: usize = 0;
#[cfg(feature = "precise-border")]
static mut BORDER_C: u8 = 0xFF;

/// stands for ZXBorder::set_border (whose own behaviour is decided by the c09_* harnesses of
/// hooks/core/border.rs): records the time stamp and the colour handed to the device
#[cfg(feature = "precise-border")]
fn record_set_border<FB: crate::host::FrameBuffer>(_b: &mut ZXBorder<FB>, clocks: usize, color: ZXColor) {
    unsafe {
        BORDER_CALLS += 1;
        BORDER_T = clocks;
        BORDER_C = color.into();
    }
}

#[cfg(feature = "precise-border")]
fn border_glue_case(m: ZXMachine) {
    let mut c = mk_controller(m, FbCtx { wx: 0, wy: 0 }, false, false);
    // any history: the colour cached for the host and whatever the device remembers are NOT assumed
    // to agree (they differ at power-on: cache black, device white)
    c.border_color = crate::verif_hooks::any_color();
    let t0: usize = kani::any();
    kani::assume(t0 < m.specs().clocks_frame - 64);
    c.frame_clocks = t0;
    let port: u16 = kani::any();
    let data: u8 = kani::any();
    let ula = port & 1 == 0 && port & 0xC002 != 0xC000 && port & 0xC002 != 0x8000;
    unsafe {
        BORDER_CALLS = 0;
    }
    c.write_io(port, data);
    let t1 = c.frame_clocks;
    unsafe {
        if ula {
            kani::assert(BORDER_CALLS == 1, "c09.glue.every_ula_write_reaches_the_border_device");
            kani::assert(BORDER_C == data & 7, "c09.glue.device_gets_low_three_bits");
            kani::assert(t0 <= BORDER_T && BORDER_T <= t1, "c09.glue.time_stamp_inside_the_port_cycle");
            kani::assert(u8::from(c.border_color) == data & 7, "c09.glue.reported_colour_is_low_three_bits");
        } else {
            kani::assert(BORDER_CALLS == 0, "c09.glue.other_ports_do_not_touch_the_border");
        }
        kani::cover!(ula && BORDER_CALLS == 1 && u8::from(c.border_color) == 0 && data == 0xF8, "black written with the upper bits set");
        kani::cover!(!ula && port & 1 == 0, "even port owned by the AY");
    }
}

// @harness
// @prop C09
// @tier quick
// @features precise-border
// @timeout 900
// @fn ZXController::write_io; ZXController::write_fe; ZXController::set_border_color; ZXController::io_contention_first; ZXController::io_contention_last
// @sym machine (literal per case), frame time (any, 64 T before the frame end at most), cached border colour (any, not assumed equal to what the device remembers), 16-bit port, data
// @assert every write to a port that selects the ULA hands the border device exactly one update with colour = data & 7 and a time stamp inside that port cycle, whatever colour was cached before (also when it is the same colour); the colour reported to the host becomes data & 7; writes to other ports never reach the border device
// @bound one port write; no frame end inside the cycle (frame end handling: c09_frame_protocol)
// @stub ZXBorder::set_border -> recorder of (time, colour) (its painting is decided by c09_frame_protocol / c09_write_step_*); ZXScreen::process_clocks -> no-op
// @replay solver-only
#[cfg(feature = "precise-border")]
#[kani::proof]
#[kani::unwind(10)]
#[kani::stub(crate::zx::video::screen::ZXScreen::process_clocks, noop_screen_clocks)]
#[kani::stub(crate::zx::video::border::ZXBorder::set_border, record_set_border)]
fn c09_port_write_reaches_border_device() {
    if kani::any() {
        border_glue_case(ZXMachine::Sinclair48K);
    } else {
        border_glue_case(ZXMachine::Sinclair128K);
    }
}

// =============================================================================================
// Device dispatch of one clock step / one frame end (glue between the controller and its devices)
// =============================================================================================
static mut DD_SEQ: u32 = 0;
static mut DD_RENDER_CALLS: u32 = 0;
static mut DD_RENDER_T: usize = 0;
static mut DD_RENDER_SEQ: u32 = 0;
static mut DD_FRAME_CALLS: u32 = 0;
static mut DD_FRAME_SEQ: u32 = 0;

fn dd_reset() {
    unsafe {
        DD_SEQ = 0;
        DD_RENDER_CALLS = 0;
        DD_RENDER_T = 0;
        DD_RENDER_SEQ = 0;
        DD_FRAME_CALLS = 0;
        DD_FRAME_SEQ = 0;
    }
}

/// stands for ZXScreen::process_clocks (decided by c08_render_schedule / c08_pixel_decode)
fn dd_screen_clocks<FB: crate::host::FrameBuffer>(_s: &mut ZXScreen<FB>, clocks: usize) {
    unsafe {
        DD_SEQ += 1;
        DD_RENDER_CALLS += 1;
        DD_RENDER_T = clocks;
        DD_RENDER_SEQ = DD_SEQ;
    }
}

/// stands for the frame-end entry point of the device under test
fn dd_screen_new_frame<FB: crate::host::FrameBuffer>(_s: &mut ZXScreen<FB>) {
    unsafe {
        DD_SEQ += 1;
        DD_FRAME_CALLS += 1;
        DD_FRAME_SEQ = DD_SEQ;
    }
}

// @harness
// @prop C08
// @tier quick
// @timeout 600
// @fn ZXController::wait_internal; ZXController::new_frame
// @sym machine, frame time (any in-frame T), step 0..63 T
// @assert every clock step hands the renderer the new frame time exactly once (so cells are rendered as the beam reaches them, c08_render_schedule), BEFORE a frame end is processed; a step that completes the frame ends the renderer's frame exactly once (c08_frame_end_and_flash), a step that does not never does
// @bound one clock step (inductive over steps)
// @stub ZXScreen::process_clocks -> recorder of (calls, time, order); ZXScreen::new_frame -> recorder of (calls, order)
// @replay solver-only
#[kani::proof]
#[kani::stub(crate::zx::video::screen::ZXScreen::process_clocks, dd_screen_clocks)]
#[kani::stub(crate::zx::video::screen::ZXScreen::new_frame, dd_screen_new_frame)]
fn c08_clock_step_reaches_the_renderer() {
    let m = crate::emulator::verif_hooks::any_machine();
    let f = spec_frame_len(m);
    let mut c = mk_controller(m, FbCtx { wx: 0, wy: 0 }, false, false);
    let t: usize = kani::any();
    let step: usize = kani::any();
    kani::assume(t < f && step < 64);
    c.frame_clocks = t;
    dd_reset();
    c.wait_internal(step);
    unsafe {
        kani::assert(DD_RENDER_CALLS == 1 && DD_RENDER_T == t + step, "c08.dispatch.renderer_gets_the_new_frame_time_once");
        let ends = t + step >= f;
        kani::assert(DD_FRAME_CALLS == if ends { 1 } else { 0 }, "c08.dispatch.renderer_frame_ends_exactly_at_frame_end");
        if ends {
            kani::assert(DD_RENDER_SEQ < DD_FRAME_SEQ, "c08.dispatch.rest_of_the_frame_rendered_before_the_flip");
        }
        kani::cover!(ends && step == 7, "frame end inside the step");
        kani::cover!(!ends && t == 14336, "ordinary step");
    }
}

#[cfg(feature = "precise-border")]
fn dd_border_new_frame<FB: crate::host::FrameBuffer>(_b: &mut ZXBorder<FB>) {
    unsafe {
        DD_FRAME_CALLS += 1;
    }
}

// @harness
// @prop C09
// @tier quick
// @features precise-border
// @timeout 600
// @fn ZXController::wait_internal; ZXController::new_frame
// @sym machine, frame time (any in-frame T), step 0..63 T
// @assert the border device's frame protocol (c09_frame_protocol: one new_frame per completed frame) is what the controller really drives: a clock step that completes the frame ends the border's frame exactly once, any other step never does
// @bound one clock step (inductive over steps)
// @stub ZXBorder::new_frame -> call counter; ZXScreen::process_clocks -> no-op
// @replay solver-only
#[cfg(feature = "precise-border")]
#[kani::proof]
#[kani::unwind(10)]
#[kani::stub(crate::zx::video::screen::ZXScreen::process_clocks, noop_screen_clocks)]
#[kani::stub(crate::zx::video::border::ZXBorder::new_frame, dd_border_new_frame)]
fn c09_frame_end_reaches_border_device() {
    let m = crate::emulator::verif_hooks::any_machine();
    let f = spec_frame_len(m);
    let mut c = mk_controller(m, FbCtx { wx: 0, wy: 0 }, false, false);
    let t: usize = kani::any();
    let step: usize = kani::any();
    kani::assume(t < f && step < 64);
    c.frame_clocks = t;
    dd_reset();
    c.wait_internal(step);
    unsafe {
        let ends = t + step >= f;
        kani::assert(DD_FRAME_CALLS == if ends { 1 } else { 0 }, "c09.dispatch.border_frame_ends_exactly_at_frame_end");
        kani::cover!(ends, "frame end inside the step");
        kani::cover!(!ends && step == 63, "ordinary step");
    }
}

// =============================================================================================
// C19 — sample cursor arithmetic at real sample rates (feature sound, no AY)
// =============================================================================================
#[cfg(all(feature = "sound", not(feature = "ay")))]
mod c19 {
    use super::*;
    use crate::zx::sound::beeper::verif_hooks as bh;
    use crate::zx::sound::mixer::verif_hooks as mh;

    fn cursor_body(rate: usize) {
        let m = crate::emulator::verif_hooks::any_machine();
        let mut s = crate::emulator::verif_hooks::mk_settings(m);
        s.sound_sample_rate = rate;
        let mut c = ZXController::<VHost>::new(&s, FbCtx { wx: 0, wy: 0 });
        let f = spec_frame_len(m);
        let spf = rate / 50;
        kani::assert(mh::spf(&c.mixer) == spf, "c19.cursor.samples_per_frame_is_floor_rate_over_50");
        let t: usize = kani::any();
        kani::assume(t < f + 64);
        c.frame_clocks = t;
        let pos = mh::pos_for_fraction(&c.mixer, c.frame_pos());
        // uniform spacing: sample k belongs to frame time k*frame/spf  <=>  pos(t) = floor(spf*t/frame)
        let exact = if t >= f { spf } else { spf * t / f };
        kani::assert(pos <= spf, "c19.cursor.never_beyond_frame");
        kani::assert(pos + 1 >= exact && pos <= exact + 1, "c19.cursor.uniform_spacing_within_one_sample");
        if t >= f {
            kani::assert(pos == spf, "c19.cursor.full_frame_at_frame_end");
        }
        let step: usize = kani::any();
        kani::assume(step >= 1 && step <= 16);
        c.frame_clocks = t + step;
        let pos2 = mh::pos_for_fraction(&c.mixer, c.frame_pos());
        kani::assert(pos2 >= pos, "c19.cursor.monotone");
        kani::assert(pos2 - pos <= 2, "c19.cursor.at_most_two_samples_per_16_tstates");
        if step <= 8 {
            kani::assert(pos2 - pos <= 1, "c19.cursor.edge_within_one_sample");
        }
        kani::cover!(pos2 == pos + 1 && step == 1, "a sample boundary between two adjacent T-states");
        kani::cover!(t >= f && pos == spf, "frame end");
    }

    // @harness
    // @prop C16 C19
    // @tier quick
    // @features sound
    // @timeout 900
    // @fn ZXController::wait_internal; ZXController::frame_pos; ZXMixer::process; ZXMixer::new_frame; ZXController::new_frame
    // @sym machine, frame time, step length 1..63, for each of two otherwise identical machines: audio queue drained or left full, arbitrary cursor, frames-counted-so-far
    // @assert two machines equal in emulated state but differing in host-only state (audio queue drained or never drained, frame counter of the current host call) advance identically: same clock, same number of frame ends, same beeper level - audio draining and host call accounting never feed back into emulation
    // @bound one clock step; sample rate 100 Hz (2 samples/frame) so the queue can be filled by unrolling
    // @stub ZXScreen::process_clocks -> no-op
    // @replay solver-only
    #[kani::proof]
    #[kani::unwind(12)]
    #[kani::stub(crate::zx::video::screen::ZXScreen::process_clocks, noop_screen_clocks)]
    fn c16_host_only_state_does_not_feed_back() {
        let m = crate::emulator::verif_hooks::any_machine();
        let mut s = crate::emulator::verif_hooks::mk_settings(m);
        s.sound_sample_rate = 100;
        let f = spec_frame_len(m);
        let t: usize = kani::any();
        let d: usize = kani::any();
        kani::assume(t < f && d >= 1 && d < 64);
        let mut a = ZXController::<VHost>::new(&s, FbCtx { wx: 0, wy: 0 });
        let mut b = ZXController::<VHost>::new(&s, FbCtx { wx: 0, wy: 0 });
        a.frame_clocks = t;
        b.frame_clocks = t;
        let (ear, mic): (bool, bool) = (kani::any(), kani::any());
        a.mixer.beeper.change_state(ear, mic);
        b.mixer.beeper.change_state(ear, mic);
        // host-only differences
        let (fa, fb): (usize, usize) = (kani::any(), kani::any());
        kani::assume(fa < 100 && fb < 100);
        a.passed_frames = fa;
        b.passed_frames = fb;
        // b's host never drained audio: queue holds a full frame already
        let mut i = 0;
        while i < 2 {
            b.mixer.process(1.0);
            i += 1;
        }
        b.mixer.new_frame();
        kani::assert(mh::ring_len(&b.mixer) == 2 && mh::ring_len(&a.mixer) == 0, "c16.host.setup");
        a.wait_internal(d);
        b.wait_internal(d);
        kani::assert(a.frame_clocks == b.frame_clocks, "c16.host.same_clock");
        kani::assert(a.passed_frames - fa == b.passed_frames - fb, "c16.host.same_frame_ends");
        kani::assert(bh::levels(&a.mixer.beeper) == bh::levels(&b.mixer.beeper), "c16.host.same_beeper_level");
        kani::assert(mh::ring_len(&b.mixer) < 4, "c19.queue_below_two_frames_when_never_drained");
        kani::cover!(a.passed_frames == fa + 1, "step across a frame end");
        kani::cover!(mh::ring_len(&a.mixer) == 1, "drained machine produced a sample");
    }

    // @harness
    // @prop C19
    // @tier quick
    // @features sound
    // @timeout 900
    // @fn ZXController::write_io (ULA arm) -> ZXBeeper::change_state; ZXController::wait_internal -> ZXController::frame_pos -> ZXMixer::process
    // @sym machine (literal per case), speaker/MIC levels left by earlier writes, port (even, not an AY address), data, a second write to any odd port; frame time fixed (1000)
    // @assert an OUT to the ULA port latches speaker = bit 4 and MIC = bit 3 of the data before the next mixer step of that very port cycle, so samples generated from then on carry the new level
    // @bound one port write
    // @stub ZXMixer::process -> no-op (its effect is c19_mixer_step_*); ZXController::frame_pos -> constant (only the stubbed mixer step consumes it); ZXMixer::new_frame -> no-op (c19_frame_end_pads_to_full_frame); ZXScreen::process_clocks -> no-op
    // @replay solver-only
    #[kani::proof]
    #[kani::unwind(10)]
    #[kani::stub(crate::zx::video::screen::ZXScreen::process_clocks, noop_screen_clocks)]
    #[kani::stub(crate::zx::sound::mixer::ZXMixer::process, mh::noop_process)]
    #[kani::stub(ZXController::frame_pos, half_frame_pos)]
    #[kani::stub(crate::zx::sound::mixer::ZXMixer::new_frame, mh::noop_new_frame)]
    fn c19_port_write_sets_beeper_level() {
        // machine and frame time literal: with a symbolic clock every bus wait carries a symbolic f64
        // division (frame position for the mixer) - port timing is C04's subject
        if kani::any() {
            port_write_case(ZXMachine::Sinclair48K);
        } else {
            port_write_case(ZXMachine::Sinclair128K);
        }
    }

    /// the frame position is only consumed by the (stubbed) mixer step
    fn half_frame_pos<H: crate::host::Host>(_c: &ZXController<H>) -> f64 {
        0.5
    }

    fn port_write_case(m: ZXMachine) {
        let mut c = mk_controller(m, FbCtx { wx: 0, wy: 0 }, false, false);
        c.frame_clocks = 1000;
        let port: u16 = kani::any();
        kani::assume(port & 1 == 0 && port & 0xC002 != 0xC000 && port & 0xC002 != 0x8000);
        let data: u8 = kani::any();
        let before = bh::levels(&c.mixer.beeper);
        kani::assert(before == (false, false), "c19.port.initial_level_low");
        // any level history: the levels left by earlier writes are arbitrary
        let (e0, m0): (bool, bool) = (kani::any(), kani::any());
        bh::set_levels(&mut c.mixer.beeper, e0, m0);
        c.write_io(port, data);
        kani::assert(bh::levels(&c.mixer.beeper) == (data & 0x10 != 0, data & 0x08 != 0), "c19.port.speaker_bit4_mic_bit3");
        let odd: u16 = kani::any();
        kani::assume(odd & 1 == 1);
        c.write_io(odd, kani::any());
        kani::assert(bh::levels(&c.mixer.beeper) == (data & 0x10 != 0, data & 0x08 != 0), "c19.port.other_ports_leave_level");
        kani::cover!(data & 0x18 == 0x10, "speaker on, MIC off");
        kani::cover!(e0 && m0 && data & 0x18 == 0x10, "MIC lowered while the speaker stays high");
    }

    // @harness
    // @prop C19
    // @tier quick
    // @features sound
    // @timeout 900
    // @fn ZXController::frame_pos; ZXMixer::sample_count_for_frame_fraction; ZXMixer::samples_per_frame; ZXController::create_mixer
    // @sym machine, frame T-state 0..frame+63, step 1..16 T-states; sample rate fixed to 8000 Hz
    // @assert the sample cursor is floor(rate/50 * T/frame) to within one sample (uniform spacing in emulated time), monotone, never beyond the frame, equal to floor(rate/50) once the frame is complete; it advances by at most one sample per 8 T-states (an edge lands within one sample of its port write)
    // @bound sample rate 8000 Hz (the f64 division does not bit-blast with a symbolic rate; rates are enumerated: quick 8000/44100/48000/384000, thorough all 11)
    #[kani::proof]
    fn c19_cursor_8000() {
        cursor_body(8000);
    }

    // @harness
    // @prop C19
    // @tier thorough
    // @features sound
    // @timeout 900
    // @fn ZXController::frame_pos; ZXMixer::sample_count_for_frame_fraction; ZXMixer::samples_per_frame; ZXController::create_mixer
    // @sym machine, frame T-state 0..frame+63, step 1..16 T-states; sample rate fixed to 11025 Hz
    // @assert the sample cursor is floor(rate/50 * T/frame) to within one sample (uniform spacing in emulated time), monotone, never beyond the frame, equal to floor(rate/50) once the frame is complete; it advances by at most one sample per 8 T-states (an edge lands within one sample of its port write)
    // @bound sample rate 11025 Hz (the f64 division does not bit-blast with a symbolic rate; rates are enumerated: quick 8000/44100/48000/384000, thorough all 11)
    #[kani::proof]
    fn c19_cursor_11025() {
        cursor_body(11025);
    }

    // @harness
    // @prop C19
    // @tier thorough
    // @features sound
    // @timeout 900
    // @fn ZXController::frame_pos; ZXMixer::sample_count_for_frame_fraction; ZXMixer::samples_per_frame; ZXController::create_mixer
    // @sym machine, frame T-state 0..frame+63, step 1..16 T-states; sample rate fixed to 16000 Hz
    // @assert the sample cursor is floor(rate/50 * T/frame) to within one sample (uniform spacing in emulated time), monotone, never beyond the frame, equal to floor(rate/50) once the frame is complete; it advances by at most one sample per 8 T-states (an edge lands within one sample of its port write)
    // @bound sample rate 16000 Hz (the f64 division does not bit-blast with a symbolic rate; rates are enumerated: quick 8000/44100/48000/384000, thorough all 11)
    #[kani::proof]
    fn c19_cursor_16000() {
        cursor_body(16000);
    }

    // @harness
    // @prop C19
    // @tier thorough
    // @features sound
    // @timeout 900
    // @fn ZXController::frame_pos; ZXMixer::sample_count_for_frame_fraction; ZXMixer::samples_per_frame; ZXController::create_mixer
    // @sym machine, frame T-state 0..frame+63, step 1..16 T-states; sample rate fixed to 22050 Hz
    // @assert the sample cursor is floor(rate/50 * T/frame) to within one sample (uniform spacing in emulated time), monotone, never beyond the frame, equal to floor(rate/50) once the frame is complete; it advances by at most one sample per 8 T-states (an edge lands within one sample of its port write)
    // @bound sample rate 22050 Hz (the f64 division does not bit-blast with a symbolic rate; rates are enumerated: quick 8000/44100/48000/384000, thorough all 11)
    #[kani::proof]
    fn c19_cursor_22050() {
        cursor_body(22050);
    }

    // @harness
    // @prop C19
    // @tier thorough
    // @features sound
    // @timeout 900
    // @fn ZXController::frame_pos; ZXMixer::sample_count_for_frame_fraction; ZXMixer::samples_per_frame; ZXController::create_mixer
    // @sym machine, frame T-state 0..frame+63, step 1..16 T-states; sample rate fixed to 32000 Hz
    // @assert the sample cursor is floor(rate/50 * T/frame) to within one sample (uniform spacing in emulated time), monotone, never beyond the frame, equal to floor(rate/50) once the frame is complete; it advances by at most one sample per 8 T-states (an edge lands within one sample of its port write)
    // @bound sample rate 32000 Hz (the f64 division does not bit-blast with a symbolic rate; rates are enumerated: quick 8000/44100/48000/384000, thorough all 11)
    #[kani::proof]
    fn c19_cursor_32000() {
        cursor_body(32000);
    }

    // @harness
    // @prop C19
    // @tier quick
    // @features sound
    // @timeout 900
    // @fn ZXController::frame_pos; ZXMixer::sample_count_for_frame_fraction; ZXMixer::samples_per_frame; ZXController::create_mixer
    // @sym machine, frame T-state 0..frame+63, step 1..16 T-states; sample rate fixed to 44100 Hz
    // @assert the sample cursor is floor(rate/50 * T/frame) to within one sample (uniform spacing in emulated time), monotone, never beyond the frame, equal to floor(rate/50) once the frame is complete; it advances by at most one sample per 8 T-states (an edge lands within one sample of its port write)
    // @bound sample rate 44100 Hz (the f64 division does not bit-blast with a symbolic rate; rates are enumerated: quick 8000/44100/48000/384000, thorough all 11)
    #[kani::proof]
    fn c19_cursor_44100() {
        cursor_body(44100);
    }

    // @harness
    // @prop C19
    // @tier quick
    // @features sound
    // @timeout 900
    // @fn ZXController::frame_pos; ZXMixer::sample_count_for_frame_fraction; ZXMixer::samples_per_frame; ZXController::create_mixer
    // @sym machine, frame T-state 0..frame+63, step 1..16 T-states; sample rate fixed to 48000 Hz
    // @assert the sample cursor is floor(rate/50 * T/frame) to within one sample (uniform spacing in emulated time), monotone, never beyond the frame, equal to floor(rate/50) once the frame is complete; it advances by at most one sample per 8 T-states (an edge lands within one sample of its port write)
    // @bound sample rate 48000 Hz (the f64 division does not bit-blast with a symbolic rate; rates are enumerated: quick 8000/44100/48000/384000, thorough all 11)
    #[kani::proof]
    fn c19_cursor_48000() {
        cursor_body(48000);
    }

    // @harness
    // @prop C19
    // @tier thorough
    // @features sound
    // @timeout 900
    // @fn ZXController::frame_pos; ZXMixer::sample_count_for_frame_fraction; ZXMixer::samples_per_frame; ZXController::create_mixer
    // @sym machine, frame T-state 0..frame+63, step 1..16 T-states; sample rate fixed to 88200 Hz
    // @assert the sample cursor is floor(rate/50 * T/frame) to within one sample (uniform spacing in emulated time), monotone, never beyond the frame, equal to floor(rate/50) once the frame is complete; it advances by at most one sample per 8 T-states (an edge lands within one sample of its port write)
    // @bound sample rate 88200 Hz (the f64 division does not bit-blast with a symbolic rate; rates are enumerated: quick 8000/44100/48000/384000, thorough all 11)
    #[kani::proof]
    fn c19_cursor_88200() {
        cursor_body(88200);
    }

    // @harness
    // @prop C19
    // @tier thorough
    // @features sound
    // @timeout 900
    // @fn ZXController::frame_pos; ZXMixer::sample_count_for_frame_fraction; ZXMixer::samples_per_frame; ZXController::create_mixer
    // @sym machine, frame T-state 0..frame+63, step 1..16 T-states; sample rate fixed to 96000 Hz
    // @assert the sample cursor is floor(rate/50 * T/frame) to within one sample (uniform spacing in emulated time), monotone, never beyond the frame, equal to floor(rate/50) once the frame is complete; it advances by at most one sample per 8 T-states (an edge lands within one sample of its port write)
    // @bound sample rate 96000 Hz (the f64 division does not bit-blast with a symbolic rate; rates are enumerated: quick 8000/44100/48000/384000, thorough all 11)
    #[kani::proof]
    fn c19_cursor_96000() {
        cursor_body(96000);
    }

    // @harness
    // @prop C19
    // @tier thorough
    // @features sound
    // @timeout 900
    // @fn ZXController::frame_pos; ZXMixer::sample_count_for_frame_fraction; ZXMixer::samples_per_frame; ZXController::create_mixer
    // @sym machine, frame T-state 0..frame+63, step 1..16 T-states; sample rate fixed to 192000 Hz
    // @assert the sample cursor is floor(rate/50 * T/frame) to within one sample (uniform spacing in emulated time), monotone, never beyond the frame, equal to floor(rate/50) once the frame is complete; it advances by at most one sample per 8 T-states (an edge lands within one sample of its port write)
    // @bound sample rate 192000 Hz (the f64 division does not bit-blast with a symbolic rate; rates are enumerated: quick 8000/44100/48000/384000, thorough all 11)
    #[kani::proof]
    fn c19_cursor_192000() {
        cursor_body(192000);
    }

    // @harness
    // @prop C19
    // @tier quick
    // @features sound
    // @timeout 900
    // @fn ZXController::frame_pos; ZXMixer::sample_count_for_frame_fraction; ZXMixer::samples_per_frame; ZXController::create_mixer
    // @sym machine, frame T-state 0..frame+63, step 1..16 T-states; sample rate fixed to 384000 Hz
    // @assert the sample cursor is floor(rate/50 * T/frame) to within one sample (uniform spacing in emulated time), monotone, never beyond the frame, equal to floor(rate/50) once the frame is complete; it advances by at most one sample per 8 T-states (an edge lands within one sample of its port write)
    // @bound sample rate 384000 Hz (the f64 division does not bit-blast with a symbolic rate; rates are enumerated: quick 8000/44100/48000/384000, thorough all 11)
    #[kani::proof]
    fn c19_cursor_384000() {
        cursor_body(384000);
    }

    static mut MX_SEQ: u32 = 0;
    static mut MX_PROCESS_CALLS: u32 = 0;
    static mut MX_PROCESS_SEQ: u32 = 0;
    static mut MX_PROCESS_POS_OK: bool = false;
    static mut MX_EXPECT_T: usize = 0;
    static mut MX_FRAME: usize = 1;
    static mut MX_FRAME_CALLS: u32 = 0;
    static mut MX_FRAME_SEQ: u32 = 0;

    /// stands for ZXMixer::process (decided by c19_mixer_step_*): records the call and whether the frame
    /// position it was handed is the one of the new frame time (the same expression the statement gives:
    /// time / frame length, capped at the frame end)
    fn mx_process(_m: &mut crate::zx::sound::mixer::ZXMixer, pos: f64) {
        unsafe {
            MX_SEQ += 1;
            MX_PROCESS_CALLS += 1;
            MX_PROCESS_SEQ = MX_SEQ;
            let exact = MX_EXPECT_T as f64 / MX_FRAME as f64;
            MX_PROCESS_POS_OK = if MX_EXPECT_T > MX_FRAME { pos == 1.0 } else { pos == exact };
        }
    }

    fn mx_new_frame(_m: &mut crate::zx::sound::mixer::ZXMixer) {
        unsafe {
            MX_SEQ += 1;
            MX_FRAME_CALLS += 1;
            MX_FRAME_SEQ = MX_SEQ;
        }
    }

    fn mixer_dispatch_case(m: ZXMachine, t: usize) {
        let f = spec_frame_len(m);
        let mut c = mk_controller(m, FbCtx { wx: 0, wy: 0 }, false, false);
        let step: usize = kani::any();
        kani::assume(step < 64);
        c.frame_clocks = t;
        unsafe {
            MX_SEQ = 0;
            MX_PROCESS_CALLS = 0;
            MX_FRAME_CALLS = 0;
            MX_EXPECT_T = t + step;
            MX_FRAME = f;
        }
        c.wait_internal(step);
        unsafe {
            kani::assert(MX_PROCESS_CALLS == 1, "c19.dispatch.mixer_stepped_once_per_clock_step");
            kani::assert(MX_PROCESS_POS_OK, "c19.dispatch.mixer_gets_the_new_frame_position");
            let ends = t + step >= f;
            kani::assert(MX_FRAME_CALLS == if ends { 1 } else { 0 }, "c19.dispatch.audio_frame_ends_exactly_at_frame_end");
            if ends {
                kani::assert(MX_PROCESS_SEQ < MX_FRAME_SEQ, "c19.dispatch.samples_of_the_frame_generated_before_it_is_closed");
            }
        }
    }

    // @harness
    // @prop C19
    // @tier quick
    // @features sound
    // @timeout 900
    // @fn ZXController::wait_internal; ZXController::frame_pos; ZXController::new_frame
    // @sym step 0..63 T from four literal frame times per machine (frame start, mid frame, 20 T before the frame end, last T of the frame)
    // @assert every clock step steps the mixer exactly once with the frame position of the NEW frame time (time/frame length, capped at 1), before a frame end is processed; a step that completes the frame closes the audio frame exactly once (c19_frame_end_pads_to_full_frame), any other step never does - this is what lets c19_mixer_step_* and c19_cursor_* speak about the machine
    // @bound one clock step; frame times literal (a symbolic time puts a symbolic f64 division on both sides of the comparison)
    // @stub ZXMixer::process -> recorder; ZXMixer::new_frame -> recorder; ZXScreen::process_clocks -> no-op
    // @replay solver-only
    #[kani::proof]
    #[kani::stub(crate::zx::video::screen::ZXScreen::process_clocks, noop_screen_clocks)]
    #[kani::stub(crate::zx::sound::mixer::ZXMixer::process, mx_process)]
    #[kani::stub(crate::zx::sound::mixer::ZXMixer::new_frame, mx_new_frame)]
    fn c19_clock_step_reaches_the_mixer() {
        let sel: u8 = kani::any();
        match sel {
            0 => mixer_dispatch_case(ZXMachine::Sinclair48K, 0),
            1 => mixer_dispatch_case(ZXMachine::Sinclair48K, 34944),
            2 => mixer_dispatch_case(ZXMachine::Sinclair48K, 69868),
            3 => mixer_dispatch_case(ZXMachine::Sinclair48K, 69887),
            4 => mixer_dispatch_case(ZXMachine::Sinclair128K, 0),
            5 => mixer_dispatch_case(ZXMachine::Sinclair128K, 35454),
            6 => mixer_dispatch_case(ZXMachine::Sinclair128K, 70888),
            _ => mixer_dispatch_case(ZXMachine::Sinclair128K, 70907),
        }
        kani::cover!(sel == 3, "frame end inside the step");
    }
}
