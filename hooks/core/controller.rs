//! Kani-only child module of rustzx-core/src/zx/controller.rs (cfg(kani)).
#![allow(dead_code)]
use super::*;
use crate::verif_hooks::{FbCtx, VHost};

// ---- shared helpers (lead) --------------------------------------------------------------------

pub(crate) fn mk_controller(machine: ZXMachine, ctx: FbCtx, kempston: bool, mouse: bool) -> ZXController<VHost> {
    let mut s = crate::emulator::verif_hooks::mk_settings(machine);
    s.kempston_enabled = kempston;
    s.mouse_enabled = mouse;
    ZXController::<VHost>::new(&s, ctx)
}

pub(crate) fn passed_frames(c: &ZXController<VHost>) -> usize {
    c.passed_frames
}
pub(crate) fn set_passed_frames(c: &mut ZXController<VHost>, v: usize) {
    c.passed_frames = v;
}
pub(crate) fn paging_enabled(c: &ZXController<VHost>) -> bool {
    c.paging_enabled
}
pub(crate) fn set_paging_enabled(c: &mut ZXController<VHost>, v: bool) {
    c.paging_enabled = v;
}
pub(crate) fn screen_bank(c: &ZXController<VHost>) -> u8 {
    c.screen_bank
}
pub(crate) fn latch_7ffd(c: &ZXController<VHost>) -> u8 {
    c.current_port_7ffd
}
pub(crate) fn events_bits(c: &ZXController<VHost>) -> u8 {
    c.events.bits()
}
pub(crate) fn has_error(c: &ZXController<VHost>) -> bool {
    c.last_emulation_error.is_some()
}

// ---- end shared helpers -----------------------------------------------------------------------
