//! Kani harnesses compiled as a child module of rustzx-core/src/zx/sound/beeper.rs (cfg(kani) only).
