//! Kani-only child module of rustzx-core/src/zx/sound/beeper.rs (cfg(kani)).
#![allow(dead_code)]
use super::*;

pub(crate) fn levels(b: &ZXBeeper) -> (bool, bool) {
    (b.ear, b.mic)
}

pub(crate) fn set_levels(b: &mut ZXBeeper, ear: bool, mic: bool) {
    b.ear = ear;
    b.mic = mic;
}
