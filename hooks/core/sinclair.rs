//! Kani harnesses compiled as a child module of rustzx-core/src/zx/joy/sinclair.rs (cfg(kani) only).
