//! Kani-only child module of rustzx-core/src/emulator/snapshot/sna.rs (cfg(kani)).
//! C13 (SNA save -> load round trip, saving is side-effect free), C14 (loading a well-formed
//! SNA yields the described state), C15 (sna::load is total).
//!
//! Also home of the devices shared with szx.rs / scr.rs / emulator.rs harnesses:
//! `SparseAsset` (sparse witness file, optionally fault injecting), `SparseRecorder`,
//! the CPU observation helpers and the no-op stubs for the display.
#![allow(dead_code)]
use super::*;
use crate::{
    emulator::verif_hooks::{controller, cpu, mk_emulator},
    error::Error,
    host::FrameBuffer,
    verif_hooks::{FbCtx, VHost},
    zx::{
        controller::{verif_hooks as ch, ZXController},
        video::screen::ZXScreen,
    },
};
use rustzx_z80::{Opcode, Prefix, Z80Bus, Z80};

// ================================================================================================
// stubs (display is not the subject of C13..C15)
// ================================================================================================

/// replaces `ZXController::refresh_memory_dependent_devices` (2 x 16384-iteration screen refresh)
pub(crate) fn noop_refresh<H: Host>(_c: &mut ZXController<H>) {}
/// replaces `ZXScreen::process_clocks` (beam-following render loop)
pub(crate) fn noop_screen_clocks<FB: FrameBuffer>(_s: &mut ZXScreen<FB>, _clocks: usize) {}

pub(crate) const CTX: FbCtx = FbCtx { wx: 0, wy: 0 };

// ================================================================================================
// sparse witness asset / recorder
// ================================================================================================

pub(crate) const NO_FAULT: u8 = 0xFF;
pub(crate) const NO_WITNESS: usize = usize::MAX;
pub(crate) const TAIL_OFF: usize = 49179;

/// What the fault-injecting asset does at call number `at` (reads and seeks are counted together).
#[derive(Clone, Copy)]
pub(crate) struct Fault {
    /// call index (0-based) that misbehaves; NO_FAULT = never
    pub at: u8,
    /// 0: Err(HostAssetImplFailed); 1: short read of `n` bytes (0 < n < requested) / seek Err;
    /// 2: Ok(0) although data is left (premature EOF)
    pub kind: u8,
    pub n: usize,
}

pub(crate) const FAULT_NONE: Fault = Fault { at: NO_FAULT, kind: 0, n: 0 };

pub(crate) fn any_fault(max_call: u8) -> Fault {
    let at: u8 = kani::any();
    let kind: u8 = kani::any();
    let n: usize = kani::any();
    kani::assume(at == NO_FAULT || at <= max_call);
    kani::assume(kind <= 2);
    Fault { at, kind, n }
}

/// A file of `size` bytes of which only the 27 header bytes, the 4 bytes at offset 49179 and the
/// byte at `woff` are kept; every other byte is "don't care": a read leaves the destination
/// untouched there.  Page transfers therefore cost O(1).
pub(crate) struct SparseAsset {
    pub size: usize,
    pub pos: usize,
    pub head: [u8; 27],
    pub tail: [u8; 4],
    pub woff: usize,
    pub wval: u8,
    pub fault: Fault,
    pub calls: u8,
    pub fault_hit: bool,
    /// largest single read request seen (C15: memory in proportion)
    pub max_req: usize,
}

impl SparseAsset {
    pub fn new(size: usize, head: [u8; 27], tail: [u8; 4], woff: usize, wval: u8) -> Self {
        SparseAsset {
            size,
            pos: 0,
            head,
            tail,
            woff,
            wval,
            fault: FAULT_NONE,
            calls: 0,
            fault_hit: false,
            max_req: 0,
        }
    }

    fn tick(&mut self) -> bool {
        let idx = self.calls;
        self.calls = self.calls.saturating_add(1);
        if self.fault.at != NO_FAULT && idx == self.fault.at {
            self.fault_hit = true;
            true
        } else {
            false
        }
    }

    /// copy the kept bytes that fall into [pos, pos+n) to `buf`
    fn deliver(&self, buf: &mut [u8], n: usize) {
        let pos = self.pos;
        // header bytes
        if pos < 27 {
            let mut i = pos;
            while i < 27 && i - pos < n {
                buf[i - pos] = self.head[i];
                i += 1;
            }
        }
        // 128K secondary header (only in files long enough to have one)
        let mut k = if self.size > TAIL_OFF { 0 } else { 4 };
        while k < 4 {
            let off = TAIL_OFF + k;
            if off >= pos && off - pos < n {
                buf[off - pos] = self.tail[k];
            }
            k += 1;
        }
        if self.woff != NO_WITNESS && self.woff >= pos && self.woff - pos < n {
            buf[self.woff - pos] = self.wval;
        }
    }
}

impl LoadableAsset for SparseAsset {
    fn read(&mut self, buf: &mut [u8]) -> core::result::Result<usize, IoError> {
        if buf.len() > self.max_req {
            self.max_req = buf.len();
        }
        let faulty = self.tick();
        if faulty && self.fault.kind == 0 {
            return Err(IoError::HostAssetImplFailed);
        }
        if self.pos >= self.size || buf.is_empty() {
            return Ok(0);
        }
        if faulty && self.fault.kind == 2 {
            return Ok(0);
        }
        let mut n = buf.len().min(self.size - self.pos);
        if faulty && self.fault.kind == 1 && self.fault.n > 0 && self.fault.n < n {
            n = self.fault.n;
        }
        self.deliver(buf, n);
        self.pos += n;
        Ok(n)
    }
}

impl SeekableAsset for SparseAsset {
    fn seek(&mut self, pos: SeekFrom) -> core::result::Result<usize, IoError> {
        if self.tick() {
            return Err(IoError::HostAssetImplFailed);
        }
        let new_pos: i128 = match pos {
            SeekFrom::Start(p) => p as i128,
            SeekFrom::End(d) => self.size as i128 + d as i128,
            SeekFrom::Current(d) => self.pos as i128 + d as i128,
        };
        if new_pos < 0 {
            return Err(IoError::SeekBeforeStart);
        }
        if new_pos > usize::MAX as i128 {
            return Err(IoError::HostAssetImplFailed);
        }
        self.pos = new_pos as usize;
        Ok(self.pos)
    }
}

impl LoadableAsset for &mut SparseAsset {
    fn read(&mut self, buf: &mut [u8]) -> core::result::Result<usize, IoError> {
        (**self).read(buf)
    }
}

impl SeekableAsset for &mut SparseAsset {
    fn seek(&mut self, pos: SeekFrom) -> core::result::Result<usize, IoError> {
        (**self).seek(pos)
    }
}

/// Recorder that keeps the same sparse set of bytes and the total length.
pub(crate) struct SparseRecorder {
    pub len: usize,
    pub head: [u8; 27],
    pub tail: [u8; 4],
    pub woff: usize,
    pub wval: u8,
    pub wseen: bool,
    /// write call (0-based) that fails; NO_FAULT = never.  fail_kind 0: Err(HostAssetImplFailed), 1: Ok(0) (sink full)
    pub fail_at: u8,
    pub fail_kind: u8,
    pub calls: u8,
}

impl SparseRecorder {
    pub fn new(woff: usize) -> Self {
        SparseRecorder { len: 0, head: [0; 27], tail: [0; 4], woff, wval: 0, wseen: false, fail_at: NO_FAULT, fail_kind: 0, calls: 0 }
    }
}

impl DataRecorder for &mut SparseRecorder {
    fn write(&mut self, buf: &[u8]) -> core::result::Result<usize, IoError> {
        let idx = self.calls;
        self.calls = self.calls.saturating_add(1);
        if self.fail_at != NO_FAULT && idx == self.fail_at {
            return if self.fail_kind == 0 { Err(IoError::HostAssetImplFailed) } else { Ok(0) };
        }
        let pos = self.len;
        let n = buf.len();
        if pos < 27 {
            let mut i = pos;
            while i < 27 && i - pos < n {
                self.head[i] = buf[i - pos];
                i += 1;
            }
        }
        let mut k = 0;
        while k < 4 {
            let off = TAIL_OFF + k;
            if off >= pos && off - pos < n {
                self.tail[k] = buf[off - pos];
            }
            k += 1;
        }
        if self.woff != NO_WITNESS && self.woff >= pos && self.woff - pos < n {
            self.wval = buf[self.woff - pos];
            self.wseen = true;
        }
        self.len += n;
        Ok(n)
    }
}

// ================================================================================================
// observing / preparing CPU control state through the public Z80 API
// ================================================================================================

/// 4-byte memory, no interrupts: enough to run one instruction on the real `Z80::emulate`.
pub(crate) struct TinyBus {
    pub mem: [u8; 4],
}

impl Z80Bus for TinyBus {
    fn read_internal(&mut self, addr: u16) -> u8 {
        self.mem[(addr & 3) as usize]
    }
    fn write_internal(&mut self, _addr: u16, _data: u8) {}
    fn wait_mreq(&mut self, _addr: u16, _clk: usize) {}
    fn wait_no_mreq(&mut self, _addr: u16, _clk: usize) {}
    fn wait_internal(&mut self, _clk: usize) {}
    fn read_io(&mut self, _port: u16) -> u8 {
        0xFF
    }
    fn write_io(&mut self, _port: u16, _data: u8) {}
    fn read_interrupt(&mut self) -> u8 {
        0xFF
    }
    fn reti(&mut self) {}
    fn halt(&mut self, _halted: bool) {}
    fn int_active(&self) -> bool {
        false
    }
    fn nmi_active(&self) -> bool {
        false
    }
    fn pc_callback(&mut self, _addr: u16) {}
    fn process_unknown_opcode(&mut self, _prefix: Prefix, _opcode: Opcode) {}
}

/// Brings the CPU into the "prefix fetched, opcode pending" state the real way: by executing
/// the byte sequence DD DD, DD FD or DD ED (the frame loop may return between the two steps); which
/// of the three prefixes is left pending is symbolic.
pub(crate) fn seed_pending_dd_prefix(cpu: &mut Z80) {
    let second: u8 = if kani::any() {
        0xDD
    } else if kani::any() {
        0xFD
    } else {
        0xED
    };
    let mut bus = TinyBus { mem: [0xDD, second, 0xDD, second] };
    cpu.regs.set_pc(0);
    cpu.emulate(&mut bus);
}

/// true iff the next instruction would be executed with a pending DD/FD/ED prefix: runs `INC HL`
/// (0x23) on the real CPU and looks whether HL moved (DD/FD 23 move an index register instead, ED 23 is
/// a no-operation).  Destroys PC/HL/R.
pub(crate) fn has_pending_prefix(cpu: &mut Z80) -> bool {
    let mut bus = TinyBus { mem: [0x23, 0x23, 0x23, 0x23] };
    let hl = cpu.regs.get_hl();
    cpu.emulate(&mut bus);
    cpu.regs.get_hl() != hl.wrapping_add(1)
}

/// arbitrary "what the receiving machine was doing before": halted, EI pending, prefix pending,
/// arbitrary registers
pub(crate) fn dirty_cpu(cpu: &mut Z80) {
    if kani::any() {
        seed_pending_dd_prefix(cpu);
    }
    cpu.halted = kani::any();
    cpu.skip_interrupt = kani::any();
    set_abs_regs(cpu, &any_abs());
    cpu.regs.set_pc(kani::any());
    cpu.regs.set_iff1(kani::any());
}

// ================================================================================================
// SNA format, written from the public format description (World of Spectrum / Sinclair FAQ):
//   0 I | 1 HL' | 3 DE' | 5 BC' | 7 AF' | 9 HL | 11 DE | 13 BC | 15 IY | 17 IX | 19 bit2=IFF2
//   20 R | 21 AF | 23 SP | 25 IM (0..2) | 26 border (0..7) | 27.. RAM 4000-FFFF (48K, PC on stack)
//   128K: 27 bank 5 | 16411 bank 2 | 32795 bank paged at C000 | 49179 PC | 49181 port 7FFD |
//         49182 TR-DOS flag | 49183.. remaining banks ascending (banks 2/5 are repeated in the
//         third slot when paged: 131103 or 147487 bytes)
// ================================================================================================

pub(crate) const SPEC_SNA48_LEN: usize = 27 + 3 * 16384;
pub(crate) const SPEC_SNA128_LEN: usize = 27 + 3 * 16384 + 4 + 5 * 16384;
pub(crate) const SPEC_SNA128_LEN_DUP: usize = 27 + 3 * 16384 + 4 + 6 * 16384;

/// The items the SNA format carries (plus the 128K extras).
#[derive(Clone, Copy, PartialEq, Eq)]
pub(crate) struct Abs {
    pub i: u8,
    pub hl_alt: u16,
    pub de_alt: u16,
    pub bc_alt: u16,
    pub af_alt: u16,
    pub hl: u16,
    pub de: u16,
    pub bc: u16,
    pub iy: u16,
    pub ix: u16,
    pub iff2: bool,
    pub r: u8,
    pub af: u16,
    pub sp: u16,
    pub im: u8,
    pub border: u8,
}

pub(crate) fn any_abs() -> Abs {
    let a = Abs {
        i: kani::any(),
        hl_alt: kani::any(),
        de_alt: kani::any(),
        bc_alt: kani::any(),
        af_alt: kani::any(),
        hl: kani::any(),
        de: kani::any(),
        bc: kani::any(),
        iy: kani::any(),
        ix: kani::any(),
        iff2: kani::any(),
        r: kani::any(),
        af: kani::any(),
        sp: kani::any(),
        im: kani::any(),
        border: kani::any(),
    };
    kani::assume(a.im <= 2);
    kani::assume(a.border <= 7);
    a
}

/// spec encoder: abstract state -> 27 header bytes (`junk19` = the undefined bits of byte 19)
pub(crate) fn spec_header(a: &Abs, junk19: u8) -> [u8; 27] {
    let mut h = [0u8; 27];
    h[0] = a.i;
    h[1] = a.hl_alt as u8;
    h[2] = (a.hl_alt >> 8) as u8;
    h[3] = a.de_alt as u8;
    h[4] = (a.de_alt >> 8) as u8;
    h[5] = a.bc_alt as u8;
    h[6] = (a.bc_alt >> 8) as u8;
    h[7] = a.af_alt as u8;
    h[8] = (a.af_alt >> 8) as u8;
    h[9] = a.hl as u8;
    h[10] = (a.hl >> 8) as u8;
    h[11] = a.de as u8;
    h[12] = (a.de >> 8) as u8;
    h[13] = a.bc as u8;
    h[14] = (a.bc >> 8) as u8;
    h[15] = a.iy as u8;
    h[16] = (a.iy >> 8) as u8;
    h[17] = a.ix as u8;
    h[18] = (a.ix >> 8) as u8;
    h[19] = (junk19 & !0x04) | if a.iff2 { 0x04 } else { 0 };
    h[20] = a.r;
    h[21] = a.af as u8;
    h[22] = (a.af >> 8) as u8;
    h[23] = a.sp as u8;
    h[24] = (a.sp >> 8) as u8;
    h[25] = a.im;
    h[26] = a.border;
    h
}

/// file offset of RAM byte (`bank`, `off`) in a 48K SNA: banks in address order 4000, 8000, C000
pub(crate) fn spec_off48(page_index: u8, off: usize) -> usize {
    27 + page_index as usize * 16384 + off
}

/// file offset of RAM byte (`bank`, `off`) in a 128K SNA whose port-7FFD byte pages `paged` at C000
pub(crate) fn spec_off128(bank: u8, paged: u8, off: usize) -> usize {
    if bank == 5 {
        27 + off
    } else if bank == 2 {
        27 + 16384 + off
    } else if bank == paged {
        27 + 32768 + off
    } else {
        // remaining banks ascending, skipping 5, 2 and the paged one
        let mut rank = 0usize;
        let mut b = 0u8;
        while b < bank {
            if b != 5 && b != 2 && b != paged {
                rank += 1;
            }
            b += 1;
        }
        49183 + rank * 16384 + off
    }
}

pub(crate) fn spec_len128(paged: u8) -> usize {
    if paged == 5 || paged == 2 {
        SPEC_SNA128_LEN_DUP
    } else {
        SPEC_SNA128_LEN
    }
}

/// 128K memory map a 7FFD value describes: (bank at C000, ROM at 0000, screen bank, locked)
pub(crate) fn spec_7ffd(v: u8) -> (u8, u8, u8, bool) {
    (v & 7, (v >> 4) & 1, if v & 8 != 0 { 7 } else { 5 }, v & 0x20 != 0)
}

/// Reads the SNA-carried items back through the public register API.  The alternate set is read
/// by swapping it in (EXX / EX AF,AF' are C01's business), never through the `_alt` getters.
pub(crate) fn read_abs(e: &mut Emulator<VHost>) -> Abs {
    let border: u8 = e.border_color().into();
    let c = cpu(e);
    c.regs.exx();
    c.regs.swap_af_alt();
    let (hl_alt, de_alt, bc_alt, af_alt) = (c.regs.get_hl(), c.regs.get_de(), c.regs.get_bc(), c.regs.get_af());
    c.regs.exx();
    c.regs.swap_af_alt();
    Abs {
        i: c.regs.get_i(),
        hl_alt,
        de_alt,
        bc_alt,
        af_alt,
        hl: c.regs.get_hl(),
        de: c.regs.get_de(),
        bc: c.regs.get_bc(),
        iy: c.regs.get_iy(),
        ix: c.regs.get_ix(),
        iff2: c.regs.get_iff2(),
        r: c.regs.get_r(),
        af: c.regs.get_af(),
        sp: c.regs.get_sp(),
        im: c.get_im().into(),
        border,
    }
}

pub(crate) fn set_abs_regs(c: &mut Z80, a: &Abs) {
    c.regs.set_hl(a.hl_alt);
    c.regs.set_de(a.de_alt);
    c.regs.set_bc(a.bc_alt);
    c.regs.set_af(a.af_alt);
    c.regs.exx();
    c.regs.swap_af_alt();
    c.regs.set_hl(a.hl);
    c.regs.set_de(a.de);
    c.regs.set_bc(a.bc);
    c.regs.set_af(a.af);
    c.regs.set_i(a.i);
    c.regs.set_r(a.r);
    c.regs.set_iy(a.iy);
    c.regs.set_ix(a.ix);
    c.regs.set_sp(a.sp);
    c.regs.set_iff2(a.iff2);
    c.set_im(a.im);
}

/// puts an emulator into abstract state `a` (registers through the public setters, border through
/// the controller's own setter)
pub(crate) fn set_abs(e: &mut Emulator<VHost>, a: &Abs) {
    set_abs_regs(cpu(e), a);
    controller(e).set_border_color(0, ZXColor::from_bits(a.border));
}

/// field-wise comparison of two `Abs` with one role string per field
macro_rules! assert_abs_eq {
    ($x:expr, $y:expr, $p:literal) => {{
        let (x, y): (&Abs, &Abs) = (&$x, &$y);
        kani::assert(x.i == y.i, concat!($p, ".i"));
        kani::assert(x.hl_alt == y.hl_alt, concat!($p, ".hl_alt"));
        kani::assert(x.de_alt == y.de_alt, concat!($p, ".de_alt"));
        kani::assert(x.bc_alt == y.bc_alt, concat!($p, ".bc_alt"));
        kani::assert(x.af_alt == y.af_alt, concat!($p, ".af_alt"));
        kani::assert(x.hl == y.hl, concat!($p, ".hl"));
        kani::assert(x.de == y.de, concat!($p, ".de"));
        kani::assert(x.bc == y.bc, concat!($p, ".bc"));
        kani::assert(x.iy == y.iy, concat!($p, ".iy"));
        kani::assert(x.ix == y.ix, concat!($p, ".ix"));
        kani::assert(x.iff2 == y.iff2, concat!($p, ".iff2"));
        kani::assert(x.r == y.r, concat!($p, ".r"));
        kani::assert(x.af == y.af, concat!($p, ".af"));
        kani::assert(x.sp == y.sp, concat!($p, ".sp"));
        kani::assert(x.im == y.im, concat!($p, ".im"));
        kani::assert(x.border == y.border, concat!($p, ".border"));
    }};
}
pub(crate) use assert_abs_eq;

// ================================================================================================
// receivers and savers
// ================================================================================================

/// A receiving emulator "doing something else": arbitrary registers, border, 128K latch written
/// through the real port handler.  CPU control state (halted / EI pending / prefix pending) and
/// the paging lock are chosen by the caller because they are the subject of known findings.
pub(crate) fn receiver(machine: ZXMachine, dirty_ctl: bool, latch0: u8) -> Emulator<VHost> {
    let mut e = mk_emulator(machine, CTX);
    set_abs(&mut e, &any_abs());
    cpu(&mut e).regs.set_pc(kani::any());
    cpu(&mut e).regs.set_iff1(kani::any());
    if dirty_ctl {
        if kani::any() {
            seed_pending_dd_prefix(cpu(&mut e));
        }
        cpu(&mut e).halted = kani::any();
        cpu(&mut e).skip_interrupt = kani::any();
    }
    if machine == ZXMachine::Sinclair128K {
        controller(&mut e).write_7ffd(latch0);
    }
    e
}

fn ram_byte(e: &mut Emulator<VHost>, bank: u8, off: usize) -> u8 {
    controller(e).memory.ram_page_data(bank)[off]
}

fn set_ram_byte(e: &mut Emulator<VHost>, bank: u8, off: usize, v: u8) {
    controller(e).memory.ram_page_data_mut(bank)[off] = v;
}

/// CPU address of 48K RAM byte (page_index, off)
fn addr48(page_index: u8, off: usize) -> u16 {
    (0x4000 + page_index as usize * 0x4000 + off) as u16
}

// ================================================================================================
// C14 / SNA 48K
// ================================================================================================

/// Load of a well-formed 48K SNA into an arbitrary 48K receiver; witness RAM byte (page, off).
fn c14_sna48_body(page: u8, off: usize, sp: Option<u16>) {
    let mut a = any_abs();
    if let Some(sp) = sp {
        a.sp = sp;
    }
    let wv: u8 = kani::any();
    let wa = addr48(page, off);
    let asset = SparseAsset::new(SPEC_SNA48_LEN, spec_header(&a, kani::any()), [0; 4], spec_off48(page, off), wv);
    let mut e = receiver(ZXMachine::Sinclair48K, false, 0);
    // the receiver's own byte at the witness address is arbitrary; the rest of its RAM is zero, and
    // the sparse file leaves it alone: the file described here is "zero everywhere but (wa, wv)"
    set_ram_byte(&mut e, page, off, kani::any());
    let r = load(&mut e, asset);
    kani::assert(r.is_ok(), "c14.sna48.accepted");
    let got = read_abs(&mut e);
    let mut want = a;
    want.sp = a.sp.wrapping_add(2);
    assert_abs_eq!(got, want, "c14.sna48");
    kani::assert(cpu(&mut e).regs.get_iff1() == a.iff2, "c14.sna48.iff1_follows_iff2");
    kani::assert(e.peek(wa) == wv, "c14.sna48.ram_witness");
    // PC is the word the file holds at SP (format keeps PC on the stack); meaningful when both bytes are RAM
    if a.sp >= 0x4000 && a.sp < 0xFFFF {
        let lo = if a.sp == wa { wv } else { 0 };
        let hi = if a.sp + 1 == wa { wv } else { 0 };
        kani::assert(cpu(&mut e).regs.get_pc() == u16::from_le_bytes([lo, hi]), "c14.sna48.pc_from_stack");
    }
    kani::assert(!cpu(&mut e).halted && !cpu(&mut e).skip_interrupt, "c14.sna48.running_no_ei_pending");
    kani::cover!(a.hl_alt != a.hl && a.border == 7 && a.im == 2 && a.iff2 && wv == 0x76, "header fields free");
}

// @harness
// @prop C14
// @tier quick
// @timeout 900
// @fn sna::load; LoadableAsset::read_exact; Z80::pop_pc_from_stack; Z80::set_im; ZXController::set_border_color; ZXMemory::ram_page_data_mut; Regs setters
// @sym all 27 header bytes through the spec encoder (every register, IFF2, IM 0..2, border 0..7, undefined bits of byte 19), witness RAM value, receiver registers/border/PC/IFF1, receiver's byte at the witness address
// @assert load returns Ok; every SNA item equals the encoded abstract state (SP advanced by the PC pop), IFF1 = IFF2, PC = the word at SP when SP,SP+1 are RAM, RAM witness = file byte, CPU neither halted nor EI-pending
// @bound one load; 48K; SP fully symbolic (the PC pop reads RAM at a symbolic address); witness = first byte of page 0 (0x4000); other pages/offsets in sibling harnesses
// @stub ZXController::refresh_memory_dependent_devices -> no-op; ZXScreen::process_clocks -> no-op (display is C08's subject)
// @assume receiver CPU not halted / no EI pending / no prefix pending before the load (that region: c14_sna_into_busy_cpu)
// @outside RAM offsets not in the concrete witness class (page transfers are whole-slice copies); display refresh
// @replay solver-only
#[kani::proof]
#[kani::unwind(29)]
#[kani::stub(ZXController::refresh_memory_dependent_devices, noop_refresh)]
#[kani::stub(ZXScreen::process_clocks, noop_screen_clocks)]
fn c14_sna48_load_p0_first() {
    c14_sna48_body(0, 0, None);
}

// ================================================================================================
// C14 / SNA 128K
// ================================================================================================

/// Load of a well-formed 128K SNA (port byte = `hi` bits | `paged`) into an arbitrary unlocked 128K
/// receiver; witness RAM byte (bank, off).
fn c14_sna128_body(bank: u8, paged: u8, off: usize, hi: u8, latch0: u8) {
    let a = any_abs();
    let wv: u8 = kani::any();
    let pc: u16 = kani::any();
    let latch = (hi & 0xF8) | paged;
    let trdos: u8 = kani::any();
    let [pcl, pch] = pc.to_le_bytes();
    let asset = SparseAsset::new(
        spec_len128(paged),
        spec_header(&a, kani::any()),
        [pcl, pch, latch, trdos],
        spec_off128(bank, paged, off),
        wv,
    );
    let mut e = receiver(ZXMachine::Sinclair128K, false, latch0);
    set_ram_byte(&mut e, bank, off, kani::any());
    let r = load(&mut e, asset);
    kani::assert(r.is_ok(), "c14.sna128.accepted");
    let got = read_abs(&mut e);
    assert_abs_eq!(got, a, "c14.sna128");
    kani::assert(cpu(&mut e).regs.get_iff1() == a.iff2, "c14.sna128.iff1_follows_iff2");
    kani::assert(cpu(&mut e).regs.get_pc() == pc, "c14.sna128.pc");
    let (p3, rom, scr, locked) = spec_7ffd(latch);
    let c = controller(&mut e);
    kani::assert(c.read_7ffd() == latch, "c14.sna128.latch");
    kani::assert(ch::paging_enabled(c) == !locked, "c14.sna128.lock");
    kani::assert(ch::screen_bank(c) == scr, "c14.sna128.screen_bank");
    kani::assert(c.memory.get_page(0x0000) == crate::zx::memory::Page::Rom(rom), "c14.sna128.map_rom");
    kani::assert(c.memory.get_page(0x4000) == crate::zx::memory::Page::Ram(5), "c14.sna128.map_4000");
    kani::assert(c.memory.get_page(0x8000) == crate::zx::memory::Page::Ram(2), "c14.sna128.map_8000");
    kani::assert(c.memory.get_page(0xC000) == crate::zx::memory::Page::Ram(p3), "c14.sna128.map_c000");
    kani::assert(ram_byte(&mut e, bank, off) == wv, "c14.sna128.ram_witness");
    if bank == paged {
        kani::assert(e.peek((0xC000 + off) as u16) == wv, "c14.sna128.ram_witness_cpu_view");
    }
    kani::assert(!cpu(&mut e).halted && !cpu(&mut e).skip_interrupt, "c14.sna128.running_no_ei_pending");
    kani::cover!(a.hl_alt != a.hl && pc == 0x8001 && a.im == 2 && a.iff2, "all header fields free");
}

// ================================================================================================
// C13 / round trip
// ================================================================================================

#[derive(Clone, Copy, PartialEq, Eq)]
enum SpMode {
    /// SP = the given value; the witness byte is none of the two bytes below SP
    At(u16),
    /// SP = wa + 2: the witness file byte is the one that carries PC's low byte
    PcLo,
    /// SP = wa + 1: the witness file byte carries PC's high byte
    PcHi,
}

/// `true` iff the two bytes below `sp` are RAM on a 48K machine (the statement's proviso)
fn below_sp_is_ram48(sp: u16) -> bool {
    sp.wrapping_sub(2) >= 0x4000 && sp.wrapping_sub(1) >= 0x4000
}

struct Saved48 {
    a: Abs,
    pc: u16,
    wv: u8,
    rec: SparseRecorder,
}

/// save half, 48K: arbitrary running machine -> sparse recorder; asserts "saving is side-effect free"
fn c13_save48(page: u8, off: usize, mode: SpMode, in_proviso: bool) -> Saved48 {
    c13_save48_rec(page, off, mode, in_proviso, NO_FAULT, 0)
}

/// as c13_save48, with a recorder that refuses write call `fail_at` (then the save must fail and
/// the running machine must be unchanged all the same)
fn c13_save48_rec(page: u8, off: usize, mode: SpMode, in_proviso: bool, fail_at: u8, fail_kind: u8) -> Saved48 {
    let mut a = any_abs();
    let pc: u16 = kani::any();
    let iff1: bool = kani::any();
    let wv: u8 = kani::any();
    let wa = addr48(page, off);
    match mode {
        SpMode::At(sp) => a.sp = sp,
        SpMode::PcLo => a.sp = wa.wrapping_add(2),
        SpMode::PcHi => a.sp = wa.wrapping_add(1),
    }
    if in_proviso {
        kani::assume(below_sp_is_ram48(a.sp));
        if let SpMode::At(_) = mode {
            kani::assume(wa != a.sp.wrapping_sub(1) && wa != a.sp.wrapping_sub(2));
        }
    }
    let fc: usize = kani::any();
    kani::assume(fc < 69888);
    let mut s = mk_emulator(ZXMachine::Sinclair48K, CTX);
    set_abs(&mut s, &a);
    cpu(&mut s).regs.set_pc(pc);
    cpu(&mut s).regs.set_iff1(iff1);
    controller(&mut s).frame_clocks = fc;
    // the saver may be waiting in HALT (its PC then rests on the HALT opcode): the format carries no such
    // flag, the file must hold that very PC so that the restored machine re-enters the wait
    let was_halted: bool = kani::any();
    cpu(&mut s).halted = was_halted;
    set_ram_byte(&mut s, page, off, wv);
    let mut rec = SparseRecorder::new(spec_off48(page, off));
    rec.fail_at = fail_at;
    rec.fail_kind = fail_kind;
    let r = save(&mut s, &mut rec);
    if fail_at == NO_FAULT {
        kani::assert(r.is_ok(), "c13.save48.ok");
        kani::assert(rec.len == SPEC_SNA48_LEN, "c13.save48.file_length");
    } else {
        kani::assert(r.is_err(), "c13.save48.recorder_failure_surfaces_as_err");
    }
    let after = read_abs(&mut s);
    assert_abs_eq!(after, a, "c13.save48.saver_unchanged");
    kani::assert(cpu(&mut s).regs.get_pc() == pc, "c13.save48.saver_unchanged.pc");
    kani::assert(cpu(&mut s).regs.get_iff1() == iff1, "c13.save48.saver_unchanged.iff1");
    kani::assert(s.peek(wa) == wv, "c13.save48.saver_unchanged.ram");
    kani::assert(controller(&mut s).frame_clocks == fc, "c13.save48.saver_unchanged.frame_clock");
    kani::assert(cpu(&mut s).halted == was_halted && !cpu(&mut s).skip_interrupt, "c13.save48.saver_unchanged.control_state");
    Saved48 { a, pc, wv, rec }
}

fn c13_rt48_body(page: u8, off: usize, mode: SpMode) {
    let sv = c13_save48(page, off, mode, true);
    let (a, pc, wv) = (sv.a, sv.pc, sv.wv);
    let wa = addr48(page, off);
    let asset = SparseAsset::new(sv.rec.len, sv.rec.head, sv.rec.tail, sv.rec.woff, sv.rec.wval);
    let mut b = receiver(ZXMachine::Sinclair48K, false, 0);
    set_ram_byte(&mut b, page, off, kani::any());
    let r = load(&mut b, asset);
    kani::assert(r.is_ok(), "c13.rt48.load_ok");
    let got = read_abs(&mut b);
    assert_abs_eq!(got, a, "c13.rt48");
    match mode {
        SpMode::At(_) => kani::assert(b.peek(wa) == wv, "c13.rt48.ram_witness"),
        SpMode::PcLo => kani::assert(cpu(&mut b).regs.get_pc() as u8 == pc as u8, "c13.rt48.pc_low"),
        SpMode::PcHi => kani::assert((cpu(&mut b).regs.get_pc() >> 8) as u8 == (pc >> 8) as u8, "c13.rt48.pc_high"),
    }
    kani::assert(!cpu(&mut b).halted && !cpu(&mut b).skip_interrupt, "c13.rt48.running");
    kani::cover!(a.im == 2 && a.iff2 && a.border == 5 && pc == 0xABCD && a.af_alt != a.af, "saver state free");
}

// @harness
// @prop C13 C06
// @tier quick
// @timeout 300
// @fn ZXController::write_7ffd; ZXController::read_7ffd
// @sym 128K machine; a locking latch value (bit 5 set, everything else symbolic) and any later value written to the port
// @assert what the 128K SNA saver reads as "the value of port 7FFD" (read_7ffd) is the last ACCEPTED value: a write that the locked latch ignores changes neither the value reported to the saver nor the lock, the bank at C000, the ROM or the screen bank
// @bound two port writes
#[kani::proof]
fn c13_locked_latch_keeps_its_value() {
    let mut e = mk_emulator(ZXMachine::Sinclair128K, CTX);
    let v1: u8 = kani::any();
    kani::assume(v1 & 0x20 != 0);
    let v2: u8 = kani::any();
    controller(&mut e).write_7ffd(v1);
    controller(&mut e).write_7ffd(v2);
    let c = controller(&mut e);
    kani::assert(c.read_7ffd() == v1, "c13.latch.value_reported_to_the_saver_is_the_last_accepted_one");
    kani::assert(!ch::paging_enabled(c), "c13.latch.stays_locked");
    kani::assert(c.memory.get_page(0xC000) == crate::zx::memory::Page::Ram(v1 & 7), "c13.latch.bank_unchanged");
    kani::assert(c.memory.get_page(0x0000) == crate::zx::memory::Page::Rom((v1 >> 4) & 1), "c13.latch.rom_unchanged");
    kani::assert(ch::screen_bank(c) == if v1 & 8 != 0 { 7 } else { 5 }, "c13.latch.screen_unchanged");
    kani::cover!(v2 & 0x20 == 0 && v2 & 7 != v1 & 7, "ignored write asks for another bank and no lock");
}

/// 128K round trip with concrete 7FFD values: `hi`|`paged` in the saver, `latch0` in the receiver.
fn c13_rt128_body(bank: u8, paged: u8, off: usize, hi: u8, latch0: u8) {
    let a = any_abs();
    let pc: u16 = kani::any();
    let iff1: bool = kani::any();
    let wv: u8 = kani::any();
    let latch = (hi & 0xF8) | paged;
    let fc: usize = kani::any();
    kani::assume(fc < 70908);
    let mut s = mk_emulator(ZXMachine::Sinclair128K, CTX);
    set_abs(&mut s, &a);
    cpu(&mut s).regs.set_pc(pc);
    cpu(&mut s).regs.set_iff1(iff1);
    controller(&mut s).frame_clocks = fc;
    controller(&mut s).write_7ffd(latch);
    if latch & 0x20 != 0 {
        // paging is locked: whatever the program writes to the latch afterwards is ignored by the hardware
        // and must leave no trace in the snapshot either (literal value: a symbolic one would make the file
        // layout symbolic on a tree that wrongly records it; all values: c13_locked_latch_keeps_its_value)
        controller(&mut s).write_7ffd(latch ^ 0x17);
    }
    set_ram_byte(&mut s, bank, off, wv);
    // the saver may be waiting in HALT: the file holds the PC of the HALT opcode (see c13_save48_rec)
    let was_halted: bool = kani::any();
    cpu(&mut s).halted = was_halted;
    let mut rec = SparseRecorder::new(spec_off128(bank, paged, off));
    let r = save(&mut s, &mut rec);
    kani::assert(r.is_ok(), "c13.save128.ok");
    kani::assert(rec.len == spec_len128(paged), "c13.save128.file_length");
    let after = read_abs(&mut s);
    assert_abs_eq!(after, a, "c13.save128.saver_unchanged");
    kani::assert(cpu(&mut s).regs.get_pc() == pc, "c13.save128.saver_unchanged.pc");
    kani::assert(cpu(&mut s).regs.get_iff1() == iff1, "c13.save128.saver_unchanged.iff1");
    kani::assert(ram_byte(&mut s, bank, off) == wv, "c13.save128.saver_unchanged.ram");
    kani::assert(controller(&mut s).read_7ffd() == latch, "c13.save128.saver_unchanged.latch");
    kani::assert(ch::paging_enabled(controller(&mut s)) == (latch & 0x20 == 0), "c13.save128.saver_unchanged.lock");
    kani::assert(controller(&mut s).frame_clocks == fc, "c13.save128.saver_unchanged.frame_clock");
    kani::assert(cpu(&mut s).halted == was_halted, "c13.save128.saver_unchanged.halt_state");

    let asset = SparseAsset::new(rec.len, rec.head, rec.tail, rec.woff, rec.wval);
    let mut b = receiver(ZXMachine::Sinclair128K, false, latch0);
    set_ram_byte(&mut b, bank, off, kani::any());
    let r = load(&mut b, asset);
    kani::assert(r.is_ok(), "c13.rt128.load_ok");
    let got = read_abs(&mut b);
    assert_abs_eq!(got, a, "c13.rt128");
    kani::assert(cpu(&mut b).regs.get_pc() == pc, "c13.rt128.pc");
    let cb = controller(&mut b);
    kani::assert(cb.read_7ffd() == latch, "c13.rt128.latch");
    kani::assert(ch::paging_enabled(cb) == (latch & 0x20 == 0), "c13.rt128.lock");
    kani::assert(cb.memory.get_page(0xC000) == crate::zx::memory::Page::Ram(paged), "c13.rt128.map_c000");
    kani::assert(cb.memory.get_page(0x0000) == crate::zx::memory::Page::Rom((latch >> 4) & 1), "c13.rt128.map_rom");
    kani::assert(ch::screen_bank(cb) == if latch & 8 != 0 { 7 } else { 5 }, "c13.rt128.screen_bank");
    kani::assert(ram_byte(&mut b, bank, off) == wv, "c13.rt128.ram_witness");
    if bank == paged {
        kani::assert(b.peek((0xC000 + off) as u16) == wv, "c13.rt128.ram_witness_cpu_view");
    }
    kani::assert(!cpu(&mut b).halted && !cpu(&mut b).skip_interrupt, "c13.rt128.running");
}

// @harness
// @prop C13
// @tier quick
// @timeout 600
// @fn sna::save; sna::load; ScopedSnapshotState::enter/drop; Z80::push_pc_to_stack; Z80::pop_pc_from_stack; Regs alt getters; ZXController::write_7ffd; ZXController::read_7ffd; ZXMemory::ram_page_data(_mut); DataRecorder::write_all; LoadableAsset::read_exact
// @sym saver: every register incl. alternates, I, R, IX, IY, IFF1, IFF2, IM, border, PC, frame clock, witness RAM value; receiver: all registers, border, PC, IFF1, its own byte at the witness address
// @assert save Ok, file length 49179; saver registers/PC/IFF1/RAM witness (also when it is one of the two bytes below SP)/frame clock unchanged; after load every SNA item equals the saver's, RAM witness equal / PC byte carried by the witness equal; receiver running
// @bound 1 save + 1 load, 48K; witness page 0 offset 0; SP At(0x8000) (concrete class), everything else symbolic
// @assume receiver CPU not halted / EI-pending / mid-prefix before the load (that region: c13_rt128_into_busy_cpu); the two bytes below SP are RAM (statement's 48K proviso)
// @outside RAM offsets outside the witness class {0,1,0x1AFF,0x1B00,0x3FFE,0x3FFF} (whole-page slice copies); symbolic SP (a symbolic-address store into the 48K Vec followed by the recorder reads did not finish in 900 s); display refresh
// @stub ZXController::refresh_memory_dependent_devices -> no-op; ZXScreen::process_clocks -> no-op (display is C08's subject)
// @replay solver-only
#[kani::proof]
#[kani::unwind(29)]
#[kani::stub(ZXController::refresh_memory_dependent_devices, noop_refresh)]
#[kani::stub(ZXScreen::process_clocks, noop_screen_clocks)]
fn c13_rt48_p0_first_sp8000() {
    c13_rt48_body(0, 0, SpMode::At(0x8000));
}

// @harness
// @prop C13
// @tier quick
// @timeout 600
// @fn sna::save; sna::load; ScopedSnapshotState::enter/drop; Z80::push_pc_to_stack; Z80::pop_pc_from_stack; Regs alt getters; ZXController::write_7ffd; ZXController::read_7ffd; ZXMemory::ram_page_data(_mut); DataRecorder::write_all; LoadableAsset::read_exact
// @sym saver: every register incl. alternates, I, R, IX, IY, IFF1, IFF2, IM, border, PC, frame clock, witness RAM value; receiver: all registers, border, PC, IFF1, its own byte at the witness address
// @assert save Ok, file length 49179; saver registers/PC/IFF1/RAM witness (also when it is one of the two bytes below SP)/frame clock unchanged; after load every SNA item equals the saver's, RAM witness equal / PC byte carried by the witness equal; receiver running
// @bound 1 save + 1 load, 48K; witness page 1 offset 0x3FFF; SP At(0xFFFF) (concrete class), everything else symbolic
// @assume receiver CPU not halted / EI-pending / mid-prefix before the load (that region: c13_rt128_into_busy_cpu); the two bytes below SP are RAM (statement's 48K proviso)
// @outside RAM offsets outside the witness class {0,1,0x1AFF,0x1B00,0x3FFE,0x3FFF} (whole-page slice copies); symbolic SP (a symbolic-address store into the 48K Vec followed by the recorder reads did not finish in 900 s); display refresh
// @stub ZXController::refresh_memory_dependent_devices -> no-op; ZXScreen::process_clocks -> no-op (display is C08's subject)
// @replay solver-only
#[kani::proof]
#[kani::unwind(29)]
#[kani::stub(ZXController::refresh_memory_dependent_devices, noop_refresh)]
#[kani::stub(ZXScreen::process_clocks, noop_screen_clocks)]
fn c13_rt48_p1_last_spffff() {
    c13_rt48_body(1, 0x3FFF, SpMode::At(0xFFFF));
}

// @harness
// @prop C13
// @tier quick
// @timeout 600
// @fn sna::save; sna::load; ScopedSnapshotState::enter/drop; Z80::push_pc_to_stack; Z80::pop_pc_from_stack; Regs alt getters; ZXController::write_7ffd; ZXController::read_7ffd; ZXMemory::ram_page_data(_mut); DataRecorder::write_all; LoadableAsset::read_exact
// @sym saver: every register incl. alternates, I, R, IX, IY, IFF1, IFF2, IM, border, PC, frame clock, witness RAM value; receiver: all registers, border, PC, IFF1, its own byte at the witness address
// @assert save Ok, file length 49179; saver registers/PC/IFF1/RAM witness (also when it is one of the two bytes below SP)/frame clock unchanged; after load every SNA item equals the saver's, RAM witness equal / PC byte carried by the witness equal; receiver running
// @bound 1 save + 1 load, 48K; witness page 2 offset 0x1B00; SP At(0x0000) (concrete class), everything else symbolic
// @assume receiver CPU not halted / EI-pending / mid-prefix before the load (that region: c13_rt128_into_busy_cpu); the two bytes below SP are RAM (statement's 48K proviso)
// @outside RAM offsets outside the witness class {0,1,0x1AFF,0x1B00,0x3FFE,0x3FFF} (whole-page slice copies); symbolic SP (a symbolic-address store into the 48K Vec followed by the recorder reads did not finish in 900 s); display refresh
// @stub ZXController::refresh_memory_dependent_devices -> no-op; ZXScreen::process_clocks -> no-op (display is C08's subject)
// @replay solver-only
#[kani::proof]
#[kani::unwind(29)]
#[kani::stub(ZXController::refresh_memory_dependent_devices, noop_refresh)]
#[kani::stub(ZXScreen::process_clocks, noop_screen_clocks)]
fn c13_rt48_p2_attr_sp0000() {
    c13_rt48_body(2, 0x1B00, SpMode::At(0x0000));
}

// @harness
// @prop C13
// @tier quick
// @timeout 600
// @fn sna::save; sna::load; ScopedSnapshotState::enter/drop; Z80::push_pc_to_stack; Z80::pop_pc_from_stack; Regs alt getters; ZXController::write_7ffd; ZXController::read_7ffd; ZXMemory::ram_page_data(_mut); DataRecorder::write_all; LoadableAsset::read_exact
// @sym saver: every register incl. alternates, I, R, IX, IY, IFF1, IFF2, IM, border, PC, frame clock, witness RAM value; receiver: all registers, border, PC, IFF1, its own byte at the witness address
// @assert save Ok, file length 49179; saver registers/PC/IFF1/RAM witness (also when it is one of the two bytes below SP)/frame clock unchanged; after load every SNA item equals the saver's, RAM witness equal / PC byte carried by the witness equal; receiver running
// @bound 1 save + 1 load, 48K; witness page 0 offset 0x1AFF; SP PcLo (concrete class), everything else symbolic
// @assume receiver CPU not halted / EI-pending / mid-prefix before the load (that region: c13_rt128_into_busy_cpu); the two bytes below SP are RAM (statement's 48K proviso)
// @outside RAM offsets outside the witness class {0,1,0x1AFF,0x1B00,0x3FFE,0x3FFF} (whole-page slice copies); symbolic SP (a symbolic-address store into the 48K Vec followed by the recorder reads did not finish in 900 s); display refresh
// @stub ZXController::refresh_memory_dependent_devices -> no-op; ZXScreen::process_clocks -> no-op (display is C08's subject)
// @replay solver-only
#[kani::proof]
#[kani::unwind(29)]
#[kani::stub(ZXController::refresh_memory_dependent_devices, noop_refresh)]
#[kani::stub(ZXScreen::process_clocks, noop_screen_clocks)]
fn c13_rt48_pc_low_p0() {
    c13_rt48_body(0, 0x1AFF, SpMode::PcLo);
}

// @harness
// @prop C13
// @tier quick
// @timeout 600
// @fn sna::save; sna::load; ScopedSnapshotState::enter/drop; Z80::push_pc_to_stack; Z80::pop_pc_from_stack; Regs alt getters; ZXController::write_7ffd; ZXController::read_7ffd; ZXMemory::ram_page_data(_mut); DataRecorder::write_all; LoadableAsset::read_exact
// @sym saver: every register incl. alternates, I, R, IX, IY, IFF1, IFF2, IM, border, PC, frame clock, witness RAM value; receiver: all registers, border, PC, IFF1, its own byte at the witness address
// @assert save Ok, file length 49179; saver registers/PC/IFF1/RAM witness (also when it is one of the two bytes below SP)/frame clock unchanged; after load every SNA item equals the saver's, RAM witness equal / PC byte carried by the witness equal; receiver running
// @bound 1 save + 1 load, 48K; witness page 0 offset 0x3FFF; SP PcLo (concrete class), everything else symbolic
// @assume receiver CPU not halted / EI-pending / mid-prefix before the load (that region: c13_rt128_into_busy_cpu); the two bytes below SP are RAM (statement's 48K proviso)
// @outside RAM offsets outside the witness class {0,1,0x1AFF,0x1B00,0x3FFE,0x3FFF} (whole-page slice copies); symbolic SP (a symbolic-address store into the 48K Vec followed by the recorder reads did not finish in 900 s); display refresh
// @stub ZXController::refresh_memory_dependent_devices -> no-op; ZXScreen::process_clocks -> no-op (display is C08's subject)
// @replay solver-only
#[kani::proof]
#[kani::unwind(29)]
#[kani::stub(ZXController::refresh_memory_dependent_devices, noop_refresh)]
#[kani::stub(ZXScreen::process_clocks, noop_screen_clocks)]
fn c13_rt48_pc_low_page_cross() {
    c13_rt48_body(0, 0x3FFF, SpMode::PcLo);
}

// @harness
// @prop C13
// @tier quick
// @timeout 600
// @fn sna::save; sna::load; ScopedSnapshotState::enter/drop; Z80::push_pc_to_stack; Z80::pop_pc_from_stack; Regs alt getters; ZXController::write_7ffd; ZXController::read_7ffd; ZXMemory::ram_page_data(_mut); DataRecorder::write_all; LoadableAsset::read_exact
// @sym saver: every register incl. alternates, I, R, IX, IY, IFF1, IFF2, IM, border, PC, frame clock, witness RAM value; receiver: all registers, border, PC, IFF1, its own byte at the witness address
// @assert save Ok, file length 49179; saver registers/PC/IFF1/RAM witness (also when it is one of the two bytes below SP)/frame clock unchanged; after load every SNA item equals the saver's, RAM witness equal / PC byte carried by the witness equal; receiver running
// @bound 1 save + 1 load, 48K; witness page 2 offset 0x3FFF; SP PcHi (concrete class), everything else symbolic
// @assume receiver CPU not halted / EI-pending / mid-prefix before the load (that region: c13_rt128_into_busy_cpu); the two bytes below SP are RAM (statement's 48K proviso)
// @outside RAM offsets outside the witness class {0,1,0x1AFF,0x1B00,0x3FFE,0x3FFF} (whole-page slice copies); symbolic SP (a symbolic-address store into the 48K Vec followed by the recorder reads did not finish in 900 s); display refresh
// @stub ZXController::refresh_memory_dependent_devices -> no-op; ZXScreen::process_clocks -> no-op (display is C08's subject)
// @replay solver-only
#[kani::proof]
#[kani::unwind(29)]
#[kani::stub(ZXController::refresh_memory_dependent_devices, noop_refresh)]
#[kani::stub(ZXScreen::process_clocks, noop_screen_clocks)]
fn c13_rt48_pc_high_wraps_ffff() {
    c13_rt48_body(2, 0x3FFF, SpMode::PcHi);
}

// @harness
// @prop C13
// @tier thorough
// @timeout 600
// @fn sna::save; sna::load; ScopedSnapshotState::enter/drop; Z80::push_pc_to_stack; Z80::pop_pc_from_stack; Regs alt getters; ZXController::write_7ffd; ZXController::read_7ffd; ZXMemory::ram_page_data(_mut); DataRecorder::write_all; LoadableAsset::read_exact
// @sym saver: every register incl. alternates, I, R, IX, IY, IFF1, IFF2, IM, border, PC, frame clock, witness RAM value; receiver: all registers, border, PC, IFF1, its own byte at the witness address
// @assert save Ok, file length 49179; saver registers/PC/IFF1/RAM witness (also when it is one of the two bytes below SP)/frame clock unchanged; after load every SNA item equals the saver's, RAM witness equal / PC byte carried by the witness equal; receiver running
// @bound 1 save + 1 load, 48K; witness page 0 offset 1; SP At(0x4004) (concrete class), everything else symbolic
// @assume receiver CPU not halted / EI-pending / mid-prefix before the load (that region: c13_rt128_into_busy_cpu); the two bytes below SP are RAM (statement's 48K proviso)
// @outside RAM offsets outside the witness class {0,1,0x1AFF,0x1B00,0x3FFE,0x3FFF} (whole-page slice copies); symbolic SP (a symbolic-address store into the 48K Vec followed by the recorder reads did not finish in 900 s); display refresh
// @stub ZXController::refresh_memory_dependent_devices -> no-op; ZXScreen::process_clocks -> no-op (display is C08's subject)
// @replay solver-only
#[kani::proof]
#[kani::unwind(29)]
#[kani::stub(ZXController::refresh_memory_dependent_devices, noop_refresh)]
#[kani::stub(ZXScreen::process_clocks, noop_screen_clocks)]
fn c13_rt48_p0_second_sp4004() {
    c13_rt48_body(0, 1, SpMode::At(0x4004));
}

// @harness
// @prop C13
// @tier thorough
// @timeout 600
// @fn sna::save; sna::load; ScopedSnapshotState::enter/drop; Z80::push_pc_to_stack; Z80::pop_pc_from_stack; Regs alt getters; ZXController::write_7ffd; ZXController::read_7ffd; ZXMemory::ram_page_data(_mut); DataRecorder::write_all; LoadableAsset::read_exact
// @sym saver: every register incl. alternates, I, R, IX, IY, IFF1, IFF2, IM, border, PC, frame clock, witness RAM value; receiver: all registers, border, PC, IFF1, its own byte at the witness address
// @assert save Ok, file length 49179; saver registers/PC/IFF1/RAM witness (also when it is one of the two bytes below SP)/frame clock unchanged; after load every SNA item equals the saver's, RAM witness equal / PC byte carried by the witness equal; receiver running
// @bound 1 save + 1 load, 48K; witness page 1 offset 0; SP At(0xC000) (concrete class), everything else symbolic
// @assume receiver CPU not halted / EI-pending / mid-prefix before the load (that region: c13_rt128_into_busy_cpu); the two bytes below SP are RAM (statement's 48K proviso)
// @outside RAM offsets outside the witness class {0,1,0x1AFF,0x1B00,0x3FFE,0x3FFF} (whole-page slice copies); symbolic SP (a symbolic-address store into the 48K Vec followed by the recorder reads did not finish in 900 s); display refresh
// @stub ZXController::refresh_memory_dependent_devices -> no-op; ZXScreen::process_clocks -> no-op (display is C08's subject)
// @replay solver-only
#[kani::proof]
#[kani::unwind(29)]
#[kani::stub(ZXController::refresh_memory_dependent_devices, noop_refresh)]
#[kani::stub(ZXScreen::process_clocks, noop_screen_clocks)]
fn c13_rt48_p1_first_spc000() {
    c13_rt48_body(1, 0, SpMode::At(0xC000));
}

// @harness
// @prop C13
// @tier thorough
// @timeout 600
// @fn sna::save; sna::load; ScopedSnapshotState::enter/drop; Z80::push_pc_to_stack; Z80::pop_pc_from_stack; Regs alt getters; ZXController::write_7ffd; ZXController::read_7ffd; ZXMemory::ram_page_data(_mut); DataRecorder::write_all; LoadableAsset::read_exact
// @sym saver: every register incl. alternates, I, R, IX, IY, IFF1, IFF2, IM, border, PC, frame clock, witness RAM value; receiver: all registers, border, PC, IFF1, its own byte at the witness address
// @assert save Ok, file length 49179; saver registers/PC/IFF1/RAM witness (also when it is one of the two bytes below SP)/frame clock unchanged; after load every SNA item equals the saver's, RAM witness equal / PC byte carried by the witness equal; receiver running
// @bound 1 save + 1 load, 48K; witness page 2 offset 0x3FFF; SP At(0x8001) (concrete class), everything else symbolic
// @assume receiver CPU not halted / EI-pending / mid-prefix before the load (that region: c13_rt128_into_busy_cpu); the two bytes below SP are RAM (statement's 48K proviso)
// @outside RAM offsets outside the witness class {0,1,0x1AFF,0x1B00,0x3FFE,0x3FFF} (whole-page slice copies); symbolic SP (a symbolic-address store into the 48K Vec followed by the recorder reads did not finish in 900 s); display refresh
// @stub ZXController::refresh_memory_dependent_devices -> no-op; ZXScreen::process_clocks -> no-op (display is C08's subject)
// @replay solver-only
#[kani::proof]
#[kani::unwind(29)]
#[kani::stub(ZXController::refresh_memory_dependent_devices, noop_refresh)]
#[kani::stub(ZXScreen::process_clocks, noop_screen_clocks)]
fn c13_rt48_p2_last_sp8001() {
    c13_rt48_body(2, 0x3FFF, SpMode::At(0x8001));
}

// @harness
// @prop C13
// @tier thorough
// @timeout 600
// @fn sna::save; sna::load; ScopedSnapshotState::enter/drop; Z80::push_pc_to_stack; Z80::pop_pc_from_stack; Regs alt getters; ZXController::write_7ffd; ZXController::read_7ffd; ZXMemory::ram_page_data(_mut); DataRecorder::write_all; LoadableAsset::read_exact
// @sym saver: every register incl. alternates, I, R, IX, IY, IFF1, IFF2, IM, border, PC, frame clock, witness RAM value; receiver: all registers, border, PC, IFF1, its own byte at the witness address
// @assert save Ok, file length 49179; saver registers/PC/IFF1/RAM witness (also when it is one of the two bytes below SP)/frame clock unchanged; after load every SNA item equals the saver's, RAM witness equal / PC byte carried by the witness equal; receiver running
// @bound 1 save + 1 load, 48K; witness page 2 offset 0; SP At(0x4002) (concrete class), everything else symbolic
// @assume receiver CPU not halted / EI-pending / mid-prefix before the load (that region: c13_rt128_into_busy_cpu); the two bytes below SP are RAM (statement's 48K proviso)
// @outside RAM offsets outside the witness class {0,1,0x1AFF,0x1B00,0x3FFE,0x3FFF} (whole-page slice copies); symbolic SP (a symbolic-address store into the 48K Vec followed by the recorder reads did not finish in 900 s); display refresh
// @stub ZXController::refresh_memory_dependent_devices -> no-op; ZXScreen::process_clocks -> no-op (display is C08's subject)
// @replay solver-only
#[kani::proof]
#[kani::unwind(29)]
#[kani::stub(ZXController::refresh_memory_dependent_devices, noop_refresh)]
#[kani::stub(ZXScreen::process_clocks, noop_screen_clocks)]
fn c13_rt48_p2_first_sp4002() {
    c13_rt48_body(2, 0, SpMode::At(0x4002));
}

// @harness
// @prop C13
// @tier thorough
// @timeout 600
// @fn sna::save; sna::load; ScopedSnapshotState::enter/drop; Z80::push_pc_to_stack; Z80::pop_pc_from_stack; Regs alt getters; ZXController::write_7ffd; ZXController::read_7ffd; ZXMemory::ram_page_data(_mut); DataRecorder::write_all; LoadableAsset::read_exact
// @sym saver: every register incl. alternates, I, R, IX, IY, IFF1, IFF2, IM, border, PC, frame clock, witness RAM value; receiver: all registers, border, PC, IFF1, its own byte at the witness address
// @assert save Ok, file length 49179; saver registers/PC/IFF1/RAM witness (also when it is one of the two bytes below SP)/frame clock unchanged; after load every SNA item equals the saver's, RAM witness equal / PC byte carried by the witness equal; receiver running
// @bound 1 save + 1 load, 48K; witness page 1 offset 0x3FFE; SP At(0x0000) (concrete class), everything else symbolic
// @assume receiver CPU not halted / EI-pending / mid-prefix before the load (that region: c13_rt128_into_busy_cpu); the two bytes below SP are RAM (statement's 48K proviso)
// @outside RAM offsets outside the witness class {0,1,0x1AFF,0x1B00,0x3FFE,0x3FFF} (whole-page slice copies); symbolic SP (a symbolic-address store into the 48K Vec followed by the recorder reads did not finish in 900 s); display refresh
// @stub ZXController::refresh_memory_dependent_devices -> no-op; ZXScreen::process_clocks -> no-op (display is C08's subject)
// @replay solver-only
#[kani::proof]
#[kani::unwind(29)]
#[kani::stub(ZXController::refresh_memory_dependent_devices, noop_refresh)]
#[kani::stub(ZXScreen::process_clocks, noop_screen_clocks)]
fn c13_rt48_p1_3ffe_sp0000() {
    c13_rt48_body(1, 0x3FFE, SpMode::At(0x0000));
}

// @harness
// @prop C13
// @tier thorough
// @timeout 600
// @fn sna::save; sna::load; ScopedSnapshotState::enter/drop; Z80::push_pc_to_stack; Z80::pop_pc_from_stack; Regs alt getters; ZXController::write_7ffd; ZXController::read_7ffd; ZXMemory::ram_page_data(_mut); DataRecorder::write_all; LoadableAsset::read_exact
// @sym saver: every register incl. alternates, I, R, IX, IY, IFF1, IFF2, IM, border, PC, frame clock, witness RAM value; receiver: all registers, border, PC, IFF1, its own byte at the witness address
// @assert save Ok, file length 49179; saver registers/PC/IFF1/RAM witness (also when it is one of the two bytes below SP)/frame clock unchanged; after load every SNA item equals the saver's, RAM witness equal / PC byte carried by the witness equal; receiver running
// @bound 1 save + 1 load, 48K; witness page 1 offset 0x1B00; SP PcHi (concrete class), everything else symbolic
// @assume receiver CPU not halted / EI-pending / mid-prefix before the load (that region: c13_rt128_into_busy_cpu); the two bytes below SP are RAM (statement's 48K proviso)
// @outside RAM offsets outside the witness class {0,1,0x1AFF,0x1B00,0x3FFE,0x3FFF} (whole-page slice copies); symbolic SP (a symbolic-address store into the 48K Vec followed by the recorder reads did not finish in 900 s); display refresh
// @stub ZXController::refresh_memory_dependent_devices -> no-op; ZXScreen::process_clocks -> no-op (display is C08's subject)
// @replay solver-only
#[kani::proof]
#[kani::unwind(29)]
#[kani::stub(ZXController::refresh_memory_dependent_devices, noop_refresh)]
#[kani::stub(ZXScreen::process_clocks, noop_screen_clocks)]
fn c13_rt48_pc_high_p1() {
    c13_rt48_body(1, 0x1B00, SpMode::PcHi);
}

// @harness
// @prop C13
// @tier thorough
// @timeout 600
// @fn sna::save; sna::load; ScopedSnapshotState::enter/drop; Z80::push_pc_to_stack; Z80::pop_pc_from_stack; Regs alt getters; ZXController::write_7ffd; ZXController::read_7ffd; ZXMemory::ram_page_data(_mut); DataRecorder::write_all; LoadableAsset::read_exact
// @sym saver: every register incl. alternates, I, R, IX, IY, IFF1, IFF2, IM, border, PC, frame clock, witness RAM value; receiver: all registers, border, PC, IFF1, its own byte at the witness address
// @assert save Ok, file length 49179; saver registers/PC/IFF1/RAM witness (also when it is one of the two bytes below SP)/frame clock unchanged; after load every SNA item equals the saver's, RAM witness equal / PC byte carried by the witness equal; receiver running
// @bound 1 save + 1 load, 48K; witness page 0 offset 0; SP PcLo (concrete class), everything else symbolic
// @assume receiver CPU not halted / EI-pending / mid-prefix before the load (that region: c13_rt128_into_busy_cpu); the two bytes below SP are RAM (statement's 48K proviso)
// @outside RAM offsets outside the witness class {0,1,0x1AFF,0x1B00,0x3FFE,0x3FFF} (whole-page slice copies); symbolic SP (a symbolic-address store into the 48K Vec followed by the recorder reads did not finish in 900 s); display refresh
// @stub ZXController::refresh_memory_dependent_devices -> no-op; ZXScreen::process_clocks -> no-op (display is C08's subject)
// @replay solver-only
#[kani::proof]
#[kani::unwind(29)]
#[kani::stub(ZXController::refresh_memory_dependent_devices, noop_refresh)]
#[kani::stub(ZXScreen::process_clocks, noop_screen_clocks)]
fn c13_rt48_pc_low_first_ram() {
    c13_rt48_body(0, 0, SpMode::PcLo);
}

// @harness
// @prop C13
// @tier quick
// @timeout 600
// @fn sna::save; sna::load; ScopedSnapshotState::enter/drop; Z80::push_pc_to_stack; Z80::pop_pc_from_stack; Regs alt getters; ZXController::write_7ffd; ZXController::read_7ffd; ZXMemory::ram_page_data(_mut); DataRecorder::write_all; LoadableAsset::read_exact
// @sym saver: every register incl. alternates, I, R, IX, IY, IFF1, IFF2, IM, border, PC, frame clock, witness RAM value; receiver: all registers, border, PC, IFF1, its own byte in the witness bank; 7FFD values concrete per query
// @assert save Ok, file length 131103 (147487 when bank 2/5 is paged); saver registers/PC/IFF1/RAM witness/latch/lock/frame clock unchanged; after load every SNA item, PC, 7FFD latch, lock, map at C000, ROM, screen bank equal the saver's; RAM witness equal in its bank and through the CPU map when paged
// @bound 1 save + 1 load, 128K; witness bank 0 offset 0; saver 7FFD = 0x00|0, receiver 7FFD before load = 0x07 (concrete: a symbolic port byte makes the page pointer symbolic -> CBMC out of memory at 10 GB)
// @assume receiver CPU not halted / EI-pending / mid-prefix before the load (that region: c13_rt128_into_busy_cpu)
// @outside RAM offsets outside the witness class {0,1,0x1AFF,0x1B00,0x3FFE,0x3FFF} (whole-page slice copies); symbolic SP (a symbolic-address store into the 48K Vec followed by the recorder reads did not finish in 900 s); display refresh; 7FFD values not enumerated
// @stub ZXController::refresh_memory_dependent_devices -> no-op; ZXScreen::process_clocks -> no-op (display is C08's subject)
// @replay solver-only
#[kani::proof]
#[kani::unwind(29)]
#[kani::stub(ZXController::refresh_memory_dependent_devices, noop_refresh)]
#[kani::stub(ZXScreen::process_clocks, noop_screen_clocks)]
fn c13_rt128_bank0_paged0() {
    c13_rt128_body(0, 0, 0, 0x00, 0x07);
    kani::cover!(true, "round trip completed");
}

// @harness
// @prop C13
// @tier quick
// @timeout 600
// @fn sna::save; sna::load; ScopedSnapshotState::enter/drop; Z80::push_pc_to_stack; Z80::pop_pc_from_stack; Regs alt getters; ZXController::write_7ffd; ZXController::read_7ffd; ZXMemory::ram_page_data(_mut); DataRecorder::write_all; LoadableAsset::read_exact
// @sym saver: every register incl. alternates, I, R, IX, IY, IFF1, IFF2, IM, border, PC, frame clock, witness RAM value; receiver: all registers, border, PC, IFF1, its own byte in the witness bank; 7FFD values concrete per query
// @assert save Ok, file length 131103 (147487 when bank 2/5 is paged); saver registers/PC/IFF1/RAM witness/latch/lock/frame clock unchanged; after load every SNA item, PC, 7FFD latch, lock, map at C000, ROM, screen bank equal the saver's; RAM witness equal in its bank and through the CPU map when paged
// @bound 1 save + 1 load, 128K; witness bank 1 offset 0x3FFF; saver 7FFD = 0x08|7, receiver 7FFD before load = 0x30 = paging LOCKED (concrete: a symbolic port byte makes the page pointer symbolic -> CBMC out of memory at 10 GB)
// @assume receiver CPU not halted / EI-pending / mid-prefix before the load (that region: c13_rt128_into_busy_cpu)
// @outside RAM offsets outside the witness class {0,1,0x1AFF,0x1B00,0x3FFE,0x3FFF} (whole-page slice copies); symbolic SP (a symbolic-address store into the 48K Vec followed by the recorder reads did not finish in 900 s); display refresh; 7FFD values not enumerated
// @stub ZXController::refresh_memory_dependent_devices -> no-op; ZXScreen::process_clocks -> no-op (display is C08's subject)
// @replay solver-only
#[kani::proof]
#[kani::unwind(29)]
#[kani::stub(ZXController::refresh_memory_dependent_devices, noop_refresh)]
#[kani::stub(ZXScreen::process_clocks, noop_screen_clocks)]
fn c13_rt128_bank1_paged7() {
    c13_rt128_body(1, 7, 0x3FFF, 0x08, 0x30);
    kani::cover!(true, "round trip completed");
}

// @harness
// @prop C13
// @tier quick
// @timeout 600
// @fn sna::save; sna::load; ScopedSnapshotState::enter/drop; Z80::push_pc_to_stack; Z80::pop_pc_from_stack; Regs alt getters; ZXController::write_7ffd; ZXController::read_7ffd; ZXMemory::ram_page_data(_mut); DataRecorder::write_all; LoadableAsset::read_exact
// @sym saver: every register incl. alternates, I, R, IX, IY, IFF1, IFF2, IM, border, PC, frame clock, witness RAM value; receiver: all registers, border, PC, IFF1, its own byte in the witness bank; 7FFD values concrete per query
// @assert save Ok, file length 131103 (147487 when bank 2/5 is paged); saver registers/PC/IFF1/RAM witness/latch/lock/frame clock unchanged; after load every SNA item, PC, 7FFD latch, lock, map at C000, ROM, screen bank equal the saver's; RAM witness equal in its bank and through the CPU map when paged
// @bound 1 save + 1 load, 128K; witness bank 2 offset 0x1B00; saver 7FFD = 0x10|2, receiver 7FFD before load = 0x0B (concrete: a symbolic port byte makes the page pointer symbolic -> CBMC out of memory at 10 GB)
// @assume receiver CPU not halted / EI-pending / mid-prefix before the load (that region: c13_rt128_into_busy_cpu)
// @outside RAM offsets outside the witness class {0,1,0x1AFF,0x1B00,0x3FFE,0x3FFF} (whole-page slice copies); symbolic SP (a symbolic-address store into the 48K Vec followed by the recorder reads did not finish in 900 s); display refresh; 7FFD values not enumerated
// @stub ZXController::refresh_memory_dependent_devices -> no-op; ZXScreen::process_clocks -> no-op (display is C08's subject)
// @replay solver-only
#[kani::proof]
#[kani::unwind(29)]
#[kani::stub(ZXController::refresh_memory_dependent_devices, noop_refresh)]
#[kani::stub(ZXScreen::process_clocks, noop_screen_clocks)]
fn c13_rt128_bank2_paged2() {
    c13_rt128_body(2, 2, 0x1B00, 0x10, 0x0B);
    kani::cover!(true, "round trip completed");
}

// @harness
// @prop C13
// @tier quick
// @timeout 600
// @fn sna::save; sna::load; ScopedSnapshotState::enter/drop; Z80::push_pc_to_stack; Z80::pop_pc_from_stack; Regs alt getters; ZXController::write_7ffd; ZXController::read_7ffd; ZXMemory::ram_page_data(_mut); DataRecorder::write_all; LoadableAsset::read_exact
// @sym saver: every register incl. alternates, I, R, IX, IY, IFF1, IFF2, IM, border, PC, frame clock, witness RAM value; receiver: all registers, border, PC, IFF1, its own byte in the witness bank; 7FFD values concrete per query
// @assert save Ok, file length 131103 (147487 when bank 2/5 is paged); saver registers/PC/IFF1/RAM witness/latch/lock/frame clock unchanged; after load every SNA item, PC, 7FFD latch, lock, map at C000, ROM, screen bank equal the saver's; RAM witness equal in its bank and through the CPU map when paged
// @bound 1 save + 1 load, 128K; witness bank 3 offset 0x3FFF; saver 7FFD = 0x28|3, receiver 7FFD before load = 0x35 = paging LOCKED (concrete: a symbolic port byte makes the page pointer symbolic -> CBMC out of memory at 10 GB)
// @assume receiver CPU not halted / EI-pending / mid-prefix before the load (that region: c13_rt128_into_busy_cpu)
// @outside RAM offsets outside the witness class {0,1,0x1AFF,0x1B00,0x3FFE,0x3FFF} (whole-page slice copies); symbolic SP (a symbolic-address store into the 48K Vec followed by the recorder reads did not finish in 900 s); display refresh; 7FFD values not enumerated
// @stub ZXController::refresh_memory_dependent_devices -> no-op; ZXScreen::process_clocks -> no-op (display is C08's subject)
// @replay solver-only
#[kani::proof]
#[kani::unwind(29)]
#[kani::stub(ZXController::refresh_memory_dependent_devices, noop_refresh)]
#[kani::stub(ZXScreen::process_clocks, noop_screen_clocks)]
fn c13_rt128_bank3_paged3() {
    c13_rt128_body(3, 3, 0x3FFF, 0x28, 0x35);
    kani::cover!(true, "round trip completed");
}

// @harness
// @prop C13
// @tier quick
// @timeout 600
// @fn sna::save; sna::load; ScopedSnapshotState::enter/drop; Z80::push_pc_to_stack; Z80::pop_pc_from_stack; Regs alt getters; ZXController::write_7ffd; ZXController::read_7ffd; ZXMemory::ram_page_data(_mut); DataRecorder::write_all; LoadableAsset::read_exact
// @sym saver: every register incl. alternates, I, R, IX, IY, IFF1, IFF2, IM, border, PC, frame clock, witness RAM value; receiver: all registers, border, PC, IFF1, its own byte in the witness bank; 7FFD values concrete per query
// @assert save Ok, file length 131103 (147487 when bank 2/5 is paged); saver registers/PC/IFF1/RAM witness/latch/lock/frame clock unchanged; after load every SNA item, PC, 7FFD latch, lock, map at C000, ROM, screen bank equal the saver's; RAM witness equal in its bank and through the CPU map when paged
// @bound 1 save + 1 load, 128K; witness bank 4 offset 1; saver 7FFD = 0x38|0, receiver 7FFD before load = 0x04 (concrete: a symbolic port byte makes the page pointer symbolic -> CBMC out of memory at 10 GB)
// @assume receiver CPU not halted / EI-pending / mid-prefix before the load (that region: c13_rt128_into_busy_cpu)
// @outside RAM offsets outside the witness class {0,1,0x1AFF,0x1B00,0x3FFE,0x3FFF} (whole-page slice copies); symbolic SP (a symbolic-address store into the 48K Vec followed by the recorder reads did not finish in 900 s); display refresh; 7FFD values not enumerated
// @stub ZXController::refresh_memory_dependent_devices -> no-op; ZXScreen::process_clocks -> no-op (display is C08's subject)
// @replay solver-only
#[kani::proof]
#[kani::unwind(29)]
#[kani::stub(ZXController::refresh_memory_dependent_devices, noop_refresh)]
#[kani::stub(ZXScreen::process_clocks, noop_screen_clocks)]
fn c13_rt128_bank4_paged0() {
    c13_rt128_body(4, 0, 1, 0x38, 0x04);
    kani::cover!(true, "round trip completed");
}

// @harness
// @prop C13
// @tier quick
// @timeout 600
// @fn sna::save; sna::load; ScopedSnapshotState::enter/drop; Z80::push_pc_to_stack; Z80::pop_pc_from_stack; Regs alt getters; ZXController::write_7ffd; ZXController::read_7ffd; ZXMemory::ram_page_data(_mut); DataRecorder::write_all; LoadableAsset::read_exact
// @sym saver: every register incl. alternates, I, R, IX, IY, IFF1, IFF2, IM, border, PC, frame clock, witness RAM value; receiver: all registers, border, PC, IFF1, its own byte in the witness bank; 7FFD values concrete per query
// @assert save Ok, file length 131103 (147487 when bank 2/5 is paged); saver registers/PC/IFF1/RAM witness/latch/lock/frame clock unchanged; after load every SNA item, PC, 7FFD latch, lock, map at C000, ROM, screen bank equal the saver's; RAM witness equal in its bank and through the CPU map when paged
// @bound 1 save + 1 load, 128K; witness bank 5 offset 0x1AFF; saver 7FFD = 0xC0|5, receiver 7FFD before load = 0x3E = paging LOCKED (concrete: a symbolic port byte makes the page pointer symbolic -> CBMC out of memory at 10 GB)
// @assume receiver CPU not halted / EI-pending / mid-prefix before the load (that region: c13_rt128_into_busy_cpu)
// @outside RAM offsets outside the witness class {0,1,0x1AFF,0x1B00,0x3FFE,0x3FFF} (whole-page slice copies); symbolic SP (a symbolic-address store into the 48K Vec followed by the recorder reads did not finish in 900 s); display refresh; 7FFD values not enumerated
// @stub ZXController::refresh_memory_dependent_devices -> no-op; ZXScreen::process_clocks -> no-op (display is C08's subject)
// @replay solver-only
#[kani::proof]
#[kani::unwind(29)]
#[kani::stub(ZXController::refresh_memory_dependent_devices, noop_refresh)]
#[kani::stub(ZXScreen::process_clocks, noop_screen_clocks)]
fn c13_rt128_bank5_paged5() {
    c13_rt128_body(5, 5, 0x1AFF, 0xC0, 0x3E);
    kani::cover!(true, "round trip completed");
}

// @harness
// @prop C13
// @tier quick
// @timeout 600
// @fn sna::save; sna::load; ScopedSnapshotState::enter/drop; Z80::push_pc_to_stack; Z80::pop_pc_from_stack; Regs alt getters; ZXController::write_7ffd; ZXController::read_7ffd; ZXMemory::ram_page_data(_mut); DataRecorder::write_all; LoadableAsset::read_exact
// @sym saver: every register incl. alternates, I, R, IX, IY, IFF1, IFF2, IM, border, PC, frame clock, witness RAM value; receiver: all registers, border, PC, IFF1, its own byte in the witness bank; 7FFD values concrete per query
// @assert save Ok, file length 131103 (147487 when bank 2/5 is paged); saver registers/PC/IFF1/RAM witness/latch/lock/frame clock unchanged; after load every SNA item, PC, 7FFD latch, lock, map at C000, ROM, screen bank equal the saver's; RAM witness equal in its bank and through the CPU map when paged
// @bound 1 save + 1 load, 128K; witness bank 6 offset 0x3FFE; saver 7FFD = 0x20|1, receiver 7FFD before load = 0x00 (concrete: a symbolic port byte makes the page pointer symbolic -> CBMC out of memory at 10 GB)
// @assume receiver CPU not halted / EI-pending / mid-prefix before the load (that region: c13_rt128_into_busy_cpu)
// @outside RAM offsets outside the witness class {0,1,0x1AFF,0x1B00,0x3FFE,0x3FFF} (whole-page slice copies); symbolic SP (a symbolic-address store into the 48K Vec followed by the recorder reads did not finish in 900 s); display refresh; 7FFD values not enumerated
// @stub ZXController::refresh_memory_dependent_devices -> no-op; ZXScreen::process_clocks -> no-op (display is C08's subject)
// @replay solver-only
#[kani::proof]
#[kani::unwind(29)]
#[kani::stub(ZXController::refresh_memory_dependent_devices, noop_refresh)]
#[kani::stub(ZXScreen::process_clocks, noop_screen_clocks)]
fn c13_rt128_bank6_paged1() {
    c13_rt128_body(6, 1, 0x3FFE, 0x20, 0x00);
    kani::cover!(true, "round trip completed");
}

// @harness
// @prop C13
// @tier quick
// @timeout 600
// @fn sna::save; sna::load; ScopedSnapshotState::enter/drop; Z80::push_pc_to_stack; Z80::pop_pc_from_stack; Regs alt getters; ZXController::write_7ffd; ZXController::read_7ffd; ZXMemory::ram_page_data(_mut); DataRecorder::write_all; LoadableAsset::read_exact
// @sym saver: every register incl. alternates, I, R, IX, IY, IFF1, IFF2, IM, border, PC, frame clock, witness RAM value; receiver: all registers, border, PC, IFF1, its own byte in the witness bank; 7FFD values concrete per query
// @assert save Ok, file length 131103 (147487 when bank 2/5 is paged); saver registers/PC/IFF1/RAM witness/latch/lock/frame clock unchanged; after load every SNA item, PC, 7FFD latch, lock, map at C000, ROM, screen bank equal the saver's; RAM witness equal in its bank and through the CPU map when paged
// @bound 1 save + 1 load, 128K; witness bank 7 offset 0; saver 7FFD = 0x18|7, receiver 7FFD before load = 0x23 = paging LOCKED (concrete: a symbolic port byte makes the page pointer symbolic -> CBMC out of memory at 10 GB)
// @assume receiver CPU not halted / EI-pending / mid-prefix before the load (that region: c13_rt128_into_busy_cpu)
// @outside RAM offsets outside the witness class {0,1,0x1AFF,0x1B00,0x3FFE,0x3FFF} (whole-page slice copies); symbolic SP (a symbolic-address store into the 48K Vec followed by the recorder reads did not finish in 900 s); display refresh; 7FFD values not enumerated
// @stub ZXController::refresh_memory_dependent_devices -> no-op; ZXScreen::process_clocks -> no-op (display is C08's subject)
// @replay solver-only
#[kani::proof]
#[kani::unwind(29)]
#[kani::stub(ZXController::refresh_memory_dependent_devices, noop_refresh)]
#[kani::stub(ZXScreen::process_clocks, noop_screen_clocks)]
fn c13_rt128_bank7_paged7() {
    c13_rt128_body(7, 7, 0, 0x18, 0x23);
    kani::cover!(true, "round trip completed");
}

// @harness
// @prop C13
// @tier thorough
// @timeout 3600
// @fn sna::save; sna::load; ScopedSnapshotState::enter/drop; Z80::push_pc_to_stack; Z80::pop_pc_from_stack; Regs alt getters; ZXController::write_7ffd; ZXController::read_7ffd; ZXMemory::ram_page_data(_mut); DataRecorder::write_all; LoadableAsset::read_exact
// @sym saver: every register incl. alternates, I, R, IX, IY, IFF1, IFF2, IM, border, PC, frame clock, witness RAM value; receiver: all registers, border, PC, IFF1, its own byte in the witness bank; 7FFD values concrete per query
// @assert save Ok, file length 131103 (147487 when bank 2/5 is paged); saver registers/PC/IFF1/RAM witness/latch/lock/frame clock unchanged; after load every SNA item, PC, 7FFD latch, lock, map at C000, ROM, screen bank equal the saver's; RAM witness equal in its bank and through the CPU map when paged
// @bound 8 x (1 save + 1 load), 128K; witness bank 0 offset 0; every paged bank 0..7 with rotating high 7FFD bits
// @assume receiver CPU not halted / EI-pending / mid-prefix before the load (that region: c13_rt128_into_busy_cpu)
// @outside RAM offsets outside the witness class {0,1,0x1AFF,0x1B00,0x3FFE,0x3FFF} (whole-page slice copies); symbolic SP (a symbolic-address store into the 48K Vec followed by the recorder reads did not finish in 900 s); display refresh; 7FFD values not enumerated
// @stub ZXController::refresh_memory_dependent_devices -> no-op; ZXScreen::process_clocks -> no-op (display is C08's subject)
// @replay solver-only
#[kani::proof]
#[kani::unwind(29)]
#[kani::stub(ZXController::refresh_memory_dependent_devices, noop_refresh)]
#[kani::stub(ZXScreen::process_clocks, noop_screen_clocks)]
fn c13_rt128_bank0_all_paged() {
    let his: [u8; 8] = [0x00, 0x08, 0x10, 0x20, 0x38, 0xC0, 0x28, 0x18];
    let mut paged = 0u8;
    while paged < 8 {
        c13_rt128_body(0, paged, 0, his[((paged + 0) & 7) as usize], his[((paged + 5) & 7) as usize] & 0x1F | ((paged + 3) & 7) | ((paged & 1) << 5));
        paged += 1;
    }
    kani::cover!(true, "all eight paged banks done");
}

// @harness
// @prop C13
// @tier thorough
// @timeout 3600
// @fn sna::save; sna::load; ScopedSnapshotState::enter/drop; Z80::push_pc_to_stack; Z80::pop_pc_from_stack; Regs alt getters; ZXController::write_7ffd; ZXController::read_7ffd; ZXMemory::ram_page_data(_mut); DataRecorder::write_all; LoadableAsset::read_exact
// @sym saver: every register incl. alternates, I, R, IX, IY, IFF1, IFF2, IM, border, PC, frame clock, witness RAM value; receiver: all registers, border, PC, IFF1, its own byte in the witness bank; 7FFD values concrete per query
// @assert save Ok, file length 131103 (147487 when bank 2/5 is paged); saver registers/PC/IFF1/RAM witness/latch/lock/frame clock unchanged; after load every SNA item, PC, 7FFD latch, lock, map at C000, ROM, screen bank equal the saver's; RAM witness equal in its bank and through the CPU map when paged
// @bound 8 x (1 save + 1 load), 128K; witness bank 1 offset 0x3FFF; every paged bank 0..7 with rotating high 7FFD bits
// @assume receiver CPU not halted / EI-pending / mid-prefix before the load (that region: c13_rt128_into_busy_cpu)
// @outside RAM offsets outside the witness class {0,1,0x1AFF,0x1B00,0x3FFE,0x3FFF} (whole-page slice copies); symbolic SP (a symbolic-address store into the 48K Vec followed by the recorder reads did not finish in 900 s); display refresh; 7FFD values not enumerated
// @stub ZXController::refresh_memory_dependent_devices -> no-op; ZXScreen::process_clocks -> no-op (display is C08's subject)
// @replay solver-only
#[kani::proof]
#[kani::unwind(29)]
#[kani::stub(ZXController::refresh_memory_dependent_devices, noop_refresh)]
#[kani::stub(ZXScreen::process_clocks, noop_screen_clocks)]
fn c13_rt128_bank1_all_paged() {
    let his: [u8; 8] = [0x00, 0x08, 0x10, 0x20, 0x38, 0xC0, 0x28, 0x18];
    let mut paged = 0u8;
    while paged < 8 {
        c13_rt128_body(1, paged, 0x3FFF, his[((paged + 1) & 7) as usize], his[((paged + 6) & 7) as usize] & 0x1F | ((paged + 3) & 7) | ((paged & 1) << 5));
        paged += 1;
    }
    kani::cover!(true, "all eight paged banks done");
}

// @harness
// @prop C13
// @tier thorough
// @timeout 3600
// @fn sna::save; sna::load; ScopedSnapshotState::enter/drop; Z80::push_pc_to_stack; Z80::pop_pc_from_stack; Regs alt getters; ZXController::write_7ffd; ZXController::read_7ffd; ZXMemory::ram_page_data(_mut); DataRecorder::write_all; LoadableAsset::read_exact
// @sym saver: every register incl. alternates, I, R, IX, IY, IFF1, IFF2, IM, border, PC, frame clock, witness RAM value; receiver: all registers, border, PC, IFF1, its own byte in the witness bank; 7FFD values concrete per query
// @assert save Ok, file length 131103 (147487 when bank 2/5 is paged); saver registers/PC/IFF1/RAM witness/latch/lock/frame clock unchanged; after load every SNA item, PC, 7FFD latch, lock, map at C000, ROM, screen bank equal the saver's; RAM witness equal in its bank and through the CPU map when paged
// @bound 8 x (1 save + 1 load), 128K; witness bank 2 offset 0x1B00; every paged bank 0..7 with rotating high 7FFD bits
// @assume receiver CPU not halted / EI-pending / mid-prefix before the load (that region: c13_rt128_into_busy_cpu)
// @outside RAM offsets outside the witness class {0,1,0x1AFF,0x1B00,0x3FFE,0x3FFF} (whole-page slice copies); symbolic SP (a symbolic-address store into the 48K Vec followed by the recorder reads did not finish in 900 s); display refresh; 7FFD values not enumerated
// @stub ZXController::refresh_memory_dependent_devices -> no-op; ZXScreen::process_clocks -> no-op (display is C08's subject)
// @replay solver-only
#[kani::proof]
#[kani::unwind(29)]
#[kani::stub(ZXController::refresh_memory_dependent_devices, noop_refresh)]
#[kani::stub(ZXScreen::process_clocks, noop_screen_clocks)]
fn c13_rt128_bank2_all_paged() {
    let his: [u8; 8] = [0x00, 0x08, 0x10, 0x20, 0x38, 0xC0, 0x28, 0x18];
    let mut paged = 0u8;
    while paged < 8 {
        c13_rt128_body(2, paged, 0x1B00, his[((paged + 2) & 7) as usize], his[((paged + 7) & 7) as usize] & 0x1F | ((paged + 3) & 7) | ((paged & 1) << 5));
        paged += 1;
    }
    kani::cover!(true, "all eight paged banks done");
}

// @harness
// @prop C13
// @tier thorough
// @timeout 3600
// @fn sna::save; sna::load; ScopedSnapshotState::enter/drop; Z80::push_pc_to_stack; Z80::pop_pc_from_stack; Regs alt getters; ZXController::write_7ffd; ZXController::read_7ffd; ZXMemory::ram_page_data(_mut); DataRecorder::write_all; LoadableAsset::read_exact
// @sym saver: every register incl. alternates, I, R, IX, IY, IFF1, IFF2, IM, border, PC, frame clock, witness RAM value; receiver: all registers, border, PC, IFF1, its own byte in the witness bank; 7FFD values concrete per query
// @assert save Ok, file length 131103 (147487 when bank 2/5 is paged); saver registers/PC/IFF1/RAM witness/latch/lock/frame clock unchanged; after load every SNA item, PC, 7FFD latch, lock, map at C000, ROM, screen bank equal the saver's; RAM witness equal in its bank and through the CPU map when paged
// @bound 8 x (1 save + 1 load), 128K; witness bank 3 offset 1; every paged bank 0..7 with rotating high 7FFD bits
// @assume receiver CPU not halted / EI-pending / mid-prefix before the load (that region: c13_rt128_into_busy_cpu)
// @outside RAM offsets outside the witness class {0,1,0x1AFF,0x1B00,0x3FFE,0x3FFF} (whole-page slice copies); symbolic SP (a symbolic-address store into the 48K Vec followed by the recorder reads did not finish in 900 s); display refresh; 7FFD values not enumerated
// @stub ZXController::refresh_memory_dependent_devices -> no-op; ZXScreen::process_clocks -> no-op (display is C08's subject)
// @replay solver-only
#[kani::proof]
#[kani::unwind(29)]
#[kani::stub(ZXController::refresh_memory_dependent_devices, noop_refresh)]
#[kani::stub(ZXScreen::process_clocks, noop_screen_clocks)]
fn c13_rt128_bank3_all_paged() {
    let his: [u8; 8] = [0x00, 0x08, 0x10, 0x20, 0x38, 0xC0, 0x28, 0x18];
    let mut paged = 0u8;
    while paged < 8 {
        c13_rt128_body(3, paged, 1, his[((paged + 3) & 7) as usize], his[((paged + 8) & 7) as usize] & 0x1F | ((paged + 3) & 7) | ((paged & 1) << 5));
        paged += 1;
    }
    kani::cover!(true, "all eight paged banks done");
}

// @harness
// @prop C13
// @tier thorough
// @timeout 3600
// @fn sna::save; sna::load; ScopedSnapshotState::enter/drop; Z80::push_pc_to_stack; Z80::pop_pc_from_stack; Regs alt getters; ZXController::write_7ffd; ZXController::read_7ffd; ZXMemory::ram_page_data(_mut); DataRecorder::write_all; LoadableAsset::read_exact
// @sym saver: every register incl. alternates, I, R, IX, IY, IFF1, IFF2, IM, border, PC, frame clock, witness RAM value; receiver: all registers, border, PC, IFF1, its own byte in the witness bank; 7FFD values concrete per query
// @assert save Ok, file length 131103 (147487 when bank 2/5 is paged); saver registers/PC/IFF1/RAM witness/latch/lock/frame clock unchanged; after load every SNA item, PC, 7FFD latch, lock, map at C000, ROM, screen bank equal the saver's; RAM witness equal in its bank and through the CPU map when paged
// @bound 8 x (1 save + 1 load), 128K; witness bank 4 offset 0x3FFE; every paged bank 0..7 with rotating high 7FFD bits
// @assume receiver CPU not halted / EI-pending / mid-prefix before the load (that region: c13_rt128_into_busy_cpu)
// @outside RAM offsets outside the witness class {0,1,0x1AFF,0x1B00,0x3FFE,0x3FFF} (whole-page slice copies); symbolic SP (a symbolic-address store into the 48K Vec followed by the recorder reads did not finish in 900 s); display refresh; 7FFD values not enumerated
// @stub ZXController::refresh_memory_dependent_devices -> no-op; ZXScreen::process_clocks -> no-op (display is C08's subject)
// @replay solver-only
#[kani::proof]
#[kani::unwind(29)]
#[kani::stub(ZXController::refresh_memory_dependent_devices, noop_refresh)]
#[kani::stub(ZXScreen::process_clocks, noop_screen_clocks)]
fn c13_rt128_bank4_all_paged() {
    let his: [u8; 8] = [0x00, 0x08, 0x10, 0x20, 0x38, 0xC0, 0x28, 0x18];
    let mut paged = 0u8;
    while paged < 8 {
        c13_rt128_body(4, paged, 0x3FFE, his[((paged + 4) & 7) as usize], his[((paged + 9) & 7) as usize] & 0x1F | ((paged + 3) & 7) | ((paged & 1) << 5));
        paged += 1;
    }
    kani::cover!(true, "all eight paged banks done");
}

// @harness
// @prop C13
// @tier thorough
// @timeout 3600
// @fn sna::save; sna::load; ScopedSnapshotState::enter/drop; Z80::push_pc_to_stack; Z80::pop_pc_from_stack; Regs alt getters; ZXController::write_7ffd; ZXController::read_7ffd; ZXMemory::ram_page_data(_mut); DataRecorder::write_all; LoadableAsset::read_exact
// @sym saver: every register incl. alternates, I, R, IX, IY, IFF1, IFF2, IM, border, PC, frame clock, witness RAM value; receiver: all registers, border, PC, IFF1, its own byte in the witness bank; 7FFD values concrete per query
// @assert save Ok, file length 131103 (147487 when bank 2/5 is paged); saver registers/PC/IFF1/RAM witness/latch/lock/frame clock unchanged; after load every SNA item, PC, 7FFD latch, lock, map at C000, ROM, screen bank equal the saver's; RAM witness equal in its bank and through the CPU map when paged
// @bound 8 x (1 save + 1 load), 128K; witness bank 5 offset 0x1AFF; every paged bank 0..7 with rotating high 7FFD bits
// @assume receiver CPU not halted / EI-pending / mid-prefix before the load (that region: c13_rt128_into_busy_cpu)
// @outside RAM offsets outside the witness class {0,1,0x1AFF,0x1B00,0x3FFE,0x3FFF} (whole-page slice copies); symbolic SP (a symbolic-address store into the 48K Vec followed by the recorder reads did not finish in 900 s); display refresh; 7FFD values not enumerated
// @stub ZXController::refresh_memory_dependent_devices -> no-op; ZXScreen::process_clocks -> no-op (display is C08's subject)
// @replay solver-only
#[kani::proof]
#[kani::unwind(29)]
#[kani::stub(ZXController::refresh_memory_dependent_devices, noop_refresh)]
#[kani::stub(ZXScreen::process_clocks, noop_screen_clocks)]
fn c13_rt128_bank5_all_paged() {
    let his: [u8; 8] = [0x00, 0x08, 0x10, 0x20, 0x38, 0xC0, 0x28, 0x18];
    let mut paged = 0u8;
    while paged < 8 {
        c13_rt128_body(5, paged, 0x1AFF, his[((paged + 5) & 7) as usize], his[((paged + 10) & 7) as usize] & 0x1F | ((paged + 3) & 7) | ((paged & 1) << 5));
        paged += 1;
    }
    kani::cover!(true, "all eight paged banks done");
}

// @harness
// @prop C13
// @tier thorough
// @timeout 3600
// @fn sna::save; sna::load; ScopedSnapshotState::enter/drop; Z80::push_pc_to_stack; Z80::pop_pc_from_stack; Regs alt getters; ZXController::write_7ffd; ZXController::read_7ffd; ZXMemory::ram_page_data(_mut); DataRecorder::write_all; LoadableAsset::read_exact
// @sym saver: every register incl. alternates, I, R, IX, IY, IFF1, IFF2, IM, border, PC, frame clock, witness RAM value; receiver: all registers, border, PC, IFF1, its own byte in the witness bank; 7FFD values concrete per query
// @assert save Ok, file length 131103 (147487 when bank 2/5 is paged); saver registers/PC/IFF1/RAM witness/latch/lock/frame clock unchanged; after load every SNA item, PC, 7FFD latch, lock, map at C000, ROM, screen bank equal the saver's; RAM witness equal in its bank and through the CPU map when paged
// @bound 8 x (1 save + 1 load), 128K; witness bank 6 offset 0x3FFF; every paged bank 0..7 with rotating high 7FFD bits
// @assume receiver CPU not halted / EI-pending / mid-prefix before the load (that region: c13_rt128_into_busy_cpu)
// @outside RAM offsets outside the witness class {0,1,0x1AFF,0x1B00,0x3FFE,0x3FFF} (whole-page slice copies); symbolic SP (a symbolic-address store into the 48K Vec followed by the recorder reads did not finish in 900 s); display refresh; 7FFD values not enumerated
// @stub ZXController::refresh_memory_dependent_devices -> no-op; ZXScreen::process_clocks -> no-op (display is C08's subject)
// @replay solver-only
#[kani::proof]
#[kani::unwind(29)]
#[kani::stub(ZXController::refresh_memory_dependent_devices, noop_refresh)]
#[kani::stub(ZXScreen::process_clocks, noop_screen_clocks)]
fn c13_rt128_bank6_all_paged() {
    let his: [u8; 8] = [0x00, 0x08, 0x10, 0x20, 0x38, 0xC0, 0x28, 0x18];
    let mut paged = 0u8;
    while paged < 8 {
        c13_rt128_body(6, paged, 0x3FFF, his[((paged + 6) & 7) as usize], his[((paged + 11) & 7) as usize] & 0x1F | ((paged + 3) & 7) | ((paged & 1) << 5));
        paged += 1;
    }
    kani::cover!(true, "all eight paged banks done");
}

// @harness
// @prop C13
// @tier thorough
// @timeout 3600
// @fn sna::save; sna::load; ScopedSnapshotState::enter/drop; Z80::push_pc_to_stack; Z80::pop_pc_from_stack; Regs alt getters; ZXController::write_7ffd; ZXController::read_7ffd; ZXMemory::ram_page_data(_mut); DataRecorder::write_all; LoadableAsset::read_exact
// @sym saver: every register incl. alternates, I, R, IX, IY, IFF1, IFF2, IM, border, PC, frame clock, witness RAM value; receiver: all registers, border, PC, IFF1, its own byte in the witness bank; 7FFD values concrete per query
// @assert save Ok, file length 131103 (147487 when bank 2/5 is paged); saver registers/PC/IFF1/RAM witness/latch/lock/frame clock unchanged; after load every SNA item, PC, 7FFD latch, lock, map at C000, ROM, screen bank equal the saver's; RAM witness equal in its bank and through the CPU map when paged
// @bound 8 x (1 save + 1 load), 128K; witness bank 7 offset 0; every paged bank 0..7 with rotating high 7FFD bits
// @assume receiver CPU not halted / EI-pending / mid-prefix before the load (that region: c13_rt128_into_busy_cpu)
// @outside RAM offsets outside the witness class {0,1,0x1AFF,0x1B00,0x3FFE,0x3FFF} (whole-page slice copies); symbolic SP (a symbolic-address store into the 48K Vec followed by the recorder reads did not finish in 900 s); display refresh; 7FFD values not enumerated
// @stub ZXController::refresh_memory_dependent_devices -> no-op; ZXScreen::process_clocks -> no-op (display is C08's subject)
// @replay solver-only
#[kani::proof]
#[kani::unwind(29)]
#[kani::stub(ZXController::refresh_memory_dependent_devices, noop_refresh)]
#[kani::stub(ZXScreen::process_clocks, noop_screen_clocks)]
fn c13_rt128_bank7_all_paged() {
    let his: [u8; 8] = [0x00, 0x08, 0x10, 0x20, 0x38, 0xC0, 0x28, 0x18];
    let mut paged = 0u8;
    while paged < 8 {
        c13_rt128_body(7, paged, 0, his[((paged + 7) & 7) as usize], his[((paged + 12) & 7) as usize] & 0x1F | ((paged + 3) & 7) | ((paged & 1) << 5));
        paged += 1;
    }
    kani::cover!(true, "all eight paged banks done");
}

// @harness
// @prop C14
// @tier quick
// @timeout 600
// @fn sna::load; LoadableAsset::read_exact; Z80::pop_pc_from_stack; Z80::set_im; ZXColor::from_bits; ZXController::set_border_color; ZXController::write_7ffd; ZXMemory::ram_page_data_mut; Regs setters
// @sym all 27 header bytes through the spec encoder (every register, IFF2, IM 0..2, border 0..7, undefined bits of byte 19), witness RAM value, receiver registers/border/PC/IFF1, receiver's byte at the witness address
// @assert load returns Ok; every SNA item equals the encoded abstract state (SP advanced by the PC pop), IFF1 = IFF2, PC = the word at SP when SP,SP+1 are RAM, RAM witness = file byte, CPU neither halted nor EI-pending
// @bound one load; 48K; witness page 1 offset 0x3FFF; SP Some(0xBFFF); everything else symbolic
// @assume receiver CPU not halted / no EI pending / no prefix pending before the load (that region: c14_sna_into_busy_cpu)
// @outside RAM offsets outside the witness class (page transfers are whole-slice copies); display refresh
// @stub ZXController::refresh_memory_dependent_devices -> no-op; ZXScreen::process_clocks -> no-op (display is C08's subject)
// @replay solver-only
#[kani::proof]
#[kani::unwind(29)]
#[kani::stub(ZXController::refresh_memory_dependent_devices, noop_refresh)]
#[kani::stub(ZXScreen::process_clocks, noop_screen_clocks)]
fn c14_sna48_load_p1_last_sp_on_witness() {
    c14_sna48_body(1, 0x3FFF, Some(0xBFFF));
}

// @harness
// @prop C14
// @tier quick
// @timeout 600
// @fn sna::load; LoadableAsset::read_exact; Z80::pop_pc_from_stack; Z80::set_im; ZXColor::from_bits; ZXController::set_border_color; ZXController::write_7ffd; ZXMemory::ram_page_data_mut; Regs setters
// @sym all 27 header bytes through the spec encoder (every register, IFF2, IM 0..2, border 0..7, undefined bits of byte 19), witness RAM value, receiver registers/border/PC/IFF1, receiver's byte at the witness address
// @assert load returns Ok; every SNA item equals the encoded abstract state (SP advanced by the PC pop), IFF1 = IFF2, PC = the word at SP when SP,SP+1 are RAM, RAM witness = file byte, CPU neither halted nor EI-pending
// @bound one load; 48K; witness page 2 offset 0x1B00; SP Some(0x1234); everything else symbolic
// @assume receiver CPU not halted / no EI pending / no prefix pending before the load (that region: c14_sna_into_busy_cpu)
// @outside RAM offsets outside the witness class (page transfers are whole-slice copies); display refresh
// @stub ZXController::refresh_memory_dependent_devices -> no-op; ZXScreen::process_clocks -> no-op (display is C08's subject)
// @replay solver-only
#[kani::proof]
#[kani::unwind(29)]
#[kani::stub(ZXController::refresh_memory_dependent_devices, noop_refresh)]
#[kani::stub(ZXScreen::process_clocks, noop_screen_clocks)]
fn c14_sna48_load_p2_attr_sp_rom() {
    c14_sna48_body(2, 0x1B00, Some(0x1234));
}

// @harness
// @prop C14
// @tier quick
// @timeout 600
// @fn sna::load; LoadableAsset::read_exact; Z80::pop_pc_from_stack; Z80::set_im; ZXColor::from_bits; ZXController::set_border_color; ZXController::write_7ffd; ZXMemory::ram_page_data_mut; Regs setters
// @sym all 27 header bytes through the spec encoder (every register, IFF2, IM 0..2, border 0..7, undefined bits of byte 19), witness RAM value, receiver registers/border/PC/IFF1, receiver's byte at the witness address
// @assert load returns Ok; every SNA item equals the encoded abstract state (SP advanced by the PC pop), IFF1 = IFF2, PC = the word at SP when SP,SP+1 are RAM, RAM witness = file byte, CPU neither halted nor EI-pending
// @bound one load; 48K; witness page 2 offset 0x3FFF; SP Some(0xFFFE); everything else symbolic
// @assume receiver CPU not halted / no EI pending / no prefix pending before the load (that region: c14_sna_into_busy_cpu)
// @outside RAM offsets outside the witness class (page transfers are whole-slice copies); display refresh
// @stub ZXController::refresh_memory_dependent_devices -> no-op; ZXScreen::process_clocks -> no-op (display is C08's subject)
// @replay solver-only
#[kani::proof]
#[kani::unwind(29)]
#[kani::stub(ZXController::refresh_memory_dependent_devices, noop_refresh)]
#[kani::stub(ZXScreen::process_clocks, noop_screen_clocks)]
fn c14_sna48_load_p2_last_sp_hi_on_witness() {
    c14_sna48_body(2, 0x3FFF, Some(0xFFFE));
}

// @harness
// @prop C14
// @tier thorough
// @timeout 600
// @fn sna::load; LoadableAsset::read_exact; Z80::pop_pc_from_stack; Z80::set_im; ZXColor::from_bits; ZXController::set_border_color; ZXController::write_7ffd; ZXMemory::ram_page_data_mut; Regs setters
// @sym all 27 header bytes through the spec encoder (every register, IFF2, IM 0..2, border 0..7, undefined bits of byte 19), witness RAM value, receiver registers/border/PC/IFF1, receiver's byte at the witness address
// @assert load returns Ok; every SNA item equals the encoded abstract state (SP advanced by the PC pop), IFF1 = IFF2, PC = the word at SP when SP,SP+1 are RAM, RAM witness = file byte, CPU neither halted nor EI-pending
// @bound one load; 48K; witness page 0 offset 0x1AFF; SP Some(0x5AFE); everything else symbolic
// @assume receiver CPU not halted / no EI pending / no prefix pending before the load (that region: c14_sna_into_busy_cpu)
// @outside RAM offsets outside the witness class (page transfers are whole-slice copies); display refresh
// @stub ZXController::refresh_memory_dependent_devices -> no-op; ZXScreen::process_clocks -> no-op (display is C08's subject)
// @replay solver-only
#[kani::proof]
#[kani::unwind(29)]
#[kani::stub(ZXController::refresh_memory_dependent_devices, noop_refresh)]
#[kani::stub(ZXScreen::process_clocks, noop_screen_clocks)]
fn c14_sna48_load_p0_1aff() {
    c14_sna48_body(0, 0x1AFF, Some(0x5AFE));
}

// @harness
// @prop C14
// @tier thorough
// @timeout 600
// @fn sna::load; LoadableAsset::read_exact; Z80::pop_pc_from_stack; Z80::set_im; ZXColor::from_bits; ZXController::set_border_color; ZXController::write_7ffd; ZXMemory::ram_page_data_mut; Regs setters
// @sym all 27 header bytes through the spec encoder (every register, IFF2, IM 0..2, border 0..7, undefined bits of byte 19), witness RAM value, receiver registers/border/PC/IFF1, receiver's byte at the witness address
// @assert load returns Ok; every SNA item equals the encoded abstract state (SP advanced by the PC pop), IFF1 = IFF2, PC = the word at SP when SP,SP+1 are RAM, RAM witness = file byte, CPU neither halted nor EI-pending
// @bound one load; 48K; witness page 1 offset 0; SP Some(0x8000); everything else symbolic
// @assume receiver CPU not halted / no EI pending / no prefix pending before the load (that region: c14_sna_into_busy_cpu)
// @outside RAM offsets outside the witness class (page transfers are whole-slice copies); display refresh
// @stub ZXController::refresh_memory_dependent_devices -> no-op; ZXScreen::process_clocks -> no-op (display is C08's subject)
// @replay solver-only
#[kani::proof]
#[kani::unwind(29)]
#[kani::stub(ZXController::refresh_memory_dependent_devices, noop_refresh)]
#[kani::stub(ZXScreen::process_clocks, noop_screen_clocks)]
fn c14_sna48_load_p1_first() {
    c14_sna48_body(1, 0, Some(0x8000));
}

// @harness
// @prop C14
// @tier thorough
// @timeout 600
// @fn sna::load; LoadableAsset::read_exact; Z80::pop_pc_from_stack; Z80::set_im; ZXColor::from_bits; ZXController::set_border_color; ZXController::write_7ffd; ZXMemory::ram_page_data_mut; Regs setters
// @sym all 27 header bytes through the spec encoder (every register, IFF2, IM 0..2, border 0..7, undefined bits of byte 19), witness RAM value, receiver registers/border/PC/IFF1, receiver's byte at the witness address
// @assert load returns Ok; every SNA item equals the encoded abstract state (SP advanced by the PC pop), IFF1 = IFF2, PC = the word at SP when SP,SP+1 are RAM, RAM witness = file byte, CPU neither halted nor EI-pending
// @bound one load; 48K; witness page 2 offset 0; SP Some(0xFFFF); everything else symbolic
// @assume receiver CPU not halted / no EI pending / no prefix pending before the load (that region: c14_sna_into_busy_cpu)
// @outside RAM offsets outside the witness class (page transfers are whole-slice copies); display refresh
// @stub ZXController::refresh_memory_dependent_devices -> no-op; ZXScreen::process_clocks -> no-op (display is C08's subject)
// @replay solver-only
#[kani::proof]
#[kani::unwind(29)]
#[kani::stub(ZXController::refresh_memory_dependent_devices, noop_refresh)]
#[kani::stub(ZXScreen::process_clocks, noop_screen_clocks)]
fn c14_sna48_load_p2_first_spffff() {
    c14_sna48_body(2, 0, Some(0xFFFF));
}

// @harness
// @prop C14
// @tier quick
// @timeout 600
// @fn sna::load; LoadableAsset::read_exact; Z80::pop_pc_from_stack; Z80::set_im; ZXColor::from_bits; ZXController::set_border_color; ZXController::write_7ffd; ZXMemory::ram_page_data_mut; Regs setters
// @sym all 27 header bytes through the spec encoder, PC, TR-DOS flag byte, witness RAM value, receiver registers/border/PC/IFF1 and its byte in the witness bank; 7FFD byte concrete per query
// @assert load returns Ok; every SNA item equals the abstract state, IFF1 = IFF2, PC = file PC, 7FFD latch/lock/map at 0000,4000,8000,C000/screen bank as the port byte says, RAM witness lands in the bank the layout assigns (also through the CPU map when paged), CPU neither halted nor EI-pending
// @bound one load, 128K; witness bank 0 offset 0x3FFF; file 7FFD = 0x00|3, receiver 7FFD before = 0x06 (concrete; symbolic port byte -> CBMC out of memory)
// @assume receiver CPU not halted / no EI pending / no prefix pending before the load (that region: c14_sna_into_busy_cpu)
// @outside RAM offsets outside the witness class (page transfers are whole-slice copies); display refresh; 7FFD values not enumerated
// @stub ZXController::refresh_memory_dependent_devices -> no-op; ZXScreen::process_clocks -> no-op (display is C08's subject)
// @replay solver-only
#[kani::proof]
#[kani::unwind(29)]
#[kani::stub(ZXController::refresh_memory_dependent_devices, noop_refresh)]
#[kani::stub(ZXScreen::process_clocks, noop_screen_clocks)]
fn c14_sna128_load_bank0_paged3() {
    c14_sna128_body(0, 3, 0x3FFF, 0x00, 0x06);
}

// @harness
// @prop C14
// @tier quick
// @timeout 600
// @fn sna::load; LoadableAsset::read_exact; Z80::pop_pc_from_stack; Z80::set_im; ZXColor::from_bits; ZXController::set_border_color; ZXController::write_7ffd; ZXMemory::ram_page_data_mut; Regs setters
// @sym all 27 header bytes through the spec encoder, PC, TR-DOS flag byte, witness RAM value, receiver registers/border/PC/IFF1 and its byte in the witness bank; 7FFD byte concrete per query
// @assert load returns Ok; every SNA item equals the abstract state, IFF1 = IFF2, PC = file PC, 7FFD latch/lock/map at 0000,4000,8000,C000/screen bank as the port byte says, RAM witness lands in the bank the layout assigns (also through the CPU map when paged), CPU neither halted nor EI-pending
// @bound one load, 128K; witness bank 1 offset 0; file 7FFD = 0x38|1, receiver 7FFD before = 0x37 = paging LOCKED (concrete; symbolic port byte -> CBMC out of memory)
// @assume receiver CPU not halted / no EI pending / no prefix pending before the load (that region: c14_sna_into_busy_cpu)
// @outside RAM offsets outside the witness class (page transfers are whole-slice copies); display refresh; 7FFD values not enumerated
// @stub ZXController::refresh_memory_dependent_devices -> no-op; ZXScreen::process_clocks -> no-op (display is C08's subject)
// @replay solver-only
#[kani::proof]
#[kani::unwind(29)]
#[kani::stub(ZXController::refresh_memory_dependent_devices, noop_refresh)]
#[kani::stub(ZXScreen::process_clocks, noop_screen_clocks)]
fn c14_sna128_load_bank1_paged1() {
    c14_sna128_body(1, 1, 0, 0x38, 0x37);
}

// @harness
// @prop C14
// @tier quick
// @timeout 600
// @fn sna::load; LoadableAsset::read_exact; Z80::pop_pc_from_stack; Z80::set_im; ZXColor::from_bits; ZXController::set_border_color; ZXController::write_7ffd; ZXMemory::ram_page_data_mut; Regs setters
// @sym all 27 header bytes through the spec encoder, PC, TR-DOS flag byte, witness RAM value, receiver registers/border/PC/IFF1 and its byte in the witness bank; 7FFD byte concrete per query
// @assert load returns Ok; every SNA item equals the abstract state, IFF1 = IFF2, PC = file PC, 7FFD latch/lock/map at 0000,4000,8000,C000/screen bank as the port byte says, RAM witness lands in the bank the layout assigns (also through the CPU map when paged), CPU neither halted nor EI-pending
// @bound one load, 128K; witness bank 2 offset 0x1B00; file 7FFD = 0x10|6, receiver 7FFD before = 0x08 (concrete; symbolic port byte -> CBMC out of memory)
// @assume receiver CPU not halted / no EI pending / no prefix pending before the load (that region: c14_sna_into_busy_cpu)
// @outside RAM offsets outside the witness class (page transfers are whole-slice copies); display refresh; 7FFD values not enumerated
// @stub ZXController::refresh_memory_dependent_devices -> no-op; ZXScreen::process_clocks -> no-op (display is C08's subject)
// @replay solver-only
#[kani::proof]
#[kani::unwind(29)]
#[kani::stub(ZXController::refresh_memory_dependent_devices, noop_refresh)]
#[kani::stub(ZXScreen::process_clocks, noop_screen_clocks)]
fn c14_sna128_load_bank2_paged6() {
    c14_sna128_body(2, 6, 0x1B00, 0x10, 0x08);
}

// @harness
// @prop C14
// @tier quick
// @timeout 600
// @fn sna::load; LoadableAsset::read_exact; Z80::pop_pc_from_stack; Z80::set_im; ZXColor::from_bits; ZXController::set_border_color; ZXController::write_7ffd; ZXMemory::ram_page_data_mut; Regs setters
// @sym all 27 header bytes through the spec encoder, PC, TR-DOS flag byte, witness RAM value, receiver registers/border/PC/IFF1 and its byte in the witness bank; 7FFD byte concrete per query
// @assert load returns Ok; every SNA item equals the abstract state, IFF1 = IFF2, PC = file PC, 7FFD latch/lock/map at 0000,4000,8000,C000/screen bank as the port byte says, RAM witness lands in the bank the layout assigns (also through the CPU map when paged), CPU neither halted nor EI-pending
// @bound one load, 128K; witness bank 3 offset 1; file 7FFD = 0x28|3, receiver 7FFD before = 0x3F = paging LOCKED (concrete; symbolic port byte -> CBMC out of memory)
// @assume receiver CPU not halted / no EI pending / no prefix pending before the load (that region: c14_sna_into_busy_cpu)
// @outside RAM offsets outside the witness class (page transfers are whole-slice copies); display refresh; 7FFD values not enumerated
// @stub ZXController::refresh_memory_dependent_devices -> no-op; ZXScreen::process_clocks -> no-op (display is C08's subject)
// @replay solver-only
#[kani::proof]
#[kani::unwind(29)]
#[kani::stub(ZXController::refresh_memory_dependent_devices, noop_refresh)]
#[kani::stub(ZXScreen::process_clocks, noop_screen_clocks)]
fn c14_sna128_load_bank3_paged3() {
    c14_sna128_body(3, 3, 1, 0x28, 0x3F);
}

// @harness
// @prop C14
// @tier quick
// @timeout 600
// @fn sna::load; LoadableAsset::read_exact; Z80::pop_pc_from_stack; Z80::set_im; ZXColor::from_bits; ZXController::set_border_color; ZXController::write_7ffd; ZXMemory::ram_page_data_mut; Regs setters
// @sym all 27 header bytes through the spec encoder, PC, TR-DOS flag byte, witness RAM value, receiver registers/border/PC/IFF1 and its byte in the witness bank; 7FFD byte concrete per query
// @assert load returns Ok; every SNA item equals the abstract state, IFF1 = IFF2, PC = file PC, 7FFD latch/lock/map at 0000,4000,8000,C000/screen bank as the port byte says, RAM witness lands in the bank the layout assigns (also through the CPU map when paged), CPU neither halted nor EI-pending
// @bound one load, 128K; witness bank 4 offset 0x3FFE; file 7FFD = 0x08|2, receiver 7FFD before = 0x05 (concrete; symbolic port byte -> CBMC out of memory)
// @assume receiver CPU not halted / no EI pending / no prefix pending before the load (that region: c14_sna_into_busy_cpu)
// @outside RAM offsets outside the witness class (page transfers are whole-slice copies); display refresh; 7FFD values not enumerated
// @stub ZXController::refresh_memory_dependent_devices -> no-op; ZXScreen::process_clocks -> no-op (display is C08's subject)
// @replay solver-only
#[kani::proof]
#[kani::unwind(29)]
#[kani::stub(ZXController::refresh_memory_dependent_devices, noop_refresh)]
#[kani::stub(ZXScreen::process_clocks, noop_screen_clocks)]
fn c14_sna128_load_bank4_paged2() {
    c14_sna128_body(4, 2, 0x3FFE, 0x08, 0x05);
}

// @harness
// @prop C14
// @tier quick
// @timeout 600
// @fn sna::load; LoadableAsset::read_exact; Z80::pop_pc_from_stack; Z80::set_im; ZXColor::from_bits; ZXController::set_border_color; ZXController::write_7ffd; ZXMemory::ram_page_data_mut; Regs setters
// @sym all 27 header bytes through the spec encoder, PC, TR-DOS flag byte, witness RAM value, receiver registers/border/PC/IFF1 and its byte in the witness bank; 7FFD byte concrete per query
// @assert load returns Ok; every SNA item equals the abstract state, IFF1 = IFF2, PC = file PC, 7FFD latch/lock/map at 0000,4000,8000,C000/screen bank as the port byte says, RAM witness lands in the bank the layout assigns (also through the CPU map when paged), CPU neither halted nor EI-pending
// @bound one load, 128K; witness bank 5 offset 0; file 7FFD = 0x30|0, receiver 7FFD before = 0x22 = paging LOCKED (concrete; symbolic port byte -> CBMC out of memory)
// @assume receiver CPU not halted / no EI pending / no prefix pending before the load (that region: c14_sna_into_busy_cpu)
// @outside RAM offsets outside the witness class (page transfers are whole-slice copies); display refresh; 7FFD values not enumerated
// @stub ZXController::refresh_memory_dependent_devices -> no-op; ZXScreen::process_clocks -> no-op (display is C08's subject)
// @replay solver-only
#[kani::proof]
#[kani::unwind(29)]
#[kani::stub(ZXController::refresh_memory_dependent_devices, noop_refresh)]
#[kani::stub(ZXScreen::process_clocks, noop_screen_clocks)]
fn c14_sna128_load_bank5_paged0() {
    c14_sna128_body(5, 0, 0, 0x30, 0x22);
}

// @harness
// @prop C14
// @tier quick
// @timeout 600
// @fn sna::load; LoadableAsset::read_exact; Z80::pop_pc_from_stack; Z80::set_im; ZXColor::from_bits; ZXController::set_border_color; ZXController::write_7ffd; ZXMemory::ram_page_data_mut; Regs setters
// @sym all 27 header bytes through the spec encoder, PC, TR-DOS flag byte, witness RAM value, receiver registers/border/PC/IFF1 and its byte in the witness bank; 7FFD byte concrete per query
// @assert load returns Ok; every SNA item equals the abstract state, IFF1 = IFF2, PC = file PC, 7FFD latch/lock/map at 0000,4000,8000,C000/screen bank as the port byte says, RAM witness lands in the bank the layout assigns (also through the CPU map when paged), CPU neither halted nor EI-pending
// @bound one load, 128K; witness bank 6 offset 0x1AFF; file 7FFD = 0xC8|4, receiver 7FFD before = 0x00 (concrete; symbolic port byte -> CBMC out of memory)
// @assume receiver CPU not halted / no EI pending / no prefix pending before the load (that region: c14_sna_into_busy_cpu)
// @outside RAM offsets outside the witness class (page transfers are whole-slice copies); display refresh; 7FFD values not enumerated
// @stub ZXController::refresh_memory_dependent_devices -> no-op; ZXScreen::process_clocks -> no-op (display is C08's subject)
// @replay solver-only
#[kani::proof]
#[kani::unwind(29)]
#[kani::stub(ZXController::refresh_memory_dependent_devices, noop_refresh)]
#[kani::stub(ZXScreen::process_clocks, noop_screen_clocks)]
fn c14_sna128_load_bank6_paged4() {
    c14_sna128_body(6, 4, 0x1AFF, 0xC8, 0x00);
}

// @harness
// @prop C14
// @tier quick
// @timeout 600
// @fn sna::load; LoadableAsset::read_exact; Z80::pop_pc_from_stack; Z80::set_im; ZXColor::from_bits; ZXController::set_border_color; ZXController::write_7ffd; ZXMemory::ram_page_data_mut; Regs setters
// @sym all 27 header bytes through the spec encoder, PC, TR-DOS flag byte, witness RAM value, receiver registers/border/PC/IFF1 and its byte in the witness bank; 7FFD byte concrete per query
// @assert load returns Ok; every SNA item equals the abstract state, IFF1 = IFF2, PC = file PC, 7FFD latch/lock/map at 0000,4000,8000,C000/screen bank as the port byte says, RAM witness lands in the bank the layout assigns (also through the CPU map when paged), CPU neither halted nor EI-pending
// @bound one load, 128K; witness bank 7 offset 0x3FFF; file 7FFD = 0x18|5, receiver 7FFD before = 0x31 = paging LOCKED (concrete; symbolic port byte -> CBMC out of memory)
// @assume receiver CPU not halted / no EI pending / no prefix pending before the load (that region: c14_sna_into_busy_cpu)
// @outside RAM offsets outside the witness class (page transfers are whole-slice copies); display refresh; 7FFD values not enumerated
// @stub ZXController::refresh_memory_dependent_devices -> no-op; ZXScreen::process_clocks -> no-op (display is C08's subject)
// @replay solver-only
#[kani::proof]
#[kani::unwind(29)]
#[kani::stub(ZXController::refresh_memory_dependent_devices, noop_refresh)]
#[kani::stub(ZXScreen::process_clocks, noop_screen_clocks)]
fn c14_sna128_load_bank7_paged5() {
    c14_sna128_body(7, 5, 0x3FFF, 0x18, 0x31);
}

// @harness
// @prop C14
// @tier thorough
// @timeout 3600
// @fn sna::load; LoadableAsset::read_exact; Z80::pop_pc_from_stack; Z80::set_im; ZXColor::from_bits; ZXController::set_border_color; ZXController::write_7ffd; ZXMemory::ram_page_data_mut; Regs setters
// @sym all 27 header bytes through the spec encoder, PC, TR-DOS flag byte, witness RAM value, receiver registers/border/PC/IFF1 and its byte in the witness bank; 7FFD byte concrete per query
// @assert load returns Ok; every SNA item equals the abstract state, IFF1 = IFF2, PC = file PC, 7FFD latch/lock/map at 0000,4000,8000,C000/screen bank as the port byte says, RAM witness lands in the bank the layout assigns (also through the CPU map when paged), CPU neither halted nor EI-pending
// @bound 8 loads, 128K; witness bank 0 offset 0x3FFF; every paged bank with rotating high 7FFD bits
// @assume receiver CPU not halted / no EI pending / no prefix pending before the load (that region: c14_sna_into_busy_cpu)
// @outside RAM offsets outside the witness class (page transfers are whole-slice copies); display refresh; 7FFD values not enumerated
// @stub ZXController::refresh_memory_dependent_devices -> no-op; ZXScreen::process_clocks -> no-op (display is C08's subject)
// @replay solver-only
#[kani::proof]
#[kani::unwind(29)]
#[kani::stub(ZXController::refresh_memory_dependent_devices, noop_refresh)]
#[kani::stub(ZXScreen::process_clocks, noop_screen_clocks)]
fn c14_sna128_load_bank0_all_paged() {
    let his: [u8; 8] = [0x00, 0x08, 0x10, 0x20, 0x38, 0xC0, 0x28, 0x18];
    let mut paged = 0u8;
    while paged < 8 {
        c14_sna128_body(0, paged, 0x3FFF, his[((paged + 1) & 7) as usize], his[((paged + 4) & 7) as usize] & 0x1F | ((paged + 5) & 7) | ((paged & 1) << 5));
        paged += 1;
    }
}

// @harness
// @prop C14
// @tier thorough
// @timeout 3600
// @fn sna::load; LoadableAsset::read_exact; Z80::pop_pc_from_stack; Z80::set_im; ZXColor::from_bits; ZXController::set_border_color; ZXController::write_7ffd; ZXMemory::ram_page_data_mut; Regs setters
// @sym all 27 header bytes through the spec encoder, PC, TR-DOS flag byte, witness RAM value, receiver registers/border/PC/IFF1 and its byte in the witness bank; 7FFD byte concrete per query
// @assert load returns Ok; every SNA item equals the abstract state, IFF1 = IFF2, PC = file PC, 7FFD latch/lock/map at 0000,4000,8000,C000/screen bank as the port byte says, RAM witness lands in the bank the layout assigns (also through the CPU map when paged), CPU neither halted nor EI-pending
// @bound 8 loads, 128K; witness bank 1 offset 0; every paged bank with rotating high 7FFD bits
// @assume receiver CPU not halted / no EI pending / no prefix pending before the load (that region: c14_sna_into_busy_cpu)
// @outside RAM offsets outside the witness class (page transfers are whole-slice copies); display refresh; 7FFD values not enumerated
// @stub ZXController::refresh_memory_dependent_devices -> no-op; ZXScreen::process_clocks -> no-op (display is C08's subject)
// @replay solver-only
#[kani::proof]
#[kani::unwind(29)]
#[kani::stub(ZXController::refresh_memory_dependent_devices, noop_refresh)]
#[kani::stub(ZXScreen::process_clocks, noop_screen_clocks)]
fn c14_sna128_load_bank1_all_paged() {
    let his: [u8; 8] = [0x00, 0x08, 0x10, 0x20, 0x38, 0xC0, 0x28, 0x18];
    let mut paged = 0u8;
    while paged < 8 {
        c14_sna128_body(1, paged, 0, his[((paged + 2) & 7) as usize], his[((paged + 5) & 7) as usize] & 0x1F | ((paged + 5) & 7) | ((paged & 1) << 5));
        paged += 1;
    }
}

// @harness
// @prop C14
// @tier thorough
// @timeout 3600
// @fn sna::load; LoadableAsset::read_exact; Z80::pop_pc_from_stack; Z80::set_im; ZXColor::from_bits; ZXController::set_border_color; ZXController::write_7ffd; ZXMemory::ram_page_data_mut; Regs setters
// @sym all 27 header bytes through the spec encoder, PC, TR-DOS flag byte, witness RAM value, receiver registers/border/PC/IFF1 and its byte in the witness bank; 7FFD byte concrete per query
// @assert load returns Ok; every SNA item equals the abstract state, IFF1 = IFF2, PC = file PC, 7FFD latch/lock/map at 0000,4000,8000,C000/screen bank as the port byte says, RAM witness lands in the bank the layout assigns (also through the CPU map when paged), CPU neither halted nor EI-pending
// @bound 8 loads, 128K; witness bank 2 offset 1; every paged bank with rotating high 7FFD bits
// @assume receiver CPU not halted / no EI pending / no prefix pending before the load (that region: c14_sna_into_busy_cpu)
// @outside RAM offsets outside the witness class (page transfers are whole-slice copies); display refresh; 7FFD values not enumerated
// @stub ZXController::refresh_memory_dependent_devices -> no-op; ZXScreen::process_clocks -> no-op (display is C08's subject)
// @replay solver-only
#[kani::proof]
#[kani::unwind(29)]
#[kani::stub(ZXController::refresh_memory_dependent_devices, noop_refresh)]
#[kani::stub(ZXScreen::process_clocks, noop_screen_clocks)]
fn c14_sna128_load_bank2_all_paged() {
    let his: [u8; 8] = [0x00, 0x08, 0x10, 0x20, 0x38, 0xC0, 0x28, 0x18];
    let mut paged = 0u8;
    while paged < 8 {
        c14_sna128_body(2, paged, 1, his[((paged + 3) & 7) as usize], his[((paged + 6) & 7) as usize] & 0x1F | ((paged + 5) & 7) | ((paged & 1) << 5));
        paged += 1;
    }
}

// @harness
// @prop C14
// @tier thorough
// @timeout 3600
// @fn sna::load; LoadableAsset::read_exact; Z80::pop_pc_from_stack; Z80::set_im; ZXColor::from_bits; ZXController::set_border_color; ZXController::write_7ffd; ZXMemory::ram_page_data_mut; Regs setters
// @sym all 27 header bytes through the spec encoder, PC, TR-DOS flag byte, witness RAM value, receiver registers/border/PC/IFF1 and its byte in the witness bank; 7FFD byte concrete per query
// @assert load returns Ok; every SNA item equals the abstract state, IFF1 = IFF2, PC = file PC, 7FFD latch/lock/map at 0000,4000,8000,C000/screen bank as the port byte says, RAM witness lands in the bank the layout assigns (also through the CPU map when paged), CPU neither halted nor EI-pending
// @bound 8 loads, 128K; witness bank 3 offset 0x1B00; every paged bank with rotating high 7FFD bits
// @assume receiver CPU not halted / no EI pending / no prefix pending before the load (that region: c14_sna_into_busy_cpu)
// @outside RAM offsets outside the witness class (page transfers are whole-slice copies); display refresh; 7FFD values not enumerated
// @stub ZXController::refresh_memory_dependent_devices -> no-op; ZXScreen::process_clocks -> no-op (display is C08's subject)
// @replay solver-only
#[kani::proof]
#[kani::unwind(29)]
#[kani::stub(ZXController::refresh_memory_dependent_devices, noop_refresh)]
#[kani::stub(ZXScreen::process_clocks, noop_screen_clocks)]
fn c14_sna128_load_bank3_all_paged() {
    let his: [u8; 8] = [0x00, 0x08, 0x10, 0x20, 0x38, 0xC0, 0x28, 0x18];
    let mut paged = 0u8;
    while paged < 8 {
        c14_sna128_body(3, paged, 0x1B00, his[((paged + 4) & 7) as usize], his[((paged + 7) & 7) as usize] & 0x1F | ((paged + 5) & 7) | ((paged & 1) << 5));
        paged += 1;
    }
}

// @harness
// @prop C14
// @tier thorough
// @timeout 3600
// @fn sna::load; LoadableAsset::read_exact; Z80::pop_pc_from_stack; Z80::set_im; ZXColor::from_bits; ZXController::set_border_color; ZXController::write_7ffd; ZXMemory::ram_page_data_mut; Regs setters
// @sym all 27 header bytes through the spec encoder, PC, TR-DOS flag byte, witness RAM value, receiver registers/border/PC/IFF1 and its byte in the witness bank; 7FFD byte concrete per query
// @assert load returns Ok; every SNA item equals the abstract state, IFF1 = IFF2, PC = file PC, 7FFD latch/lock/map at 0000,4000,8000,C000/screen bank as the port byte says, RAM witness lands in the bank the layout assigns (also through the CPU map when paged), CPU neither halted nor EI-pending
// @bound 8 loads, 128K; witness bank 4 offset 0x1AFF; every paged bank with rotating high 7FFD bits
// @assume receiver CPU not halted / no EI pending / no prefix pending before the load (that region: c14_sna_into_busy_cpu)
// @outside RAM offsets outside the witness class (page transfers are whole-slice copies); display refresh; 7FFD values not enumerated
// @stub ZXController::refresh_memory_dependent_devices -> no-op; ZXScreen::process_clocks -> no-op (display is C08's subject)
// @replay solver-only
#[kani::proof]
#[kani::unwind(29)]
#[kani::stub(ZXController::refresh_memory_dependent_devices, noop_refresh)]
#[kani::stub(ZXScreen::process_clocks, noop_screen_clocks)]
fn c14_sna128_load_bank4_all_paged() {
    let his: [u8; 8] = [0x00, 0x08, 0x10, 0x20, 0x38, 0xC0, 0x28, 0x18];
    let mut paged = 0u8;
    while paged < 8 {
        c14_sna128_body(4, paged, 0x1AFF, his[((paged + 5) & 7) as usize], his[((paged + 8) & 7) as usize] & 0x1F | ((paged + 5) & 7) | ((paged & 1) << 5));
        paged += 1;
    }
}

// @harness
// @prop C14
// @tier thorough
// @timeout 3600
// @fn sna::load; LoadableAsset::read_exact; Z80::pop_pc_from_stack; Z80::set_im; ZXColor::from_bits; ZXController::set_border_color; ZXController::write_7ffd; ZXMemory::ram_page_data_mut; Regs setters
// @sym all 27 header bytes through the spec encoder, PC, TR-DOS flag byte, witness RAM value, receiver registers/border/PC/IFF1 and its byte in the witness bank; 7FFD byte concrete per query
// @assert load returns Ok; every SNA item equals the abstract state, IFF1 = IFF2, PC = file PC, 7FFD latch/lock/map at 0000,4000,8000,C000/screen bank as the port byte says, RAM witness lands in the bank the layout assigns (also through the CPU map when paged), CPU neither halted nor EI-pending
// @bound 8 loads, 128K; witness bank 5 offset 0x3FFE; every paged bank with rotating high 7FFD bits
// @assume receiver CPU not halted / no EI pending / no prefix pending before the load (that region: c14_sna_into_busy_cpu)
// @outside RAM offsets outside the witness class (page transfers are whole-slice copies); display refresh; 7FFD values not enumerated
// @stub ZXController::refresh_memory_dependent_devices -> no-op; ZXScreen::process_clocks -> no-op (display is C08's subject)
// @replay solver-only
#[kani::proof]
#[kani::unwind(29)]
#[kani::stub(ZXController::refresh_memory_dependent_devices, noop_refresh)]
#[kani::stub(ZXScreen::process_clocks, noop_screen_clocks)]
fn c14_sna128_load_bank5_all_paged() {
    let his: [u8; 8] = [0x00, 0x08, 0x10, 0x20, 0x38, 0xC0, 0x28, 0x18];
    let mut paged = 0u8;
    while paged < 8 {
        c14_sna128_body(5, paged, 0x3FFE, his[((paged + 6) & 7) as usize], his[((paged + 9) & 7) as usize] & 0x1F | ((paged + 5) & 7) | ((paged & 1) << 5));
        paged += 1;
    }
}

// @harness
// @prop C14
// @tier thorough
// @timeout 3600
// @fn sna::load; LoadableAsset::read_exact; Z80::pop_pc_from_stack; Z80::set_im; ZXColor::from_bits; ZXController::set_border_color; ZXController::write_7ffd; ZXMemory::ram_page_data_mut; Regs setters
// @sym all 27 header bytes through the spec encoder, PC, TR-DOS flag byte, witness RAM value, receiver registers/border/PC/IFF1 and its byte in the witness bank; 7FFD byte concrete per query
// @assert load returns Ok; every SNA item equals the abstract state, IFF1 = IFF2, PC = file PC, 7FFD latch/lock/map at 0000,4000,8000,C000/screen bank as the port byte says, RAM witness lands in the bank the layout assigns (also through the CPU map when paged), CPU neither halted nor EI-pending
// @bound 8 loads, 128K; witness bank 6 offset 0; every paged bank with rotating high 7FFD bits
// @assume receiver CPU not halted / no EI pending / no prefix pending before the load (that region: c14_sna_into_busy_cpu)
// @outside RAM offsets outside the witness class (page transfers are whole-slice copies); display refresh; 7FFD values not enumerated
// @stub ZXController::refresh_memory_dependent_devices -> no-op; ZXScreen::process_clocks -> no-op (display is C08's subject)
// @replay solver-only
#[kani::proof]
#[kani::unwind(29)]
#[kani::stub(ZXController::refresh_memory_dependent_devices, noop_refresh)]
#[kani::stub(ZXScreen::process_clocks, noop_screen_clocks)]
fn c14_sna128_load_bank6_all_paged() {
    let his: [u8; 8] = [0x00, 0x08, 0x10, 0x20, 0x38, 0xC0, 0x28, 0x18];
    let mut paged = 0u8;
    while paged < 8 {
        c14_sna128_body(6, paged, 0, his[((paged + 7) & 7) as usize], his[((paged + 10) & 7) as usize] & 0x1F | ((paged + 5) & 7) | ((paged & 1) << 5));
        paged += 1;
    }
}

// @harness
// @prop C14
// @tier thorough
// @timeout 3600
// @fn sna::load; LoadableAsset::read_exact; Z80::pop_pc_from_stack; Z80::set_im; ZXColor::from_bits; ZXController::set_border_color; ZXController::write_7ffd; ZXMemory::ram_page_data_mut; Regs setters
// @sym all 27 header bytes through the spec encoder, PC, TR-DOS flag byte, witness RAM value, receiver registers/border/PC/IFF1 and its byte in the witness bank; 7FFD byte concrete per query
// @assert load returns Ok; every SNA item equals the abstract state, IFF1 = IFF2, PC = file PC, 7FFD latch/lock/map at 0000,4000,8000,C000/screen bank as the port byte says, RAM witness lands in the bank the layout assigns (also through the CPU map when paged), CPU neither halted nor EI-pending
// @bound 8 loads, 128K; witness bank 7 offset 0x3FFF; every paged bank with rotating high 7FFD bits
// @assume receiver CPU not halted / no EI pending / no prefix pending before the load (that region: c14_sna_into_busy_cpu)
// @outside RAM offsets outside the witness class (page transfers are whole-slice copies); display refresh; 7FFD values not enumerated
// @stub ZXController::refresh_memory_dependent_devices -> no-op; ZXScreen::process_clocks -> no-op (display is C08's subject)
// @replay solver-only
#[kani::proof]
#[kani::unwind(29)]
#[kani::stub(ZXController::refresh_memory_dependent_devices, noop_refresh)]
#[kani::stub(ZXScreen::process_clocks, noop_screen_clocks)]
fn c14_sna128_load_bank7_all_paged() {
    let his: [u8; 8] = [0x00, 0x08, 0x10, 0x20, 0x38, 0xC0, 0x28, 0x18];
    let mut paged = 0u8;
    while paged < 8 {
        c14_sna128_body(7, paged, 0x3FFF, his[((paged + 8) & 7) as usize], his[((paged + 11) & 7) as usize] & 0x1F | ((paged + 5) & 7) | ((paged & 1) << 5));
        paged += 1;
    }
}

// ================================================================================================
// Regions that were known findings KF-C13-1..5, KF-C14-1..3, KF-C15-1..2 before the fix commits
// 5a7bee8..a0baa7b; they must hold now.
// ================================================================================================

// @harness
// @prop C13
// @tier quick
// @timeout 600
// @fn sna::save; Regs::get_h_alt; Regs::get_l_alt; sna::load
// @sym every register of a 128K saver, restricted to HL' != HL
// @assert after save -> load the receiver's HL' equals the saver's HL' (was KF-C13-1)
// @bound 1 save + 1 load, 128K, 7FFD 0x00, no RAM witness
// @assume HL' != HL (sub-region of the c13_rt* harnesses, kept as a focused regression witness)
// @stub ZXController::refresh_memory_dependent_devices -> no-op; ZXScreen::process_clocks -> no-op
// @replay solver-only
#[kani::proof]
#[kani::unwind(29)]
#[kani::stub(ZXController::refresh_memory_dependent_devices, noop_refresh)]
#[kani::stub(ZXScreen::process_clocks, noop_screen_clocks)]
fn c13_rt128_hl_alt_differs_from_hl() {
    let a = any_abs();
    kani::assume(a.hl_alt != a.hl);
    let mut s = mk_emulator(ZXMachine::Sinclair128K, CTX);
    set_abs(&mut s, &a);
    let mut rec = SparseRecorder::new(NO_WITNESS);
    let r = save(&mut s, &mut rec);
    kani::assert(r.is_ok(), "c13.hl_alt.save_ok");
    let asset = SparseAsset::new(rec.len, rec.head, rec.tail, NO_WITNESS, 0);
    let mut b = receiver(ZXMachine::Sinclair128K, false, 0);
    let r = load(&mut b, asset);
    kani::assert(r.is_ok(), "c13.hl_alt.load_ok");
    let got = read_abs(&mut b);
    kani::assert(got.hl_alt == a.hl_alt, "c13.rt128.hl_alt");
    kani::cover!(a.hl_alt == 0x1234 && a.hl == 0x4321, "reached with distinct HL and HL'");
}

// @harness
// @prop C13
// @tier quick
// @timeout 600
// @fn sna::save; ScopedSnapshotState::enter; ScopedSnapshotState::drop
// @sym every register, PC, frame clock of a 48K saver; the RAM byte just below SP
// @assert save_snapshot leaves registers, PC, SP, frame clock and the RAM byte at SP-1 of the running machine unchanged (was KF-C13-2)
// @bound 1 save, 48K, SP = 0x8101 (concrete), witness address 0x8100
// @stub ZXController::refresh_memory_dependent_devices -> no-op; ZXScreen::process_clocks -> no-op
// @replay solver-only
#[kani::proof]
#[kani::unwind(29)]
#[kani::stub(ZXController::refresh_memory_dependent_devices, noop_refresh)]
#[kani::stub(ZXScreen::process_clocks, noop_screen_clocks)]
fn c13_save48_keeps_byte_below_sp() {
    let sv = c13_save48(1, 0x100, SpMode::PcHi, true);
    kani::assert(sv.rec.wval == (sv.pc >> 8) as u8, "c13.save48.file_holds_pc_high_below_sp");
    kani::cover!(sv.wv != (sv.pc >> 8) as u8, "the byte below SP differs from what the file holds there");
}

/// one 48K save with the stack inside display memory: SP literal, the two bytes below it symbolic
fn save_display_case(sp: u16, bitmap: bool, y: usize, col: usize) {
    use crate::zx::video::screen::verif_hooks as sh;
    let mut s = mk_emulator(ZXMachine::Sinclair48K, CTX);
    let pc: u16 = kani::any();
    cpu(&mut s).regs.set_pc(pc);
    cpu(&mut s).regs.set_sp(sp);
    let (b0, b1): (u8, u8) = (kani::any(), kani::any());
    // the picture memory as the program left it: RAM and the renderer's copy agree (written through the
    // same path CPU writes take)
    controller(&mut s).write_internal(sp.wrapping_sub(2), b0);
    controller(&mut s).write_internal(sp.wrapping_sub(1), b1);
    let mut rec = SparseRecorder::new(27);
    let r = save(&mut s, &mut rec);
    kani::assert(r.is_ok(), "c08.save.ok");
    kani::assert(s.peek(sp.wrapping_sub(2)) == b0 && s.peek(sp.wrapping_sub(1)) == b1, "c08.save.screen_memory_unchanged");
    let c = controller(&mut s);
    let (d0, d1) = if bitmap {
        (sh::shadow_bitmap(&c.screen, 0, y, col), sh::shadow_bitmap(&c.screen, 0, y, col + 1))
    } else {
        (sh::shadow_attr(&c.screen, 0, y, col), sh::shadow_attr(&c.screen, 0, y, col + 1))
    };
    kani::assert(d0 == b0 && d1 == b1, "c08.save.displayed_cells_follow_screen_memory");
    kani::cover!(b0 != pc as u8 && b1 != (pc >> 8) as u8, "bytes below SP differ from the PC bytes the saver parks there");
}

// @harness
// @prop C08 C13
// @tier quick
// @timeout 600
// @fn sna::save; ScopedSnapshotState::enter; ScopedSnapshotState::drop; ZXController::write_internal; ZXScreen::update
// @sym PC, the two bytes below SP; SP in the bitmap (0x4102), in the attributes (0x5902), at the end of the bitmap (0x5800)
// @assert saving a 48K SNA while the stack lies in display memory (the saver parks PC there for the duration of the save) leaves ULA-visible memory unchanged AND the cells the renderer will draw equal to it - the picture stays the decode of screen memory after a save
// @bound 1 save, 48K, three literal stack positions
// @stub ZXController::refresh_memory_dependent_devices -> no-op (save does not call it; load does); ZXScreen::process_clocks -> no-op
// @replay solver-only
#[kani::proof]
#[kani::unwind(29)]
#[kani::stub(ZXController::refresh_memory_dependent_devices, noop_refresh)]
#[kani::stub(ZXScreen::process_clocks, noop_screen_clocks)]
fn c08_sna_save_keeps_displayed_cells() {
    let sel: u8 = kani::any();
    match sel {
        // 0x4100/0x4101: bitmap offset 0x100 = pixel row 1, columns 0 and 1
        0 => save_display_case(0x4102, true, 1, 0),
        // 0x5900/0x5901: attribute offset 0x100 = character row 8, columns 0 and 1
        1 => save_display_case(0x5902, false, 8, 0),
        // 0x57FE/0x57FF: last two bitmap bytes = pixel row 191, columns 30 and 31
        _ => save_display_case(0x5800, true, 191, 30),
    }
}

// @harness
// @prop C13
// @tier quick
// @timeout 600
// @fn sna::save; ScopedSnapshotState::enter; ScopedSnapshotState::drop
// @sym every register, PC, frame clock of a 48K saver
// @assert save_snapshot leaves PC (and everything else) of the running machine unchanged even when the two bytes below SP are ROM (was KF-C13-3)
// @bound 1 save, 48K, SP = 0x2000
// @outside what the file then contains (the 48K format cannot carry PC when the stack is in ROM: the statement's proviso)
// @stub ZXController::refresh_memory_dependent_devices -> no-op; ZXScreen::process_clocks -> no-op
// @replay solver-only
#[kani::proof]
#[kani::unwind(29)]
#[kani::stub(ZXController::refresh_memory_dependent_devices, noop_refresh)]
#[kani::stub(ZXScreen::process_clocks, noop_screen_clocks)]
fn c13_save48_rom_stack_keeps_pc() {
    let sv = c13_save48(1, 0x100, SpMode::At(0x2000), false);
    kani::cover!(sv.pc == 0xBEEF, "reached");
}

/// SP class for the side-effect sweep: (SP, witness page, witness offset); the witness is one of the
/// two bytes below SP whenever that byte is RAM
const SAVE48_SP_CLASS: [(u16, u8, usize); 9] = [
    (0x0000, 2, 0x3FFF), // bytes FFFE/FFFF (wrap)
    (0x0001, 2, 0x3FFF), // FFFF and 0000: RAM + ROM
    (0x0002, 0, 0x0000), // 0000/0001: both ROM, witness elsewhere
    (0x2000, 1, 0x1234), // deep in ROM
    (0x4000, 0, 0x1B00), // 3FFE/3FFF: ROM just below RAM
    (0x4001, 0, 0x0000), // 3FFF ROM + 4000 RAM (witness)
    (0x4002, 0, 0x0001), // first two RAM bytes, witness = SP-1
    (0x8001, 0, 0x3FFF), // page crossing 7FFF/8000, witness = SP-2
    (0xFFFF, 2, 0x3FFE), // FFFD/FFFE, witness = SP-1
];

// @harness
// @prop C13
// @tier quick
// @timeout 900
// @fn sna::save; ScopedSnapshotState::enter; ScopedSnapshotState::drop
// @sym every register, PC, IFF1, frame clock, witness RAM value; SP enumerated over 9 class members covering wrap-around, ROM, ROM/RAM boundary, page crossing
// @assert "taking the snapshot leaves the running machine's registers and memory unchanged": all registers, PC, SP, IFF1, control flags, frame clock and the witness RAM byte (one of the two bytes below SP whenever it is RAM) are as before
// @bound 9 saves, 48K
// @outside symbolic SP (symbolic RAM stores do not finish under CBMC); RAM bytes other than the witness
// @stub ZXController::refresh_memory_dependent_devices -> no-op; ZXScreen::process_clocks -> no-op
// @replay solver-only
#[kani::proof]
#[kani::unwind(29)]
#[kani::stub(ZXController::refresh_memory_dependent_devices, noop_refresh)]
#[kani::stub(ZXScreen::process_clocks, noop_screen_clocks)]
fn c13_save48_side_effect_free_sp_class() {
    let mut i = 0;
    while i < 9 {
        let (sp, page, off) = SAVE48_SP_CLASS[i];
        let _ = c13_save48(page, off, SpMode::At(sp), false);
        i += 1;
    }
    kani::cover!(true, "all nine stack positions done");
}

// @harness
// @prop C13
// @tier quick
// @timeout 900
// @fn sna::save; ScopedSnapshotState::enter; ScopedSnapshotState::drop (on the error path); DataRecorder::write_all
// @sym every register, PC, IFF1, frame clock, witness RAM value (the byte at SP-1); recorder failing with Err or Ok(0) at write call 0 (header), 1, 2, 3 (pages)
// @assert when the recorder refuses data the save returns Err and the running machine is still unchanged: registers, PC, SP, frame clock and the RAM byte below SP (the early return must still undo the PC placement)
// @bound 8 failing saves, 48K, SP = 0x8101
// @stub ZXController::refresh_memory_dependent_devices -> no-op; ZXScreen::process_clocks -> no-op
// @replay solver-only
#[kani::proof]
#[kani::unwind(29)]
#[kani::stub(ZXController::refresh_memory_dependent_devices, noop_refresh)]
#[kani::stub(ZXScreen::process_clocks, noop_screen_clocks)]
fn c13_save48_failing_recorder_side_effect_free() {
    let mut k = 0u8;
    while k < 4 {
        let _ = c13_save48_rec(1, 0x100, SpMode::PcHi, true, k, 0);
        let _ = c13_save48_rec(1, 0x100, SpMode::PcHi, true, k, 1);
        k += 1;
    }
    kani::cover!(true, "eight failing saves done");
}

fn ctl_clean_after_load(e: &mut Emulator<VHost>) {
    let c = cpu(e);
    kani::assert(!c.halted, "c14.sna.not_halted_after_load");
    kani::assert(!c.skip_interrupt, "c14.sna.no_ei_pending_after_load");
    kani::assert(!has_pending_prefix(c), "c14.sna.no_prefix_pending_after_load");
}

// @harness
// @prop C13
// @tier quick
// @timeout 600
// @fn sna::save; sna::load; Z80::reset_control_state; Z80::emulate (to create and to observe a pending prefix)
// @sym saver registers; receiver halted flag, EI-pending flag, pending DD, FD or ED prefix (created by really executing DD DD, DD FD or DD ED)
// @assert after save -> load into a machine that was halted / had just executed EI / was between DD and its opcode, the CPU is running, takes interrupts and decodes the next opcode unprefixed, and the registers are the saver's (was KF-C13-4)
// @bound 1 save + 1 load, 128K, 7FFD 0x00; one instruction step on a 4-byte bus to observe the prefix
// @stub ZXController::refresh_memory_dependent_devices -> no-op; ZXScreen::process_clocks -> no-op
// @replay solver-only
#[kani::proof]
#[kani::unwind(29)]
#[kani::stub(ZXController::refresh_memory_dependent_devices, noop_refresh)]
#[kani::stub(ZXScreen::process_clocks, noop_screen_clocks)]
fn c13_rt128_into_busy_cpu() {
    let a = any_abs();
    let mut s = mk_emulator(ZXMachine::Sinclair128K, CTX);
    set_abs(&mut s, &a);
    let mut rec = SparseRecorder::new(NO_WITNESS);
    let _ = save(&mut s, &mut rec);
    let asset = SparseAsset::new(rec.len, rec.head, rec.tail, NO_WITNESS, 0);
    let mut b = receiver(ZXMachine::Sinclair128K, true, 0);
    let r = load(&mut b, asset);
    kani::assert(r.is_ok(), "c13.busy.load_ok");
    let got = read_abs(&mut b);
    assert_abs_eq!(got, a, "c13.rt128");
    ctl_clean_after_load(&mut b);
    kani::cover!(true, "reached");
}

fn locked_receiver_body(file_latch: u8, receiver_latch: u8) {
    let a = any_abs();
    let pc: u16 = kani::any();
    let [pcl, pch] = pc.to_le_bytes();
    let paged = file_latch & 7;
    let asset = SparseAsset::new(spec_len128(paged), spec_header(&a, 0), [pcl, pch, file_latch, 0], NO_WITNESS, 0);
    let mut b = receiver(ZXMachine::Sinclair128K, false, receiver_latch);
    kani::assert(!ch::paging_enabled(controller(&mut b)), "c14.sna128.receiver_was_locked");
    let r = load(&mut b, asset);
    kani::assert(r.is_ok(), "c14.sna128.accepted");
    let cb = controller(&mut b);
    kani::assert(cb.read_7ffd() == file_latch, "c14.sna128.latch");
    kani::assert(ch::paging_enabled(cb) == (file_latch & 0x20 == 0), "c14.sna128.lock");
    kani::assert(cb.memory.get_page(0xC000) == crate::zx::memory::Page::Ram(paged), "c14.sna128.map_c000");
}

// @harness
// @prop C13
// @tier quick
// @timeout 600
// @fn sna::load; ZXController::restore_7ffd; ZXController::write_7ffd
// @sym header, PC
// @assert loading a 128K snapshot (7FFD = 0x03) into a machine whose paging is locked (it wrote 0x21 to 7FFD earlier) restores latch, lock and the bank at C000 (was KF-C13-5)
// @bound 1 load, 128K, concrete 7FFD values
// @stub ZXController::refresh_memory_dependent_devices -> no-op; ZXScreen::process_clocks -> no-op
// @replay solver-only
#[kani::proof]
#[kani::unwind(29)]
#[kani::stub(ZXController::refresh_memory_dependent_devices, noop_refresh)]
#[kani::stub(ZXScreen::process_clocks, noop_screen_clocks)]
fn c13_load_into_locked_receiver() {
    locked_receiver_body(0x03, 0x21);
    kani::cover!(true, "reached");
}

// @harness
// @prop C14
// @tier quick
// @timeout 600
// @fn sna::load; Z80::reset_control_state; Z80::emulate (to create and to observe a pending prefix)
// @sym header through the spec encoder; receiver halted flag, EI-pending flag, pending DD, FD or ED prefix (created by really executing DD DD, DD FD or DD ED)
// @assert after loading a well-formed 48K SNA the CPU is not halted, has no EI pending and decodes the next opcode unprefixed, whatever the receiver was doing (was KF-C14-1)
// @bound 1 load, 48K, SP 0x8000; one instruction step on a 4-byte bus to observe the prefix
// @stub ZXController::refresh_memory_dependent_devices -> no-op; ZXScreen::process_clocks -> no-op
// @replay solver-only
#[kani::proof]
#[kani::unwind(29)]
#[kani::stub(ZXController::refresh_memory_dependent_devices, noop_refresh)]
#[kani::stub(ZXScreen::process_clocks, noop_screen_clocks)]
fn c14_sna_into_busy_cpu() {
    let mut a = any_abs();
    a.sp = 0x8000;
    let asset = SparseAsset::new(SPEC_SNA48_LEN, spec_header(&a, 0), [0; 4], NO_WITNESS, 0);
    let mut b = receiver(ZXMachine::Sinclair48K, true, 0);
    let r = load(&mut b, asset);
    kani::assert(r.is_ok(), "c14.sna48.accepted");
    ctl_clean_after_load(&mut b);
    kani::cover!(true, "reached");
}

// @harness
// @prop C14
// @tier quick
// @timeout 600
// @fn sna::load; ZXController::restore_7ffd
// @sym header, PC
// @assert a well-formed 128K SNA with port byte 0x14 loaded into a machine with locked paging (7FFD = 0x26 written earlier) yields latch 0x14, paging unlocked, bank 4 at C000; with port byte 0x35 into a machine locked by 0x21: latch 0x35, locked, bank 5 (was KF-C14-2)
// @bound 2 loads, 128K, concrete 7FFD values
// @stub ZXController::refresh_memory_dependent_devices -> no-op; ZXScreen::process_clocks -> no-op
// @replay solver-only
#[kani::proof]
#[kani::unwind(29)]
#[kani::stub(ZXController::refresh_memory_dependent_devices, noop_refresh)]
#[kani::stub(ZXScreen::process_clocks, noop_screen_clocks)]
fn c14_sna128_into_locked_machine() {
    locked_receiver_body(0x14, 0x26);
    locked_receiver_body(0x35, 0x21);
    kani::cover!(true, "reached");
}

/// a snapshot of the other model must be refused with MachineNotSupported before the asset is read
/// and before anything in the machine changes
fn sna_model_mismatch_body(machine: ZXMachine, size: usize, latch0: u8, bank: u8, off: usize) {
    let a = any_abs();
    let mut asset = SparseAsset::new(size, spec_header(&a, kani::any()), [kani::any(), kani::any(), kani::any(), 0], spec_off48(0, 0), kani::any());
    let mut b = receiver(machine, true, latch0);
    let wv: u8 = kani::any();
    set_ram_byte(&mut b, bank, off, wv);
    let before = read_abs(&mut b);
    let (pc, iff1) = (cpu(&mut b).regs.get_pc(), cpu(&mut b).regs.get_iff1());
    let (halted, skip) = (cpu(&mut b).halted, cpu(&mut b).skip_interrupt);
    let r = load(&mut b, &mut asset);
    kani::assert(matches!(r, Err(Error::SnapshotLoad(SnapshotLoadError::MachineNotSupported))), "c14.sna.model_mismatch_rejected");
    kani::assert(asset.max_req == 0, "c14.sna.model_mismatch_nothing_read");
    let after = read_abs(&mut b);
    assert_abs_eq!(after, before, "c14.sna.model_mismatch_state_untouched");
    let c = cpu(&mut b);
    kani::assert(c.regs.get_pc() == pc && c.regs.get_iff1() == iff1 && c.halted == halted && c.skip_interrupt == skip, "c14.sna.model_mismatch_state_untouched.cpu");
    kani::assert(ram_byte(&mut b, bank, off) == wv, "c14.sna.model_mismatch_state_untouched.ram");
    if machine == ZXMachine::Sinclair128K {
        kani::assert(controller(&mut b).read_7ffd() == latch0, "c14.sna.model_mismatch_state_untouched.latch");
    }
}

// @harness
// @prop C14 C15
// @tier quick
// @timeout 600
// @fn sna::load
// @sym header through the spec encoder, secondary header bytes, receiver registers / control flags / a RAM byte
// @assert a 48K SNA (49179 bytes) offered to a 128K machine, and 128K SNAs (131103, 147487, 49180 bytes) offered to a 48K machine, are refused with Err(MachineNotSupported) without a single read request and with registers, PC, control flags, border, 7FFD latch and the RAM witness untouched (was KF-C14-3 / KF-C15-2)
// @bound 4 loads
// @stub ZXController::refresh_memory_dependent_devices -> no-op; ZXScreen::process_clocks -> no-op
// @replay solver-only
#[kani::proof]
#[kani::unwind(29)]
#[kani::stub(ZXController::refresh_memory_dependent_devices, noop_refresh)]
#[kani::stub(ZXScreen::process_clocks, noop_screen_clocks)]
fn c14_sna_other_model_rejected_untouched() {
    sna_model_mismatch_body(ZXMachine::Sinclair128K, SPEC_SNA48_LEN, 0x13, 0, 0);
    sna_model_mismatch_body(ZXMachine::Sinclair48K, SPEC_SNA128_LEN, 0, 0, 0);
    sna_model_mismatch_body(ZXMachine::Sinclair48K, SPEC_SNA128_LEN_DUP, 0, 2, 0x3FFF);
    sna_model_mismatch_body(ZXMachine::Sinclair48K, SPEC_SNA48_LEN + 1, 0, 1, 0x1B00);
    kani::cover!(true, "four mismatches refused");
}

// ================================================================================================
// C15 / sna::load is total
// ================================================================================================

/// post-load sanity: the memory map still names pages that exist (what `emulate_frames` needs)
fn c15_post_state_ok(e: &mut Emulator<VHost>, machine: ZXMachine) -> bool {
    let c = controller(e);
    let ram_pages: u8 = if machine == ZXMachine::Sinclair48K { 3 } else { 8 };
    let rom_pages: u8 = if machine == ZXMachine::Sinclair48K { 1 } else { 2 };
    let mut ok = true;
    let mut i = 0u16;
    while i < 4 {
        ok &= match c.memory.get_page(i * 0x4000) {
            crate::zx::memory::Page::Ram(p) => p < ram_pages,
            crate::zx::memory::Page::Rom(p) => p < rom_pages,
        };
        i += 1;
    }
    ok
}

/// Outcome counters of a batch of loads (for the reachability witnesses).
#[derive(Clone, Copy)]
pub(crate) struct Tally {
    pub ok: u8,
    pub err: u8,
    pub fault_err: u8,
    /// loads refused (correctly) because the header asked for interrupt mode 3
    pub im3: u8,
}

/// One `sna::load` of a file of `size` bytes whose 27+4 kept bytes are arbitrary, with the given
/// (concrete) fault.  `latch` fixes the 128K port byte (see the C14 notes), None = arbitrary.
fn c15_sna_once(machine: ZXMachine, size: usize, latch: Option<u8>, fault: Fault, t: &mut Tally) {
    let head: [u8; 27] = kani::any();
    let tail: [u8; 4] = [kani::any(), kani::any(), latch.unwrap_or(kani::any()), kani::any()];
    let mut asset = SparseAsset::new(size, head, tail, NO_WITNESS, 0);
    asset.fault = fault;
    let mut e = mk_emulator(machine, CTX);
    let r = load(&mut e, &mut asset);
    kani::assert(asset.max_req <= 16384, "c15.sna.read_requests_bounded_by_page_size");
    kani::assert(asset.calls <= 24, "c15.sna.bounded_number_of_asset_calls");
    kani::assert(c15_post_state_ok(&mut e, machine), "c15.sna.post_state_emulatable");
    if asset.fault_hit {
        // an Err or premature EOF from the asset must surface; a short read must not by itself fail the load
        if fault.kind != 1 {
            kani::assert(r.is_err(), "c15.sna.asset_failure_surfaces_as_err");
        }
    }
    if head[25] & 3 == 3 {
        // no interrupt mode 3: refused (was a panic in Z80::set_im, KF-C15-1)
        kani::assert(r.is_err(), "c15.sna.interrupt_mode_3_is_err");
        t.im3 += 1;
    }
    if r.is_ok() {
        t.ok += 1;
    } else {
        t.err += 1;
        if asset.fault_hit {
            t.fault_err += 1;
        }
    }
}

/// one load per listed fault `(asset call index, kind)` (kind 0: Err, 1: short read of `short_n`
/// bytes -- for a seek: Err --, 2: premature Ok(0)), then optionally one fault-free load
fn c15_sna_list(machine: ZXMachine, size: usize, latch: Option<u8>, faults: &[(u8, u8)], short_n: usize, fault_free: bool) -> Tally {
    let mut t = Tally { ok: 0, err: 0, fault_err: 0, im3: 0 };
    let mut i = 0;
    while i < faults.len() {
        c15_sna_once(machine, size, latch, Fault { at: faults[i].0, kind: faults[i].1, n: short_n }, &mut t);
        i += 1;
    }
    if fault_free {
        c15_sna_once(machine, size, latch, FAULT_NONE, &mut t);
    }
    t
}

// Asset call sequences of sna::load (S = seek, R = read_exact -> one read when not short):
//   48K layout : S S R(hdr) R R R                                         (calls 0..5)
//   128K layout: S S R(hdr) S R(tail) S R R R S R R R R R [R]             (calls 0..14, 15 with bank 2/5 paged)

// @harness
// @prop C15
// @tier quick
// @timeout 900
// @fn sna::load; LoadableAsset::read_exact; Z80::set_im; ZXColor::from_bits; ZXController::write_7ffd; ZXMemory::ram_page_data_mut; Z80::pop_pc_from_stack
// @sym all 27 header bytes and the 4 bytes at 49179 raw (no encoder), fresh per load; fault position and kind enumerated concretely (a symbolic fault makes the file position symbolic and CBMC runs out of memory)
// @assert no panic / overflow / failed unwrap (Kani checks), every loop terminates within the unwinding bound, asset calls <= 24, largest read request <= 16384 bytes (sna::load allocates nothing), an asset Err/EOF surfaces as Err, interrupt-mode byte with both low bits set gives Err, memory map afterwards names existing pages
// @bound 48K machine, 49179-byte file; Err at calls 0,1,2; 1-byte short header read; then no fault
// @outside RAM page contents (whole-slice copies, sparse asset leaves them untouched); 128K port byte values other than the enumerated ones; emulating whole further frames (C01/C04 show a step cannot panic from any state under the map invariant asserted here)
// @stub ZXController::refresh_memory_dependent_devices -> no-op; ZXScreen::process_clocks -> no-op
// @replay solver-only
#[kani::proof]
#[kani::unwind(29)]
#[kani::stub(ZXController::refresh_memory_dependent_devices, noop_refresh)]
#[kani::stub(ZXScreen::process_clocks, noop_screen_clocks)]
fn c15_sna48_faults_seek_header() {
    let t = c15_sna_list(ZXMachine::Sinclair48K, 49179, None, &[(0, 0), (1, 0), (2, 0), (2, 1)], 1, true);
    kani::cover!(t.ok >= 1 && t.fault_err >= 1, "fault-free load succeeds, injected faults surface as Err");
}

// @harness
// @prop C15
// @tier quick
// @timeout 900
// @fn sna::load; LoadableAsset::read_exact; Z80::set_im; ZXColor::from_bits; ZXController::write_7ffd; ZXMemory::ram_page_data_mut; Z80::pop_pc_from_stack
// @sym all 27 header bytes and the 4 bytes at 49179 raw (no encoder), fresh per load; fault position and kind enumerated concretely (a symbolic fault makes the file position symbolic and CBMC runs out of memory)
// @assert no panic / overflow / failed unwrap (Kani checks), every loop terminates within the unwinding bound, asset calls <= 24, largest read request <= 16384 bytes (sna::load allocates nothing), an asset Err/EOF surfaces as Err, interrupt-mode byte with both low bits set gives Err, memory map afterwards names existing pages
// @bound 48K machine, 49179-byte file; Err at calls 3,4,5; 1-byte short page read at call 4
// @outside RAM page contents (whole-slice copies, sparse asset leaves them untouched); 128K port byte values other than the enumerated ones; emulating whole further frames (C01/C04 show a step cannot panic from any state under the map invariant asserted here)
// @stub ZXController::refresh_memory_dependent_devices -> no-op; ZXScreen::process_clocks -> no-op
// @replay solver-only
#[kani::proof]
#[kani::unwind(29)]
#[kani::stub(ZXController::refresh_memory_dependent_devices, noop_refresh)]
#[kani::stub(ZXScreen::process_clocks, noop_screen_clocks)]
fn c15_sna48_faults_pages() {
    let t = c15_sna_list(ZXMachine::Sinclair48K, 49179, None, &[(3, 0), (4, 0), (5, 0), (4, 1)], 1, false);
    kani::cover!(t.fault_err >= 1, "injected faults surface as Err");
}

// @harness
// @prop C15
// @tier quick
// @timeout 900
// @fn sna::load; LoadableAsset::read_exact; Z80::set_im; ZXColor::from_bits; ZXController::write_7ffd; ZXMemory::ram_page_data_mut; Z80::pop_pc_from_stack
// @sym all 27 header bytes and the 4 bytes at 49179 raw (no encoder), fresh per load; fault position and kind enumerated concretely (a symbolic fault makes the file position symbolic and CBMC runs out of memory)
// @assert no panic / overflow / failed unwrap (Kani checks), every loop terminates within the unwinding bound, asset calls <= 24, largest read request <= 16384 bytes (sna::load allocates nothing), an asset Err/EOF surfaces as Err, interrupt-mode byte with both low bits set gives Err, memory map afterwards names existing pages
// @bound files of the other model under faults: 128K machine with a 49179-byte file, 48K machine with 131103- and 49180-byte files; Err at seek 0, seek 1, then no fault: always Err, never more than the two seeks
// @outside RAM page contents (whole-slice copies, sparse asset leaves them untouched); 128K port byte values other than the enumerated ones; emulating whole further frames (C01/C04 show a step cannot panic from any state under the map invariant asserted here)
// @stub ZXController::refresh_memory_dependent_devices -> no-op; ZXScreen::process_clocks -> no-op
// @replay solver-only
#[kani::proof]
#[kani::unwind(29)]
#[kani::stub(ZXController::refresh_memory_dependent_devices, noop_refresh)]
#[kani::stub(ZXScreen::process_clocks, noop_screen_clocks)]
fn c15_sna_other_model_file_faults() {
    let t1 = c15_sna_list(ZXMachine::Sinclair128K, 49179, None, &[(0, 0), (1, 0)], 1, true);
    let t2 = c15_sna_list(ZXMachine::Sinclair48K, 131103, None, &[(0, 0), (1, 0)], 1, true);
    let t3 = c15_sna_list(ZXMachine::Sinclair48K, 49180, None, &[(1, 0)], 1, true);
    kani::assert(t1.ok == 0 && t2.ok == 0 && t3.ok == 0, "c15.sna.other_model_is_err");
    kani::cover!(t1.err == 3 && t2.fault_err == 2 && t3.err == 2, "all eight loads refused");
}

// @harness
// @prop C15
// @tier quick
// @timeout 900
// @fn sna::load; LoadableAsset::read_exact; Z80::set_im; ZXColor::from_bits; ZXController::write_7ffd; ZXMemory::ram_page_data_mut; Z80::pop_pc_from_stack
// @sym all 27 header bytes and the 4 bytes at 49179 raw (no encoder), fresh per load; fault position and kind enumerated concretely (a symbolic fault makes the file position symbolic and CBMC runs out of memory)
// @assert no panic / overflow / failed unwrap (Kani checks), every loop terminates within the unwinding bound, asset calls <= 24, largest read request <= 16384 bytes (sna::load allocates nothing), an asset Err/EOF surfaces as Err, interrupt-mode byte with both low bits set gives Err, memory map afterwards names existing pages
// @bound 128K machine, 131103-byte file, port byte 0x13; Err at calls 0..4, then no fault
// @outside RAM page contents (whole-slice copies, sparse asset leaves them untouched); 128K port byte values other than the enumerated ones; emulating whole further frames (C01/C04 show a step cannot panic from any state under the map invariant asserted here)
// @stub ZXController::refresh_memory_dependent_devices -> no-op; ZXScreen::process_clocks -> no-op
// @replay solver-only
#[kani::proof]
#[kani::unwind(29)]
#[kani::stub(ZXController::refresh_memory_dependent_devices, noop_refresh)]
#[kani::stub(ZXScreen::process_clocks, noop_screen_clocks)]
fn c15_sna128_faults_calls_0_4() {
    let t = c15_sna_list(ZXMachine::Sinclair128K, 131103, Some(0x13), &[(0, 0), (1, 0), (2, 0), (3, 0), (4, 0)], 1, true);
    kani::cover!(t.ok >= 1 && t.fault_err >= 1, "fault-free load succeeds, injected faults surface as Err");
}

// @harness
// @prop C15
// @tier quick
// @timeout 900
// @fn sna::load; LoadableAsset::read_exact; Z80::set_im; ZXColor::from_bits; ZXController::write_7ffd; ZXMemory::ram_page_data_mut; Z80::pop_pc_from_stack
// @sym all 27 header bytes and the 4 bytes at 49179 raw (no encoder), fresh per load; fault position and kind enumerated concretely (a symbolic fault makes the file position symbolic and CBMC runs out of memory)
// @assert no panic / overflow / failed unwrap (Kani checks), every loop terminates within the unwinding bound, asset calls <= 24, largest read request <= 16384 bytes (sna::load allocates nothing), an asset Err/EOF surfaces as Err, interrupt-mode byte with both low bits set gives Err, memory map afterwards names existing pages
// @bound 128K machine, 131103-byte file, port byte 0x2C; Err at calls 5..9
// @outside RAM page contents (whole-slice copies, sparse asset leaves them untouched); 128K port byte values other than the enumerated ones; emulating whole further frames (C01/C04 show a step cannot panic from any state under the map invariant asserted here)
// @stub ZXController::refresh_memory_dependent_devices -> no-op; ZXScreen::process_clocks -> no-op
// @replay solver-only
#[kani::proof]
#[kani::unwind(29)]
#[kani::stub(ZXController::refresh_memory_dependent_devices, noop_refresh)]
#[kani::stub(ZXScreen::process_clocks, noop_screen_clocks)]
fn c15_sna128_faults_calls_5_9() {
    let t = c15_sna_list(ZXMachine::Sinclair128K, 131103, Some(0x2C), &[(5, 0), (6, 0), (7, 0), (8, 0), (9, 0)], 1, false);
    kani::cover!(t.fault_err >= 1, "injected faults surface as Err");
}

// @harness
// @prop C15
// @tier quick
// @timeout 900
// @fn sna::load; LoadableAsset::read_exact; Z80::set_im; ZXColor::from_bits; ZXController::write_7ffd; ZXMemory::ram_page_data_mut; Z80::pop_pc_from_stack
// @sym all 27 header bytes and the 4 bytes at 49179 raw (no encoder), fresh per load; fault position and kind enumerated concretely (a symbolic fault makes the file position symbolic and CBMC runs out of memory)
// @assert no panic / overflow / failed unwrap (Kani checks), every loop terminates within the unwinding bound, asset calls <= 24, largest read request <= 16384 bytes (sna::load allocates nothing), an asset Err/EOF surfaces as Err, interrupt-mode byte with both low bits set gives Err, memory map afterwards names existing pages
// @bound 128K machine, 131103-byte file, port byte 0x06; Err at calls 10..14
// @outside RAM page contents (whole-slice copies, sparse asset leaves them untouched); 128K port byte values other than the enumerated ones; emulating whole further frames (C01/C04 show a step cannot panic from any state under the map invariant asserted here)
// @stub ZXController::refresh_memory_dependent_devices -> no-op; ZXScreen::process_clocks -> no-op
// @replay solver-only
#[kani::proof]
#[kani::unwind(29)]
#[kani::stub(ZXController::refresh_memory_dependent_devices, noop_refresh)]
#[kani::stub(ZXScreen::process_clocks, noop_screen_clocks)]
fn c15_sna128_faults_calls_10_14() {
    let t = c15_sna_list(ZXMachine::Sinclair128K, 131103, Some(0x06), &[(10, 0), (11, 0), (12, 0), (13, 0), (14, 0)], 1, false);
    kani::cover!(t.fault_err >= 1, "injected faults surface as Err");
}

// @harness
// @prop C15
// @tier quick
// @timeout 900
// @fn sna::load; LoadableAsset::read_exact; Z80::set_im; ZXColor::from_bits; ZXController::write_7ffd; ZXMemory::ram_page_data_mut; Z80::pop_pc_from_stack
// @sym all 27 header bytes and the 4 bytes at 49179 raw (no encoder), fresh per load; fault position and kind enumerated concretely (a symbolic fault makes the file position symbolic and CBMC runs out of memory)
// @assert no panic / overflow / failed unwrap (Kani checks), every loop terminates within the unwinding bound, asset calls <= 24, largest read request <= 16384 bytes (sna::load allocates nothing), an asset Err/EOF surfaces as Err, interrupt-mode byte with both low bits set gives Err, memory map afterwards names existing pages
// @bound 128K machine, 131103-byte file, port byte 0x31; short reads at the header (1 byte), secondary header (1 byte), a head bank and a tail bank
// @outside RAM page contents (whole-slice copies, sparse asset leaves them untouched); 128K port byte values other than the enumerated ones; emulating whole further frames (C01/C04 show a step cannot panic from any state under the map invariant asserted here)
// @stub ZXController::refresh_memory_dependent_devices -> no-op; ZXScreen::process_clocks -> no-op
// @replay solver-only
#[kani::proof]
#[kani::unwind(29)]
#[kani::stub(ZXController::refresh_memory_dependent_devices, noop_refresh)]
#[kani::stub(ZXScreen::process_clocks, noop_screen_clocks)]
fn c15_sna128_short_reads() {
    let t = c15_sna_list(ZXMachine::Sinclair128K, 131103, Some(0x31), &[(2, 1), (4, 1), (7, 1), (11, 1)], 1, false);
    kani::assert(t.ok + t.im3 == 4, "c15.sna.short_reads_do_not_fail_the_load");
    kani::cover!(t.ok == 4, "short reads are retried");
}

// @harness
// @prop C15
// @tier quick
// @timeout 900
// @fn sna::load; LoadableAsset::read_exact; Z80::set_im; ZXColor::from_bits; ZXController::write_7ffd; ZXMemory::ram_page_data_mut; Z80::pop_pc_from_stack
// @sym all 27 header bytes and the 4 bytes at 49179 raw (no encoder), fresh per load; fault position and kind enumerated concretely (a symbolic fault makes the file position symbolic and CBMC runs out of memory)
// @assert no panic / overflow / failed unwrap (Kani checks), every loop terminates within the unwinding bound, asset calls <= 24, largest read request <= 16384 bytes (sna::load allocates nothing), an asset Err/EOF surfaces as Err, interrupt-mode byte with both low bits set gives Err, memory map afterwards names existing pages
// @bound 128K machine; sizes 49180 (secondary header cut), 131102 (last bank one byte short), 131103 with bank 2 paged (file one bank short), 147488 (one byte too many, bank 5 paged); no injected fault
// @outside RAM page contents (whole-slice copies, sparse asset leaves them untouched); 128K port byte values other than the enumerated ones; emulating whole further frames (C01/C04 show a step cannot panic from any state under the map invariant asserted here)
// @stub ZXController::refresh_memory_dependent_devices -> no-op; ZXScreen::process_clocks -> no-op
// @replay solver-only
#[kani::proof]
#[kani::unwind(29)]
#[kani::stub(ZXController::refresh_memory_dependent_devices, noop_refresh)]
#[kani::stub(ZXScreen::process_clocks, noop_screen_clocks)]
fn c15_sna128_truncated_and_oversized() {
    let mut t = Tally { ok: 0, err: 0, fault_err: 0, im3: 0 };
    c15_sna_once(ZXMachine::Sinclair128K, 49180, Some(0x00), FAULT_NONE, &mut t);
    c15_sna_once(ZXMachine::Sinclair128K, 131102, Some(0x07), FAULT_NONE, &mut t);
    c15_sna_once(ZXMachine::Sinclair128K, 131103, Some(0x02), FAULT_NONE, &mut t);
    kani::assert(t.ok == 0 && t.err == 3, "c15.sna.truncated_files_are_err");
    c15_sna_once(ZXMachine::Sinclair128K, 147488, Some(0x05), FAULT_NONE, &mut t);
    kani::cover!(t.err == 3, "three truncated files rejected");
}

// @harness
// @prop C15
// @tier thorough
// @timeout 3600
// @fn sna::load; LoadableAsset::read_exact; Z80::set_im; ZXColor::from_bits; ZXController::write_7ffd; ZXMemory::ram_page_data_mut; Z80::pop_pc_from_stack
// @sym all 27 header bytes and the 4 bytes at 49179 raw (no encoder), fresh per load; fault position and kind enumerated concretely (a symbolic fault makes the file position symbolic and CBMC runs out of memory)
// @assert no panic / overflow / failed unwrap (Kani checks), every loop terminates within the unwinding bound, asset calls <= 24, largest read request <= 16384 bytes (sna::load allocates nothing), an asset Err/EOF surfaces as Err, interrupt-mode byte with both low bits set gives Err, memory map afterwards names existing pages
// @bound 48K machine, 49179-byte file; premature Ok(0) at calls 2..5, 26-byte short read at calls 2..5
// @outside RAM page contents (whole-slice copies, sparse asset leaves them untouched); 128K port byte values other than the enumerated ones; emulating whole further frames (C01/C04 show a step cannot panic from any state under the map invariant asserted here)
// @stub ZXController::refresh_memory_dependent_devices -> no-op; ZXScreen::process_clocks -> no-op
// @replay solver-only
#[kani::proof]
#[kani::unwind(29)]
#[kani::stub(ZXController::refresh_memory_dependent_devices, noop_refresh)]
#[kani::stub(ZXScreen::process_clocks, noop_screen_clocks)]
fn c15_sna48_eof_and_short26() {
    let t = c15_sna_list(ZXMachine::Sinclair48K, 49179, None, &[(2, 2), (3, 2), (4, 2), (5, 2), (2, 1), (3, 1), (4, 1), (5, 1)], 26, true);
    kani::cover!(t.ok >= 1 && t.fault_err >= 1, "fault-free load succeeds, injected faults surface as Err");
}

// @harness
// @prop C15
// @tier thorough
// @timeout 7200
// @fn sna::load; LoadableAsset::read_exact; Z80::set_im; ZXColor::from_bits; ZXController::write_7ffd; ZXMemory::ram_page_data_mut; Z80::pop_pc_from_stack
// @sym all 27 header bytes and the 4 bytes at 49179 raw (no encoder), fresh per load; fault position and kind enumerated concretely (a symbolic fault makes the file position symbolic and CBMC runs out of memory)
// @assert no panic / overflow / failed unwrap (Kani checks), every loop terminates within the unwinding bound, asset calls <= 24, largest read request <= 16384 bytes (sna::load allocates nothing), an asset Err/EOF surfaces as Err, interrupt-mode byte with both low bits set gives Err, memory map afterwards names existing pages
// @bound 128K machine, 147487-byte file, port byte 0x05 / 0x3A; Err at calls 0..15; premature Ok(0) and 16383-byte short reads at every read call
// @outside RAM page contents (whole-slice copies, sparse asset leaves them untouched); 128K port byte values other than the enumerated ones; emulating whole further frames (C01/C04 show a step cannot panic from any state under the map invariant asserted here)
// @stub ZXController::refresh_memory_dependent_devices -> no-op; ZXScreen::process_clocks -> no-op
// @replay solver-only
#[kani::proof]
#[kani::unwind(29)]
#[kani::stub(ZXController::refresh_memory_dependent_devices, noop_refresh)]
#[kani::stub(ZXScreen::process_clocks, noop_screen_clocks)]
fn c15_sna128_dup_bank_faults() {
    let t = c15_sna_list(ZXMachine::Sinclair128K, 147487, Some(0x05), &[(0, 0), (1, 0), (2, 0), (3, 0), (4, 0), (5, 0), (6, 0), (7, 0), (8, 0), (9, 0), (10, 0), (11, 0), (12, 0), (13, 0), (14, 0), (15, 0)], 1, true);
    let _ = c15_sna_list(ZXMachine::Sinclair128K, 147487, Some(0x3A), &[(2, 2), (4, 2), (6, 2), (7, 2), (8, 2), (10, 2), (11, 2), (12, 2), (13, 2), (14, 2), (15, 2), (6, 1), (7, 1), (8, 1), (10, 1), (15, 1)], 16383, false);
    kani::cover!(t.ok >= 1 && t.fault_err >= 1, "fault-free load succeeds, injected faults surface as Err");
}

// @harness
// @prop C15
// @tier quick
// @timeout 600
// @fn sna::load; Z80::set_im
// @sym all header bytes with byte 25 & 3 == 3, receiver registers; both machines with their matching file size
// @assert a header whose interrupt-mode byte has both low bits set is refused with Err(InvalidSNAFile) (was a panic, KF-C15-1) and leaves registers, PC and control flags untouched
// @bound 2 loads, no fault
// @assume header byte 25 & 3 == 3
// @stub ZXController::refresh_memory_dependent_devices -> no-op; ZXScreen::process_clocks -> no-op
// @replay solver-only
#[kani::proof]
#[kani::unwind(29)]
#[kani::stub(ZXController::refresh_memory_dependent_devices, noop_refresh)]
#[kani::stub(ZXScreen::process_clocks, noop_screen_clocks)]
fn c15_sna_interrupt_mode_3_rejected() {
    let mut m = 0;
    while m < 2 {
        let (machine, size) = if m == 0 { (ZXMachine::Sinclair48K, 49179) } else { (ZXMachine::Sinclair128K, 131103) };
        let mut head: [u8; 27] = kani::any();
        head[25] |= 3;
        let asset = SparseAsset::new(size, head, [0; 4], NO_WITNESS, 0);
        let mut e = receiver(machine, true, 0x05);
        let before = read_abs(&mut e);
        let (pc, halted) = (cpu(&mut e).regs.get_pc(), cpu(&mut e).halted);
        let r = load(&mut e, asset);
        kani::assert(matches!(r, Err(Error::SnapshotLoad(SnapshotLoadError::InvalidSNAFile))), "c15.sna.interrupt_mode_3_is_err");
        let after = read_abs(&mut e);
        assert_abs_eq!(after, before, "c15.sna.interrupt_mode_3_state_untouched");
        kani::assert(cpu(&mut e).regs.get_pc() == pc && cpu(&mut e).halted == halted, "c15.sna.interrupt_mode_3_state_untouched.cpu");
        m += 1;
    }
    kani::cover!(true, "reached");
}

// @harness
// @prop C15
// @tier quick
// @timeout 600
// @fn sna::load; LoadableAsset::read_exact; Z80::set_im; ZXColor::from_bits; ZXController::write_7ffd; ZXMemory::ram_page_data_mut; Z80::pop_pc_from_stack
// @sym all kept bytes
// @assert files shorter than a 48K snapshot are Err without a single read request; failing seeks are Err
// @bound file sizes 0, 1, 26, 27, 28, 31, 60, 49178 on both machines; Err at seek 0 / seek 1 / none
// @outside RAM page contents (whole-slice copies, sparse asset leaves them untouched); 128K port byte values other than the enumerated ones; emulating whole further frames (C01/C04 show a step cannot panic from any state under the map invariant asserted here)
// @stub ZXController::refresh_memory_dependent_devices -> no-op; ZXScreen::process_clocks -> no-op
// @replay solver-only
#[kani::proof]
#[kani::unwind(29)]
#[kani::stub(ZXController::refresh_memory_dependent_devices, noop_refresh)]
#[kani::stub(ZXScreen::process_clocks, noop_screen_clocks)]
fn c15_sna_short_files_rejected() {
    let sizes: [usize; 8] = [0, 1, 26, 27, 28, 31, 60, 49178];
    let mut i = 0;
    while i < 8 {
        let mut m = 0;
        while m < 2 {
            let machine = if m == 0 { ZXMachine::Sinclair48K } else { ZXMachine::Sinclair128K };
            let mut asset = SparseAsset::new(sizes[i], kani::any(), kani::any(), NO_WITNESS, 0);
            asset.fault = Fault { at: if i % 3 == 2 { NO_FAULT } else { (i % 3) as u8 }, kind: 0, n: 0 };
            let mut e = mk_emulator(machine, CTX);
            let r = load(&mut e, &mut asset);
            kani::assert(r.is_err(), "c15.sna.short_file_is_err");
            kani::assert(asset.max_req == 0 && asset.calls <= 2, "c15.sna.short_file_no_reads");
            m += 1;
        }
        i += 1;
    }
    kani::cover!(true, "all sizes done");
}

// ================================================================================================
// reachability twins: the bodies above really reach their last line (final assert(false) must fail)
// ================================================================================================

// @harness
// @prop C13
// @tier quick
// @timeout 600
// @expect vacuity
// @fn sna::save; sna::load
// @bound reachability twin of c13_rt128_bank3_paged3
// @stub ZXController::refresh_memory_dependent_devices -> no-op; ZXScreen::process_clocks -> no-op
// @replay solver-only
#[kani::proof]
#[kani::unwind(29)]
#[kani::stub(ZXController::refresh_memory_dependent_devices, noop_refresh)]
#[kani::stub(ZXScreen::process_clocks, noop_screen_clocks)]
fn c13_rt128_reach() {
    c13_rt128_body(3, 3, 0x3FFF, 0x28, 0x15);
    kani::assert(false, "c13.reach");
}

// @harness
// @prop C13
// @tier quick
// @timeout 600
// @expect vacuity
// @fn sna::save; sna::load
// @bound reachability twin of c13_rt48_pc_low_p0
// @stub ZXController::refresh_memory_dependent_devices -> no-op; ZXScreen::process_clocks -> no-op
// @replay solver-only
#[kani::proof]
#[kani::unwind(29)]
#[kani::stub(ZXController::refresh_memory_dependent_devices, noop_refresh)]
#[kani::stub(ZXScreen::process_clocks, noop_screen_clocks)]
fn c13_rt48_reach() {
    c13_rt48_body(0, 0x1AFF, SpMode::PcLo);
    kani::assert(false, "c13.reach");
}

// @harness
// @prop C14
// @tier quick
// @timeout 600
// @expect vacuity
// @fn sna::load
// @bound reachability twin of c14_sna48_load_p1_last_sp_on_witness and c14_sna128_load_bank3_paged3
// @stub ZXController::refresh_memory_dependent_devices -> no-op; ZXScreen::process_clocks -> no-op
// @replay solver-only
#[kani::proof]
#[kani::unwind(29)]
#[kani::stub(ZXController::refresh_memory_dependent_devices, noop_refresh)]
#[kani::stub(ZXScreen::process_clocks, noop_screen_clocks)]
fn c14_sna_load_reach() {
    c14_sna48_body(1, 0x3FFF, Some(0xBFFF));
    c14_sna128_body(3, 3, 1, 0x28, 0x1F);
    kani::assert(false, "c14.reach");
}

// @harness
// @prop C15
// @tier quick
// @timeout 600
// @expect vacuity
// @fn sna::load
// @bound reachability twin of c15_sna48_faults_pages
// @stub ZXController::refresh_memory_dependent_devices -> no-op; ZXScreen::process_clocks -> no-op
// @replay solver-only
#[kani::proof]
#[kani::unwind(29)]
#[kani::stub(ZXController::refresh_memory_dependent_devices, noop_refresh)]
#[kani::stub(ZXScreen::process_clocks, noop_screen_clocks)]
fn c15_sna_faults_reach() {
    let _ = c15_sna_list(ZXMachine::Sinclair48K, 49179, None, &[(3, 0), (4, 1)], 1, false);
    kani::assert(false, "c15.reach");
}
