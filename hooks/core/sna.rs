//! Kani harnesses compiled as a child module of rustzx-core/src/emulator/snapshot/sna.rs (cfg(kani) only).
