//! Kani harnesses compiled as a child module of rustzx-core/src/emulator/fastload/tap.rs (cfg(kani) only).
//! Property C10: fast tape loading leaves the machine exactly as the ROM's LD-BYTES would.
#![allow(dead_code)]
use super::*;
use crate::emulator::verif_hooks as emu;
use crate::host::{BufferCursor, Tape};
use crate::verif_hooks::{FbCtx, VBuf, VHost};
use crate::zx::controller::verif_hooks as ctl;
use crate::zx::machine::ZXMachine;
use rustzx_z80::RegName16 as R16;

const CTX: FbCtx = FbCtx { wx: 0, wy: 0 };
/// LD-BREAK in the 48K ROM: `RET NZ` after `CP A`, entered once per LD-BYTES call before the first
/// edge is looked for; A'F' hold the expected flag byte and the LOAD/VERIFY carry since `EX AF,AF'`
const S_LD_BREAK: u16 = 0x056B;
const S_FLAG_C: u8 = 0x01;
const S_FLAG_Z: u8 = 0x40;

// ---- specification: what LD-BYTES (48K ROM 0x0556..0x05E2) leaves behind --------------------------
//
//   LD-BYTES  INC D / EX AF,AF' / DEC D ...      A' = flag byte, F'.C = LOAD(1)/VERIFY(0), F'.Z = 0
//   LD-BREAK  RET NZ                             <- trap point
//   ... pilot, sync ...  LD H,0                  parity := 0
//   LD-MARKER/LD-8-BITS  read 8 bits into L      time-out (RET NC: carry reset) when the tape is silent
//             LD A,H / XOR L / LD H,A            parity ^= byte
//             LD A,D / OR E / JR NZ,LD-LOOP      DE = 0: this byte was the parity byte ->
//             LD A,H / CP 1 / RET                carry set iff parity = 0
//   LD-LOOP   EX AF,AF' / JR NZ,LD-FLAG          Z reset: flag byte not seen yet
//             JR NC,LD-VERIFY
//             LD (IX+0),L / JR LD-NEXT           LOAD: store
//   LD-FLAG   RL C / XOR L / RET NZ              flag mismatch: return, carry reset by XOR
//             ... INC DE / JR LD-DEC             flag matched (Z now set); DE unchanged
//   LD-VERIFY LD A,(IX+0) / XOR L / RET NZ       VERIFY mismatch: return, carry reset
//   LD-NEXT   INC IX
//   LD-DEC    DEC DE / EX AF,AF' / ... LD-MARKER
//
// The model works on the bytes of one TAP block; "tape silent" = block exhausted (the pause
// after a block is far longer than the edge time-out).
#[derive(Clone, Copy)]
struct LdOut {
    ix: u16,
    de: u16,
    carry: bool,
    stores: [(u16, u8); 6],
    nstores: usize,
}

/// `pre[k]` = memory at IX+k before the call (what VERIFY compares with)
fn ld_bytes_model(a: u8, f: u8, ix0: u16, de0: u16, block: &[u8], pre: &[u8; 6]) -> LdOut {
    let mut o = LdOut { ix: ix0, de: de0, carry: false, stores: [(0, 0); 6], nstores: 0 };
    let mut flag_seen = f & S_FLAG_Z != 0;
    let load = f & S_FLAG_C != 0;
    let mut parity = 0u8;
    let mut i = 0;
    loop {
        if i >= block.len() {
            // silent tape: LD-EDGE times out, RET NC
            o.carry = false;
            return o;
        }
        let l = block[i];
        i += 1;
        parity ^= l;
        if o.de == 0 {
            o.carry = parity == 0;
            return o;
        }
        if !flag_seen {
            if a != l {
                o.carry = false;
                return o;
            }
            flag_seen = true;
        } else {
            if load {
                o.stores[o.nstores] = (o.ix, l);
                o.nstores += 1;
            } else if pre[o.ix.wrapping_sub(ix0) as usize] != l {
                o.carry = false;
                return o;
            }
            o.ix = o.ix.wrapping_add(1);
            o.de -= 1;
        }
    }
}

/// memory at `w` after the model's stores (stores into ROM, i.e. below 0x4000, have no effect)
fn model_mem_after(o: &LdOut, w: u16, before: u8) -> u8 {
    let mut v = before;
    let mut k = 0;
    while k < o.nstores {
        if o.stores[k].0 == w && w >= 0x4000 {
            v = o.stores[k].1;
        }
        k += 1;
    }
    v
}

// ---- harness plumbing -------------------------------------------------------------------------

/// TAP image with the given block lengths (concrete structure, arbitrary contents)
fn image(layout: &[usize]) -> VBuf {
    let mut b = VBuf { data: kani::any(), len: 0 };
    let mut off = 0;
    let mut i = 0;
    while i < layout.len() {
        b.data[off] = layout[i] as u8;
        b.data[off + 1] = 0;
        off += 2 + layout[i];
        i += 1;
    }
    b.len = off;
    b
}

fn emulator_with_tape(m: ZXMachine, buf: VBuf) -> Emulator<VHost> {
    let mut e = emu::mk_emulator(m, CTX);
    let r = e.load_tape(Tape::Tap(BufferCursor::new(buf)));
    kani::assert(r.is_ok(), "c10.load_tape_ok");
    e
}

#[derive(Clone, Copy, PartialEq, Eq)]
struct CpuView {
    af: u16,
    af_alt: u16,
    pc: u16,
    sp: u16,
    ix: u16,
    de: u16,
}

fn cpu_view(e: &mut Emulator<VHost>) -> CpuView {
    let r = &mut emu::cpu(e).regs;
    let af = r.get_af();
    r.swap_af_alt();
    let af_alt = r.get_af();
    r.swap_af_alt();
    CpuView {
        af,
        af_alt,
        pc: r.get_pc(),
        sp: r.get_sp(),
        ix: r.get_reg_16(R16::IX),
        de: r.get_reg_16(R16::DE),
    }
}

const SP0: u16 = 0xFF50;

/// CPU at the trap point of an LD-BYTES call: PC = LD-BREAK, AF = anything (the ROM has Z set
/// here), A'F' = request, IX/DE = request, return address of the call chain on the stack.
fn at_trap(e: &mut Emulator<VHost>, af: u16, a_req: u8, f_req: u8, ix: u16, de: u16, ret: u16) {
    {
        let r = &mut emu::cpu(e).regs;
        r.set_acc(a_req);
        r.set_flags(f_req);
        r.swap_af_alt();
        r.set_af(af);
        r.set_pc(S_LD_BREAK);
        r.set_sp(SP0);
        r.set_reg_16(R16::IX, ix);
        r.set_reg_16(R16::DE, de);
    }
    let [lo, hi] = ret.to_le_bytes();
    emu::controller(e).memory.force_write(SP0, lo);
    emu::controller(e).memory.force_write(SP0.wrapping_add(1), hi);
}

/// One LD-BYTES request against the next block of the tape (image[off+2 .. off+2+n]) compared
/// with the model.
///
/// Cost notes (measured): one access to the 48K RAM vector at a symbolic address costs about
/// 2 M clauses / 40 s.  `ix` is therefore concrete, memory is compared at the concrete addresses
/// IX-1 ..= IX+6 (plus one optional symbolic witness), and `f_req` is passed as a constant where
/// possible: with symbolic F' the destination pointer of the second and later loop rounds is
/// a symbolic choice (flag byte consumed or not) and every store becomes a symbolic one.
fn request_case(
    e: &mut Emulator<VHost>,
    buf: &VBuf,
    off: usize,
    n: usize,
    ix: u16,
    f_req: u8,
    witness: Option<u16>,
) -> (LdOut, u16) {
    let a_req: u8 = kani::any();
    let de: u16 = kani::any();
    kani::assume(de <= 5);
    request_with(e, buf, off, n, ix, f_req, a_req, de, witness)
}

/// `request_case` with the expected flag byte and the length chosen by the caller.  With
/// concrete `f_req`/`de` and Z' set the number of bytes the request takes from the tape is
/// concrete, which keeps the stream position concrete for a following request (a symbolic
/// position makes the refill path of `next_block_byte`, a symbolic-size memcpy, look reachable).
fn request_with(
    e: &mut Emulator<VHost>,
    buf: &VBuf,
    off: usize,
    n: usize,
    ix: u16,
    f_req: u8,
    a_req: u8,
    de: u16,
    witness: Option<u16>,
) -> (LdOut, u16) {
    let af: u16 = kani::any();
    let ret: u16 = kani::any();
    at_trap(e, af, a_req, f_req, ix, de, ret);
    // arbitrary memory contents where the request points (VERIFY compares with them);
    // mem[k] = contents of IX-1+k
    let mut mem = [0u8; 8];
    let mut k = 0;
    while k < 8 {
        mem[k] = kani::any();
        emu::controller(e).memory.force_write(ix.wrapping_add(k as u16).wrapping_sub(1), mem[k]);
        k += 1;
    }
    let pre = [mem[1], mem[2], mem[3], mem[4], mem[5], mem[6]];
    let before_w = match witness {
        Some(w) => e.peek(w),
        None => 0,
    };
    let r = emu::fast_load_event(e);
    kani::assert(r.is_ok(), "c10.ld.ok");
    let o = ld_bytes_model(a_req, f_req, ix, de, &buf.data[off + 2..off + 2 + n], &pre);
    let v = cpu_view(e);
    kani::assert(v.ix == o.ix, "c10.ld.ix");
    kani::assert(v.de == o.de, "c10.ld.de");
    kani::assert((v.af as u8 & S_FLAG_C != 0) == o.carry, "c10.ld.carry_success_flag");
    let mut k = 0;
    while k < 8 {
        let addr = ix.wrapping_add(k as u16).wrapping_sub(1);
        kani::assert(e.peek(addr) == model_mem_after(&o, addr, mem[k]), "c10.ld.memory");
        k += 1;
    }
    if let Some(w) = witness {
        kani::assert(e.peek(w) == model_mem_after(&o, w, before_w), "c10.ld.memory_elsewhere");
    }
    // the routine has returned to its caller (the ROM leaves through RET)
    kani::assert(v.pc == ret && v.sp == SP0.wrapping_add(2), "c10.ld.returned_to_caller");
    (o, de)
}

fn one_block_case(m: ZXMachine, n: usize, ix: u16, f_req: u8) -> (LdOut, u16) {
    let buf = image(&[n]);
    let mut e = emulator_with_tape(m, buf);
    request_case(&mut e, &buf, 0, n, ix, f_req, None)
}

const K48: ZXMachine = ZXMachine::Sinclair48K;
const K128: ZXMachine = ZXMachine::Sinclair128K;

// @harness
// @prop C10
// @tier quick
// @kani_args --no-assertion-reach-checks
// @timeout 600
// @fn fast_load_tap; Emulator::process_fast_load_event; Emulator::load_tape; Tap::from_asset; Tap::next_block; Tap::next_block_byte; Tap::can_fast_load; BufferCursor::read; ZXController::write_internal; ZXMemory::read; ZXMemory::write; Z80::pop_pc_from_stack
// @sym 48K machine; tape = one block of 0, 1, 2, 3 or 4 arbitrary bytes; LOAD request (F' = carry set, Z reset): A' (expected flag byte), DE in 0..=5, AF, return address and the memory at IX-1..IX+6 arbitrary; IX = 0x8000
// @assert after the fast-load event IX, DE, the carry flag and memory at IX-1..IX+6 equal the LD-BYTES model run on the block: first byte compared with A', following bytes stored in order with IX++/DE--, the byte after the last requested one taken as parity, carry set iff the flag matched and the XOR of all bytes read is 0; carry reset on flag mismatch and when the block is too short (incl. the empty block); the routine returns to the caller's return address
// @bound blocks of 0..=4 bytes x requests of 0..=5 bytes (shorter than, equal to, longer than the block); one concrete IX; F' bits other than C and Z are 0 (c10_loader_any_flags); unwind 9
// @outside agreement of the model with the ROM binary; blocks longer than 4 bytes (the loop is length-independent given the byte stream shown in c10_stream_*)
#[kani::proof]
#[kani::unwind(9)]
fn c10_loader_load() {
    let (o, de) = one_block_case(K48, 0, 0x8000, S_FLAG_C);
    kani::cover!(!o.carry && de == 0 && o.ix == 0x8000, "empty block: nothing loaded, no success");
    let (o, de) = one_block_case(K48, 1, 0x8000, S_FLAG_C);
    kani::cover!(o.carry && de == 0, "DE = 0: first byte is taken as the parity byte");
    let (o, de) = one_block_case(K48, 2, 0x8000, S_FLAG_C);
    kani::cover!(o.carry && de == 0, "2-byte block, nothing requested");
    kani::cover!(!o.carry && de == 1 && o.nstores == 1, "block one byte short: data stored, no parity byte");
    let (o, de) = one_block_case(K48, 3, 0x8000, S_FLAG_C);
    kani::cover!(o.carry && de == 1 && o.nstores == 1, "successful LOAD of 1 byte");
    kani::cover!(!o.carry && de == 1 && o.de == 0, "parity error");
    kani::cover!(!o.carry && de == 1 && o.de == 1, "flag mismatch");
    kani::cover!(!o.carry && de == 5 && o.de == 3, "block too short");
    let (o, de) = one_block_case(K48, 4, 0x8000, S_FLAG_C);
    kani::cover!(o.carry && de == 2 && o.nstores == 2, "successful LOAD of 2 bytes");
    kani::cover!(o.carry && de == 1 && o.nstores == 1, "block longer than requested: rest ignored");
}

// @harness
// @prop C10
// @tier quick
// @kani_args --no-assertion-reach-checks
// @timeout 600
// @fn fast_load_tap; Emulator::process_fast_load_event; Tap::next_block; Tap::next_block_byte; ZXMemory::read; Z80::pop_pc_from_stack
// @sym as c10_loader_load, VERIFY request (F' = carry reset, Z reset)
// @assert as c10_loader_load with bytes compared with memory instead of stored: memory unchanged, carry reset and IX/DE left at the first differing byte
// @bound as c10_loader_load
#[kani::proof]
#[kani::unwind(9)]
fn c10_loader_verify() {
    let (o, _de) = one_block_case(K48, 0, 0x8000, 0);
    kani::cover!(!o.carry, "empty block");
    let (o, de) = one_block_case(K48, 1, 0x8000, 0);
    kani::cover!(!o.carry && de == 1 && o.de == 1, "only a flag byte");
    let (o, de) = one_block_case(K48, 2, 0x8000, 0);
    kani::cover!(o.carry && de == 0, "nothing requested");
    let (o, de) = one_block_case(K48, 3, 0x8000, 0);
    kani::cover!(o.carry && de == 1, "successful VERIFY of 1 byte");
    kani::cover!(!o.carry && de == 1 && o.de == 1 && o.ix == 0x8000, "VERIFY mismatch at the first byte (or wrong flag)");
    let (o, de) = one_block_case(K48, 4, 0x8000, 0);
    kani::cover!(o.carry && de == 2 && o.ix == 0x8002, "successful VERIFY of 2 bytes");
    kani::cover!(!o.carry && de == 2 && o.de == 1 && o.ix == 0x8001, "VERIFY mismatch at the second byte");
    kani::cover!(o.nstores == 0, "VERIFY never stores");
}

// @harness
// @prop C10
// @tier quick
// @kani_args --no-assertion-reach-checks
// @timeout 600
// @fn fast_load_tap; Emulator::process_fast_load_event; Tap::next_block; Tap::next_block_byte; ZXController::write_internal; ZXMemory::read; ZXMemory::write
// @sym as c10_loader_load, with Z' set at the trap point (LD-BYTES entered with D = 0xFF makes INC D set Z: the ROM then treats the flag byte as data), LOAD and VERIFY
// @assert as c10_loader_load: no flag comparison, the first byte is already stored / compared
// @bound blocks of 1..=3 bytes; unwind 9
#[kani::proof]
#[kani::unwind(9)]
fn c10_loader_flag_already_matched() {
    let (o, de) = one_block_case(K48, 1, 0x8000, S_FLAG_Z | S_FLAG_C);
    kani::cover!(!o.carry && de == 1 && o.nstores == 1, "single byte stored, then tape silent");
    let (o, de) = one_block_case(K48, 3, 0x8000, S_FLAG_Z | S_FLAG_C);
    kani::cover!(o.carry && de == 2 && o.nstores == 2, "flag byte loaded as data");
    let (o, de) = one_block_case(K48, 3, 0x8000, S_FLAG_Z);
    kani::cover!(o.carry && de == 2 && o.ix == 0x8002, "flag byte verified as data");
    let (o, de) = one_block_case(K48, 2, 0x8000, S_FLAG_Z);
    kani::cover!(!o.carry && de == 2 && o.de == 1, "VERIFY, block too short");
}

// @harness
// @prop C10
// @tier quick
// @kani_args --no-assertion-reach-checks
// @timeout 900
// @fn fast_load_tap; Emulator::process_fast_load_event; Tap::next_block; Tap::next_block_byte; ZXController::write_internal; ZXMemory::read; ZXMemory::write
// @sym 48K machine; block of 1 or 2 arbitrary bytes; A' and ALL 8 bits of F' arbitrary, DE in 0..=5, IX = 0x8000
// @assert as c10_loader_load: only the carry (LOAD/VERIFY) and zero (flag matched) bits of F' matter
// @bound blocks of 1 and 2 bytes (with symbolic F' every further loop round adds a store at a symbolic address, ~40 s each); unwind 9
#[kani::proof]
#[kani::unwind(9)]
fn c10_loader_any_flags() {
    let f: u8 = kani::any();
    let (o, de) = one_block_case(K48, 1, 0x8000, f);
    kani::cover!(o.carry && de == 0 && f == 0xBE, "odd flag bits, DE = 0");
    let f: u8 = kani::any();
    let (o, de) = one_block_case(K48, 2, 0x8000, f);
    kani::cover!(!o.carry && de == 5 && f == 0xFF && o.nstores == 2, "all flag bits set: LOAD without flag check, runs out of tape");
    kani::cover!(o.carry && de == 0 && f & S_FLAG_Z == 0, "DE = 0");
}

// @harness
// @prop C10 C15
// @tier quick
// @kani_args --no-assertion-reach-checks
// @timeout 900
// @fn fast_load_tap; Emulator::process_fast_load_event; ZXController::write_internal; ZXMemory::read; ZXMemory::write; Z80::pop_pc_from_stack
// @sym 48K machine: LOAD and VERIFY of a 4-byte block (requests of 0..=5 bytes) at destinations that straddle the memory map: IX = 0x3FFF (last ROM byte, then RAM), 0x7FFF (page boundary), 0xFFFF (wraps to ROM address 0x0000), 0x5AFF (end of the screen attributes)
// @assert as c10_loader_load; stores into ROM addresses have no effect (as LD (IX+0),L on the real machine), IX wraps modulo 64K without arithmetic overflow (C15: fast-loading a well-formed tape never overflows, also when the block ends at or beyond 0xFFFF)
// @bound the listed destinations; unwind 9
#[kani::proof]
#[kani::unwind(9)]
fn c10_loader_addresses_48k() {
    let (o, de) = one_block_case(K48, 4, 0x3FFF, S_FLAG_C);
    kani::cover!(o.carry && de == 2 && o.nstores == 2, "LOAD across the ROM/RAM boundary");
    let (o, de) = one_block_case(K48, 4, 0x3FFF, 0);
    kani::cover!(o.carry && de == 2, "VERIFY against ROM then RAM");
    let (o, de) = one_block_case(K48, 4, 0x7FFF, S_FLAG_C);
    kani::cover!(o.carry && de == 2, "LOAD across a page boundary");
    let (o, de) = one_block_case(K48, 4, 0xFFFF, S_FLAG_C);
    kani::cover!(o.carry && de == 2 && o.ix == 0x0001, "LOAD wrapping from 0xFFFF to 0x0000");
    let (o, de) = one_block_case(K48, 4, 0x5AFF, S_FLAG_C);
    kani::cover!(o.carry && de == 2, "LOAD across the end of the attribute area");
}

// @harness
// @prop C10
// @tier quick
// @kani_args --no-assertion-reach-checks
// @timeout 900
// @fn fast_load_tap; Emulator::process_fast_load_event; ZXController::write_internal; ZXMemory::read; ZXMemory::write; Z80::pop_pc_from_stack
// @sym 128K machine (reset paging: ROM 0, bank 5, bank 2, bank 0): LOAD of a 4-byte block at IX = 0xBFFF (fixed bank 2 into paged bank 0), VERIFY at IX = 0xFFFF (wraps into ROM)
// @assert as c10_loader_load
// @bound the listed destinations; unwind 9
#[kani::proof]
#[kani::unwind(9)]
fn c10_loader_addresses_128k() {
    let (o, de) = one_block_case(K128, 4, 0xBFFF, S_FLAG_C);
    kani::cover!(o.carry && de == 2, "128K: LOAD from bank 2 into bank 0");
    let (o, de) = one_block_case(K128, 4, 0xFFFF, 0);
    kani::cover!(o.carry && de == 2, "128K: VERIFY wrapping into ROM");
}

// @harness
// @prop C10
// @tier quick
// @kani_args --no-assertion-reach-checks
// @timeout 900
// @fn fast_load_tap; Emulator::process_fast_load_event; ZXController::write_internal; ZXMemory::write
// @sym LOAD of a 4-byte block, DE in 0..=5, IX = 0x8000, one witness address w anywhere in the 64K
// @assert memory at w after the request is what the model says: untouched unless w is one of the stored-to addresses
// @bound one symbolic witness (two symbolic reads of the RAM vector); unwind 9
#[kani::proof]
#[kani::unwind(9)]
fn c10_loader_memory_elsewhere() {
    let buf = image(&[4]);
    let mut e = emulator_with_tape(K48, buf);
    let w: u16 = kani::any();
    let (o, de) = request_case(&mut e, &buf, 0, 4, 0x8000, S_FLAG_C, Some(w));
    kani::cover!(o.carry && de == 2 && w == 0x8001, "witness on a loaded byte");
    kani::cover!(o.carry && de == 2 && w == 0x4000, "witness in the screen");
    kani::cover!(o.carry && de == 2 && w == 0x1234, "witness in ROM");
}

// @harness
// @prop C10
// @tier quick
// @kani_args --no-assertion-reach-checks
// @timeout 900
// @fn fast_load_tap; Emulator::process_fast_load_event; Tap::next_block (skips the rest of the previous block); Tap::next_block_byte; BufferCursor::read
// @sym tape of two blocks (4 bytes, then 3 bytes), contents arbitrary; first request one of: (i) LOAD of 1 byte with Z' set (takes 2 of the 4 bytes), (ii) LOAD of 5 bytes with Z' set (more than the block holds), (iii) VERIFY of 0 bytes (takes 1 byte); second request a LOAD with arbitrary A', DE in 0..=5
// @assert every request consumes exactly the next block: the first request is answered from block 1 whether it reads less than, all of, or tries to read more than the block, the second one from block 2 (the unread rest of block 1 is skipped, nothing of block 2 is lost), each exactly as the model says
// @bound two blocks, three shapes of the first request (its length is concrete so that the stream position stays concrete, see request_with); unwind 9
#[kani::proof]
#[kani::unwind(9)]
fn c10_consecutive_requests() {
    let buf = image(&[4, 3]);
    let mut e = emulator_with_tape(K48, buf);
    let (o1, _) = request_with(&mut e, &buf, 0, 4, 0x8000, S_FLAG_C | S_FLAG_Z, kani::any(), 1, None);
    let (o2, de2) = request_case(&mut e, &buf, 6, 3, 0x9000, S_FLAG_C, None);
    kani::cover!(o1.nstores == 1 && o2.carry && de2 == 1, "short first request, block 2 loaded");
    let mut e = emulator_with_tape(K48, buf);
    let (o1, _) = request_with(&mut e, &buf, 0, 4, 0x8000, S_FLAG_C | S_FLAG_Z, kani::any(), 5, None);
    let (o2, de2) = request_case(&mut e, &buf, 6, 3, 0x9000, S_FLAG_C, None);
    kani::cover!(!o1.carry && o1.nstores == 4 && o2.carry && de2 == 1, "first request ran out of block 1, block 2 still complete");
    let mut e = emulator_with_tape(K48, buf);
    let (_o1, _) = request_with(&mut e, &buf, 0, 4, 0x8000, 0, kani::any(), 0, None);
    let (o2, de2) = request_case(&mut e, &buf, 6, 3, 0x9000, S_FLAG_C, None);
    kani::cover!(o2.carry && de2 == 1, "one-byte first request, block 2 loaded");
}

/// Request on a tape with no block left; returns (before, after) CPU views.
fn no_block_case(layout: &[usize], consume: usize, extra: usize) -> (CpuView, CpuView, u8, u8) {
    let mut buf = image(layout);
    buf.len += extra;
    let mut e = emulator_with_tape(K48, buf);
    // use up the blocks with ordinary requests that read them to the end
    let mut i = 0;
    let mut off = 0;
    while i < consume {
        let _ = request_with(&mut e, &buf, off, layout[i], 0x8000, S_FLAG_C | S_FLAG_Z, kani::any(), 5, None);
        off += 2 + layout[i];
        i += 1;
    }
    let af: u16 = kani::any();
    let (a_req, f_req): (u8, u8) = (kani::any(), kani::any());
    let ix: u16 = kani::any();
    let de: u16 = kani::any();
    at_trap(&mut e, af, a_req, f_req, ix, de, kani::any());
    let m0 = e.peek(0x8000);
    let s0 = e.peek(SP0);
    let before = cpu_view(&mut e);
    let r = emu::fast_load_event(&mut e);
    kani::assert(r.is_ok(), "c10.end.ok");
    let after = cpu_view(&mut e);
    kani::assert(e.peek(0x8000) == m0 && e.peek(SP0) == s0, "c10.end.memory_untouched");
    (before, after, a_req, f_req)
}

fn undisturbed_except_af(b: &CpuView, a: &CpuView) -> bool {
    a.pc == S_LD_BREAK && a.pc == b.pc && a.sp == b.sp && a.ix == b.ix && a.de == b.de
}

// @harness
// @prop C10
// @tier quick
// @kani_args --no-assertion-reach-checks
// @timeout 900
// @fn fast_load_tap; Emulator::process_fast_load_event; Tap::next_block; Tap::can_fast_load
// @sym (a) empty tape image, (b) one-block tape whose block has been consumed by a previous request, (c) the same with a stray byte after the block; request registers AF, A'F', IX, DE all arbitrary
// @assert when no block is left the request does not complete: PC stays at LD-BREAK (no return to the caller is faked), SP, IX and DE are untouched and memory is not written - the ROM keeps waiting for an edge as with a silent tape
// @bound three end-of-tape situations; unwind 9
// @assume AF and AF' are compared in c10_no_block_left_kf_flags only (known finding KF-C10-1: they come back exchanged)
#[kani::proof]
#[kani::unwind(9)]
fn c10_no_block_left() {
    let (b, a, _, _) = no_block_case(&[], 0, 0);
    kani::assert(undisturbed_except_af(&b, &a), "c10.end.cpu_state_not_disturbed");
    kani::cover!(a.ix == 0x1234 && a.de == 0xFFFF, "arbitrary request, empty tape");
    let (b, a, _, _) = no_block_case(&[2], 1, 0);
    kani::assert(undisturbed_except_af(&b, &a), "c10.end.cpu_state_not_disturbed");
    kani::cover!(a.de == 17, "after the last block");
    let (b, a, _, _) = no_block_case(&[2], 1, 1);
    kani::assert(undisturbed_except_af(&b, &a), "c10.end.cpu_state_not_disturbed");
    kani::cover!(a.de == 18, "stray byte after the last block");
}

// @harness
// @prop C10
// @tier quick
// @kani_args --no-assertion-reach-checks
// @expect pass
// @timeout 900
// @fn fast_load_tap; Emulator::process_fast_load_event; Tap::next_block
// @sym empty tape; request registers arbitrary, AF as the ROM has it at LD-BREAK (Z set by CP A), A'F' = a LOAD request (Z reset, carry set)
// @assert AF and AF' are untouched when no block is left, so that the ROM's `RET NZ` at LD-BREAK is not taken (region of a defect that has been fixed in /repo; formerly: fast_load_tap returns after swap_af_alt without swapping back; RET NZ then sees the request's flags - Z reset - and returns to the caller with the LOAD carry still set: the request "succeeds" without any data)
// @bound one situation; unwind 9
#[kani::proof]
#[kani::unwind(9)]
fn c10_no_block_left_kf_flags() {
    let (b, a, _a_req, f_req) = no_block_case(&[], 0, 0);
    kani::assume(b.af as u8 & S_FLAG_Z != 0 && f_req & S_FLAG_Z == 0 && f_req & S_FLAG_C != 0);
    kani::assert(a.af as u8 & S_FLAG_Z != 0, "c10.end.ret_nz_not_taken_no_fake_success");
    kani::assert(a.af == b.af && a.af_alt == b.af_alt, "c10.end.af_and_af_alt_not_disturbed");
    kani::cover!(true, "end");
}

// @harness
// @prop C10
// @tier quick
// @kani_args --no-assertion-reach-checks
// @timeout 900
// @fn Emulator::process_fast_load_event; Emulator::set_fast_load; Emulator::play_tape; Tap::can_fast_load; Empty::can_fast_load
// @sym one-block tape (3 bytes); request registers arbitrary; three situations: fast loading switched off, tape playing (play_tape called), no tape inserted (Empty)
// @assert the fast-load event does nothing unless fast loading is enabled AND the tape is stopped: AF, AF', PC, SP, IX, DE unchanged, and the tape has not moved (a later request with fast loading enabled / the tape stopped again still gets block 1)
// @bound the three situations; unwind 9
#[kani::proof]
#[kani::unwind(9)]
fn c10_event_gating() {
    let buf = image(&[3]);
    // fast loading disabled
    let mut e = emulator_with_tape(K48, buf);
    e.set_fast_load(false);
    at_trap(&mut e, kani::any(), kani::any(), kani::any(), kani::any(), kani::any(), kani::any());
    let b = cpu_view(&mut e);
    let r = emu::fast_load_event(&mut e);
    kani::assert(r.is_ok() && cpu_view(&mut e) == b, "c10.gate.disabled_does_nothing");
    e.set_fast_load(true);
    let (o, de) = request_case(&mut e, &buf, 0, 3, 0x8000, S_FLAG_C, None);
    kani::cover!(o.carry && de == 1, "block 1 still there after the ignored event");
    // tape playing
    let mut e = emulator_with_tape(K48, buf);
    e.play_tape();
    at_trap(&mut e, kani::any(), kani::any(), kani::any(), kani::any(), kani::any(), kani::any());
    let b = cpu_view(&mut e);
    let r = emu::fast_load_event(&mut e);
    kani::assert(r.is_ok() && cpu_view(&mut e) == b, "c10.gate.playing_tape_does_nothing");
    e.stop_tape();
    let (o, de) = request_case(&mut e, &buf, 0, 3, 0x8000, S_FLAG_C, None);
    kani::cover!(o.carry && de == 1, "block 1 still there after stop");
    // no tape
    let mut e = emu::mk_emulator(K48, CTX);
    at_trap(&mut e, kani::any(), kani::any(), kani::any(), kani::any(), kani::any(), kani::any());
    let b = cpu_view(&mut e);
    let r = emu::fast_load_event(&mut e);
    kani::assert(r.is_ok() && cpu_view(&mut e) == b, "c10.gate.no_tape_does_nothing");
}

// @harness
// @prop C10
// @tier quick
// @kani_args --no-assertion-reach-checks
// @timeout 600
// @fn ZXController::pc_callback; ZXController::write_7ffd; ZXMemory::get_bank_type; ZXMemory::remap
// @sym machine (48K / 128K), two arbitrary writes to port 7FFD (so any ROM selection, RAM bank, screen and lock bit history), PC value reported by the CPU (any)
// @assert the fast-load trigger event is raised iff PC = 0x056B (LD-BREAK) and the ROM mapped at 0x0000 is the 48K BASIC ROM: always on the 48K machine, on the 128K machine iff bit 4 of the last accepted 7FFD write is set (a write is accepted unless an earlier one set the lock bit 5); no breakpoint event without a debugger
// @bound two latch writes; no loops
#[kani::proof]
fn c10_trap_condition() {
    trap_case(K48);
    trap_case(K128);
}

fn trap_case(m: ZXMachine) {
    use rustzx_z80::Z80Bus;
    let mut c = ctl::mk_controller(m, CTX, false, false);
    let (v1, v2): (u8, u8) = (kani::any(), kani::any());
    c.write_7ffd(v1);
    c.write_7ffd(v2);
    // specification of the 128K latch
    let latch = if v1 & 0x20 != 0 { v1 } else { v2 };
    let basic_rom = match m {
        ZXMachine::Sinclair48K => true,
        ZXMachine::Sinclair128K => latch & 0x10 != 0,
    };
    let pc: u16 = kani::any();
    kani::assert(ctl::events_bits(&c) == 0, "c10.trap.no_event_before");
    c.pc_callback(pc);
    let ev = ctl::events_bits(&c);
    kani::assert((ev & 0x01 != 0) == (pc == S_LD_BREAK && basic_rom), "c10.trap.iff_ld_break_in_basic_rom");
    kani::assert(ev & !0x01 == 0, "c10.trap.no_other_event");
    kani::cover!(ev != 0 && m == ZXMachine::Sinclair128K && v1 & 0x20 != 0, "128K, paging locked with BASIC ROM in");
    kani::cover!(ev == 0 && pc == S_LD_BREAK && m == ZXMachine::Sinclair128K, "128K editor ROM at LD-BREAK address: no trap");
    kani::cover!(ev != 0 && m == ZXMachine::Sinclair48K, "48K trap");
}

// ---- through Emulator::emulate_frames ---------------------------------------------------------

use core::time::Duration;
use rustzx_z80::{Z80Bus, Z80};

/// Replacement for one CPU step: the CPU arrives at LD-BREAK (as after `CP A` at 0x056A or the
/// `JR NC` at 0x056F), reports the new PC to the bus as `Z80::emulate` does at its end, and a
/// whole frame's worth of T-states passes so that `emulate_frames` returns after this step.
fn emulate_arrives_at_ld_break<B: Z80Bus>(cpu: &mut Z80, bus: &mut B) {
    cpu.regs.set_pc(S_LD_BREAK);
    bus.wait_internal(70_908);
    bus.pc_callback(cpu.regs.get_pc());
}

fn noop_screen_clocks<FB: crate::host::FrameBuffer>(_s: &mut crate::zx::video::screen::ZXScreen<FB>, _clocks: usize) {}

// @harness
// @prop C10
// @tier quick
// @kani_args --no-assertion-reach-checks
// @timeout 900
// @fn Emulator::emulate_frames; Emulator::process_fast_load_event; ZXController::pc_callback; ZXController::take_events; fast_load_tap; Emulator::set_fast_load
// @sym one-block tape (3 arbitrary bytes); LOAD request with arbitrary A', DE in 0..=5, IX = 0x8000; fast loading enabled or disabled (symbolic)
// @assert through the public frame loop: when the CPU step ends at LD-BREAK with the BASIC ROM paged, emulate_frames performs the fast load in that same step iff fast loading is enabled (tape stopped): registers and memory then equal the LD-BYTES model and the routine has returned; with fast loading disabled nothing is touched and PC stays at LD-BREAK; emulate_frames returns Ok
// @bound one CPU step, one frame; unwind 9
// @stub Z80::emulate -> "PC := LD-BREAK, a frame of T-states passes, pc_callback(PC)" (the instruction set is C01's subject); ZXScreen::process_clocks -> no-op
// @replay solver-only
#[kani::proof]
#[kani::unwind(9)]
#[kani::stub(rustzx_z80::Z80::emulate, emulate_arrives_at_ld_break)]
#[kani::stub(crate::zx::video::screen::ZXScreen::process_clocks, noop_screen_clocks)]
fn c10_through_emulate_frames() {
    let buf = image(&[3]);
    let mut e = emulator_with_tape(K48, buf);
    let enabled: bool = kani::any();
    e.set_fast_load(enabled);
    let (a_req, de, ret): (u8, u16, u16) = (kani::any(), kani::any(), kani::any());
    kani::assume(de <= 5);
    at_trap(&mut e, kani::any(), a_req, S_FLAG_C, 0x8000, de, ret);
    let mut mem = [0u8; 6];
    let mut k = 0;
    while k < 6 {
        mem[k] = kani::any();
        emu::controller(&mut e).memory.force_write(0x8000 + k as u16, mem[k]);
        k += 1;
    }
    let before = cpu_view(&mut e);
    let r = e.emulate_frames(Duration::from_millis(20));
    kani::assert(r.is_ok(), "c10.frames.ok");
    let v = cpu_view(&mut e);
    let o = ld_bytes_model(a_req, S_FLAG_C, 0x8000, de, &buf.data[2..5], &mem);
    if enabled {
        kani::assert(v.ix == o.ix && v.de == o.de && (v.af as u8 & S_FLAG_C != 0) == o.carry, "c10.frames.fast_load_performed");
        kani::assert(v.pc == ret && v.sp == SP0.wrapping_add(2), "c10.frames.returned_to_caller");
        let mut k = 0;
        while k < 6 {
            let addr = 0x8000 + k as u16;
            kani::assert(e.peek(addr) == model_mem_after(&o, addr, mem[k]), "c10.frames.memory");
            k += 1;
        }
    } else {
        kani::assert(v == before, "c10.frames.disabled_nothing_touched");
        kani::assert(e.peek(0x8000) == mem[0] && e.peek(0x8001) == mem[1], "c10.frames.disabled_memory_untouched");
    }
    kani::cover!(enabled && o.carry && de == 1, "successful load through the frame loop");
    kani::cover!(!enabled, "fast loading disabled");
}

// @harness
// @prop C10 C15
// @tier quick
// @kani_args --no-assertion-reach-checks
// @timeout 900
// @fn fast_load_tap; Emulator::process_fast_load_event; Tap::next_block; Tap::next_block_byte; BufferCursor::read; LoadableAsset::read_exact
// @sym malformed tape images with arbitrary contents: (a) block whose length field (5) exceeds the 2 bytes present, (b) length field 0xFFFF with 3 bytes present, (c) a single stray byte, (d) a well-formed 1-byte block followed by one stray byte; request registers arbitrary (DE 0..=5)
// @assert never a panic or overflow; a truncated block makes the request fail with Err (reported by emulate_frames) without faking a return to the caller (PC stays at LD-BREAK), and the following request finds no block; stray bytes are not a block: the request is not performed
// @bound the four images; unwind 9
// @outside register contents after the Err (AF/AF' are left exchanged, cf. KF-C10-1)
#[kani::proof]
#[kani::unwind(9)]
fn c10_loader_malformed_images() {
    // (a)
    let mut buf = image(&[5]);
    buf.len = 4;
    let mut e = emulator_with_tape(K48, buf);
    let de: u16 = kani::any();
    kani::assume(de <= 5);
    at_trap(&mut e, kani::any(), kani::any(), S_FLAG_C, 0x8000, de, kani::any());
    let b = cpu_view(&mut e);
    let r = emu::fast_load_event(&mut e);
    let a = cpu_view(&mut e);
    kani::assert(r.is_err() && undisturbed_except_af(&b, &a), "c10.malformed.truncated_block_is_err_not_success");
    at_trap(&mut e, kani::any(), kani::any(), S_FLAG_C, 0x8000, de, kani::any());
    let b = cpu_view(&mut e);
    let r = emu::fast_load_event(&mut e);
    let a = cpu_view(&mut e);
    kani::assert(r.is_ok() && undisturbed_except_af(&b, &a), "c10.malformed.nothing_after_truncated_block");
    // (b)
    let mut buf = image(&[3]);
    buf.data[0] = 0xFF;
    buf.data[1] = 0xFF;
    let mut e = emulator_with_tape(K48, buf);
    at_trap(&mut e, kani::any(), kani::any(), S_FLAG_C, 0x8000, de, kani::any());
    let b = cpu_view(&mut e);
    let r = emu::fast_load_event(&mut e);
    let a = cpu_view(&mut e);
    kani::assert(r.is_err() && undisturbed_except_af(&b, &a), "c10.malformed.huge_length_field_is_err");
    // (c)
    let mut buf = image(&[]);
    buf.len = 1;
    let mut e = emulator_with_tape(K48, buf);
    at_trap(&mut e, kani::any(), kani::any(), S_FLAG_C, 0x8000, de, kani::any());
    let b = cpu_view(&mut e);
    let r = emu::fast_load_event(&mut e);
    let a = cpu_view(&mut e);
    kani::assert(r.is_ok() && undisturbed_except_af(&b, &a), "c10.malformed.stray_byte_is_no_block");
    // (d)
    let mut buf = image(&[1]);
    buf.len += 1;
    let mut e = emulator_with_tape(K48, buf);
    let (o, de1) = request_with(&mut e, &buf, 0, 1, 0x8000, S_FLAG_C | S_FLAG_Z, kani::any(), 5, None);
    at_trap(&mut e, kani::any(), kani::any(), S_FLAG_C, 0x8000, de, kani::any());
    let b = cpu_view(&mut e);
    let r = emu::fast_load_event(&mut e);
    let a = cpu_view(&mut e);
    kani::assert(r.is_ok() && undisturbed_except_af(&b, &a), "c10.malformed.stray_byte_after_block_is_no_block");
    kani::cover!(!o.carry && de1 == 5 && o.nstores == 1, "all four images");
}

// ---- lead: C16 - a breakpoint stop exactly at the loader trap must not change the result -------------

// @harness
// @prop C16 C10
// @tier quick
// @timeout 900
// @fn Emulator::emulate_frames; ZXController::pc_callback (both events raised by one callback); ZXController::take_events; Emulator::process_fast_load_event; fast_load_tap; Emulator::set_debug_interface
// @sym one-block tape (3 arbitrary bytes); LOAD request with arbitrary A', DE in 0..=5; a debug interface with an arbitrary breakpoint address (so also exactly the trap address 0x056B) enabled or not
// @assert host independence: with or without a breakpoint stop at the instruction that reaches the tape trap, the fast load happens in that same step with the same registers and memory (LD-BYTES model); the only difference allowed is the stop reason reported to the host
// @bound one CPU step; unwind 9
// @stub Z80::emulate -> "PC := LD-BREAK, a frame of T-states passes, pc_callback(PC)"; ZXScreen::process_clocks -> no-op
// @replay solver-only
#[kani::proof]
#[kani::unwind(9)]
#[kani::stub(rustzx_z80::Z80::emulate, emulate_arrives_at_ld_break)]
#[kani::stub(crate::zx::video::screen::ZXScreen::process_clocks, noop_screen_clocks)]
fn c16_breakpoint_at_tape_trap_does_not_change_the_load() {
    let buf = image(&[3]);
    let mut e = emulator_with_tape(K48, buf);
    e.set_fast_load(true);
    let bp: u16 = kani::any();
    let with_dbg: bool = kani::any();
    if with_dbg {
        e.set_debug_interface(crate::verif_hooks::VDbg { bp, enabled: true });
    }
    let (a_req, de, ret): (u8, u16, u16) = (kani::any(), kani::any(), kani::any());
    kani::assume(de <= 5);
    at_trap(&mut e, kani::any(), a_req, S_FLAG_C, 0x8000, de, ret);
    let mut mem = [0u8; 6];
    let mut k = 0;
    while k < 6 {
        mem[k] = kani::any();
        emu::controller(&mut e).memory.force_write(0x8000 + k as u16, mem[k]);
        k += 1;
    }
    let r = e.emulate_frames(Duration::from_millis(20));
    let hit = with_dbg && bp == S_LD_BREAK;
    match r {
        Ok(info) => {
            kani::assert((info.stop_reason == crate::EmulationStopReason::Breakpoint) == hit, "c16.trap_bp.stop_reason_reports_breakpoint");
        }
        Err(_) => kani::assert(false, "c16.trap_bp.ok"),
    }
    let v = cpu_view(&mut e);
    let o = ld_bytes_model(a_req, S_FLAG_C, 0x8000, de, &buf.data[2..5], &mem);
    kani::assert(v.ix == o.ix && v.de == o.de && (v.af as u8 & S_FLAG_C != 0) == o.carry, "c16.trap_bp.fast_load_performed_regardless_of_breakpoint");
    kani::assert(v.pc == ret, "c16.trap_bp.returned_to_caller");
    let mut k = 0;
    while k < 6 {
        let addr = 0x8000 + k as u16;
        kani::assert(e.peek(addr) == model_mem_after(&o, addr, mem[k]), "c16.trap_bp.memory");
        k += 1;
    }
    kani::cover!(hit && o.carry, "breakpoint exactly at the trap, successful load");
    kani::cover!(with_dbg && !hit, "breakpoint elsewhere");
}
