//! Kani harnesses compiled as a child module of rustzx-core/src/emulator/fastload/tap.rs (cfg(kani) only).
