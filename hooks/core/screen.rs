//! Kani harnesses compiled as a child module of rustzx-core/src/zx/video/screen.rs (cfg(kani) only).
//! Property C08: the displayed picture is the standard decode of the ULA-visible screen memory.
#![allow(dead_code)]
use super::*;
use crate::utils::screen::verif_hooks::{spec_attr_offset, spec_bitmap_offset};
use crate::verif_hooks::{FbCtx, WitFb};

// ---- accessors for other hook files -----------------------------------------------------------

/// byte of the screen's own copy of the display file, `rel` < 0x1800, local bank 0/1
pub(crate) fn shadow_bitmap(s: &ZXScreen<WitFb>, local: usize, y: usize, col: usize) -> u8 {
    s.banks[local].bitmap[y * ATTR_COLS + col]
}

/// attribute cell of the screen's own copy re-encoded as the byte it was decoded from
pub(crate) fn shadow_attr(s: &ZXScreen<WitFb>, local: usize, row: usize, col: usize) -> u8 {
    let a = s.banks[local].attributes[row * ATTR_COLS + col];
    u8::from(a.ink) | (u8::from(a.paper) << 3) | if a.brightness as u8 == 1 { 0x40 } else { 0 } | if a.flash { 0x80 } else { 0 }
}

pub(crate) fn active_local_bank(s: &ZXScreen<WitFb>) -> usize {
    s.active_bank
}

pub(crate) fn front(s: &ZXScreen<WitFb>) -> &WitFb {
    &s.buffer
}

pub(crate) fn back(s: &ZXScreen<WitFb>) -> &WitFb {
    &s.back_buffer
}

pub(crate) fn set_flash_phase(s: &mut ZXScreen<WitFb>, frame_counter: usize) {
    s.frame_counter = frame_counter;
    s.flash = spec_flash_phase(frame_counter);
}

// ---- specification ------------------------------------------------------------------------------

fn any_machine() -> ZXMachine {
    if kani::any() {
        ZXMachine::Sinclair48K
    } else {
        ZXMachine::Sinclair128K
    }
}

fn spec_first_fetch(m: ZXMachine) -> usize {
    // first picture pixel at T 14336 / 14362 (C09 statement); the ULA has the byte a couple of T later
    match m {
        ZXMachine::Sinclair48K => 14336,
        ZXMachine::Sinclair128K => 14362,
    }
}
fn spec_line_t(m: ZXMachine) -> usize {
    match m {
        ZXMachine::Sinclair48K => 224,
        ZXMachine::Sinclair128K => 228,
    }
}
fn spec_frame_t(m: ZXMachine) -> usize {
    match m {
        ZXMachine::Sinclair48K => 69888,
        ZXMachine::Sinclair128K => 70908,
    }
}

/// FLASH phase during the frame rendered after `n` frame ends: toggles every 16 frames
fn spec_flash_phase(n: usize) -> bool {
    ((n + 15) / 16) % 2 == 1
}

/// standard decode of one pixel: (colour 0..7, bright 0/1)
pub(crate) fn spec_pixel(bitmap: u8, attr: u8, x: usize, flash_phase: bool) -> (u8, u8) {
    let set = (bitmap >> (7 - (x & 7))) & 1 == 1;
    let ink = attr & 7;
    let paper = (attr >> 3) & 7;
    let swap = attr & 0x80 != 0 && flash_phase;
    let colour = if set != swap { ink } else { paper };
    (colour, (attr >> 6) & 1)
}

fn witness_pixel() -> FbCtx {
    let wx: usize = kani::any();
    let wy: usize = kani::any();
    kani::assume(wx < CANVAS_WIDTH && wy < CANVAS_HEIGHT);
    FbCtx { wx, wy }
}

fn any_bank(m: ZXMachine) -> (usize, usize) {
    // (Spectrum RAM bank, local index)
    match m {
        ZXMachine::Sinclair48K => (0, 0),
        ZXMachine::Sinclair128K => {
            if kani::any() {
                (5, 0)
            } else {
                (7, 1)
            }
        }
    }
}

/// decode check for the cell (line `wy`, byte column `col`) - called with literal coordinates so that
/// every array index in the query is a constant; the pixel inside the cell stays symbolic
fn pixel_decode_case(m: ZXMachine, wy: usize, col: usize, back: usize) {
    let bit: usize = kani::any();
    kani::assume(bit < 8);
    let w = FbCtx { wx: col * 8 + bit, wy };
    let mut s = ZXScreen::<WitFb>::new(m, w);
    let (bank, local) = any_bank(m);
    s.switch_bank(bank);
    kani::assert(s.active_bank == local, "c08.decode.displayed_bank_selected");
    let n: usize = kani::any();
    kani::assume(n < 64);
    set_flash_phase(&mut s, n);
    let (bm, at): (u8, u8) = (kani::any(), kani::any());
    s.update(spec_bitmap_offset(wy, col) as u16, bank, bm);
    s.update(spec_attr_offset(wy, col) as u16, bank, at);
    // a bank that is not screen memory is ignored
    s.update(spec_bitmap_offset(wy, col) as u16, 2, kani::any());
    // the renderer has already done everything up to `back` cells before the witness cell (literal)
    s.last_blocks = BlocksCount::new(wy, col - back);
    // time at which the witness cell is the last one passed
    let t = m.specs().clocks_ula_read_origin + wy * m.specs().clocks_line + col * CLOCKS_PER_COL;
    s.process_clocks(t);
    let (colour, bright) = spec_pixel(bm, at, w.wx, spec_flash_phase(n));
    kani::assert(!s.back_buffer.oob, "c08.decode.inside_canvas");
    kani::assert(s.back_buffer.hits == 1, "c08.decode.pixel_painted_once");
    kani::assert(s.back_buffer.color == colour, "c08.decode.colour");
    kani::assert(s.back_buffer.bright == bright, "c08.decode.bright");
    kani::assert(s.buffer.hits == 0, "c08.decode.front_buffer_untouched_mid_frame");
    kani::cover!(at & 0x80 != 0 && spec_flash_phase(n) && colour == (at >> 3) & 7 && (at & 7) != (at >> 3) & 7 && (bm >> (7 - bit)) & 1 == 1, "flashing cell shows paper for a set pixel");
    kani::cover!(bit == 7, "last pixel of the cell");
}

// @harness
// @prop C08
// @tier quick
// @timeout 900
// @fn ZXScreen::update; ZXScreen::process_clocks; ZXScreen::local_bank; ZXScreen::switch_bank; BlocksCount::from_clocks; BlocksCount::passed_from; ZXAttribute::from_byte; ZXAttribute::active_color; ZXColor::from_bits; bitmap_line_rel; bitmap_col_rel; attr_row_rel; attr_col_rel
// @sym machine, displayed bank (5/7 on the 128K), witness cell from the class 48K:{(0,0), (100,17), (191,31)}, 128K:{(7,31), (64,5), (135,16)} x symbolic pixel within the cell, bitmap byte and attribute byte of the cell (written through the real update() at the statement's offsets), flash phase / frame number 0..63, render time; the other bank holds zeros (a decode from the wrong bank would show black)
// @assert when the beam passes the witness cell the pixel delivered to the frame buffer has the colour and brightness of the standard decode: bit 7-(x mod 8) of the bitmap byte selects ink/paper of the attribute at row y>>3, BRIGHT from bit 6, FLASH cells swap ink and paper in the flash phase, taken from the displayed bank only; painted exactly once
// @bound one process_clocks call rendering the 1..2 cells ending with the witness cell (unwind 10); cell coordinates from the class because symbolic indices into the display arrays did not finish in 15 min - the address-to-cell mapping for ALL cells is c08_update_stores_cell / c08_address_layout and the render order for all cells is c08_render_schedule
#[kani::proof]
#[kani::unwind(10)]
fn c08_pixel_decode() {
    // machine and cell are literals in every arm so that all clock arithmetic and array indices fold
    let sel: u8 = kani::any();
    kani::assume(sel < 6);
    match sel {
        0 => pixel_decode_case(ZXMachine::Sinclair48K, 0, 0, 0),
        1 => pixel_decode_case(ZXMachine::Sinclair48K, 100, 17, 1),
        2 => pixel_decode_case(ZXMachine::Sinclair48K, 191, 31, 0),
        3 => pixel_decode_case(ZXMachine::Sinclair128K, 7, 31, 2),
        4 => pixel_decode_case(ZXMachine::Sinclair128K, 64, 5, 0),
        _ => pixel_decode_case(ZXMachine::Sinclair128K, 135, 16, 1),
    }
}

// @harness
// @prop C15
// @tier quick
// @timeout 900
// @fn ZXScreen::process_clocks; BlocksCount::from_clocks; BlocksCount::passed_from
// @sym machine; the frame time the renderer had reached (any in-frame T); the frame time it is handed next: ANY earlier time (an SZX Z80R chunk loaded after a mid-frame stop moves the frame clock backwards), the same time, or up to 16 T later
// @assert emulating on after a load that moved the frame clock cannot panic in the renderer: no arithmetic overflow, no index out of range; nothing is painted outside the canvas and the recorded position stays inside it (was a genuine defect: `columns - prev.columns` underflowed on a rewind within one scan line)
// @bound forward steps of at most 16 T (render loop of at most 5 cells; unwind 12); backward steps of any size
#[kani::proof]
#[kani::unwind(12)]
fn c15_renderer_total_when_the_frame_clock_moves_backwards() {
    let m = any_machine();
    let mut s = ZXScreen::<WitFb>::new(m, witness_pixel());
    let f = spec_frame_t(m);
    let t0: usize = kani::any();
    let t1: usize = kani::any();
    kani::assume(t0 < f + 40 && t1 <= t0 + 16);
    s.last_blocks = BlocksCount::from_clocks(t0, m);
    s.process_clocks(t1);
    kani::assert(!s.back_buffer.oob, "c15.renderer.inside_canvas");
    kani::assert(s.last_blocks.lines <= CANVAS_HEIGHT && s.last_blocks.columns <= ATTR_COLS, "c15.renderer.position_inside_canvas");
    let b0 = BlocksCount::from_clocks(t0, m);
    let b1 = BlocksCount::from_clocks(t1, m);
    kani::cover!(t1 < t0 && b0.lines == b1.lines && b1.columns < b0.columns, "clock moved backwards within one scan line");
    kani::cover!(t1 < t0 && b1.lines < b0.lines, "clock moved backwards to an earlier line");
    kani::cover!(t1 > t0 && s.back_buffer.hits > 0, "ordinary forward step");
}

// @harness
// @prop C08
// @tier quick
// @timeout 900
// @fn BlocksCount::from_clocks; BlocksCount::passed_from; ZXScreen::process_clocks
// @sym machine, two frame times t0 <= t1 <= frame+40 with t1 - t0 <= 32, witness pixel, a symbolic cell (line, column)
// @assert render schedule (inductive): starting with everything before t0 rendered, process_clocks(t1) paints exactly the cells the beam passed in (t0, t1], each once, and records t1's position; a cell is rendered no earlier than 8 T before and no later than 8 T after the beam reaches it (first pixel T 14336/14362 + 224/228 per line + 4 per cell); at the frame end all 6144 cells are rendered
// @bound steps of at most 32 T (the machine advances at most ~8 T per bus primitive; unwind 12 cells x 8 pixels)
#[kani::proof]
#[kani::unwind(12)]
fn c08_render_schedule() {
    let m = any_machine();
    let w = witness_pixel();
    let mut s = ZXScreen::<WitFb>::new(m, w);
    let f = spec_frame_t(m);
    let t0: usize = kani::any();
    let t1: usize = kani::any();
    kani::assume(t0 <= t1 && t1 <= f + 40 && t1 - t0 <= 32);
    let b0 = BlocksCount::from_clocks(t0, m);
    let b1 = BlocksCount::from_clocks(t1, m);
    let i0 = b0.lines * ATTR_COLS + b0.columns;
    let i1 = b1.lines * ATTR_COLS + b1.columns;
    kani::assert(i0 <= i1 && i1 <= ATTR_COLS * CANVAS_HEIGHT, "c08.schedule.monotone_and_bounded");
    // beam-relative placement of a symbolic cell
    let (l, c): (usize, usize) = (kani::any(), kani::any());
    kani::assume(l < CANVAS_HEIGHT && c < ATTR_COLS);
    let reach = spec_first_fetch(m) + l * spec_line_t(m) + c * 4;
    let idx = l * ATTR_COLS + c;
    if t1 >= reach + 8 {
        kani::assert(idx < i1, "c08.schedule.cell_rendered_once_beam_is_clearly_past");
    }
    if t1 + 8 <= reach {
        kani::assert(idx >= i1, "c08.schedule.cell_not_rendered_while_beam_is_clearly_before");
    }
    if t1 >= f {
        kani::assert(i1 == ATTR_COLS * CANVAS_HEIGHT, "c08.schedule.whole_picture_done_at_frame_end");
    }
    s.last_blocks = BlocksCount::from_clocks(t0, m);
    s.process_clocks(t1);
    let widx = w.wy * ATTR_COLS + (w.wx >> 3);
    let expected_hit = i0 <= widx && widx < i1;
    kani::assert(s.back_buffer.hits == if expected_hit { 1 } else { 0 }, "c08.schedule.exactly_the_passed_cells_painted");
    kani::assert(!s.back_buffer.oob, "c08.schedule.inside_canvas");
    let after = s.last_blocks.lines * ATTR_COLS + s.last_blocks.columns;
    kani::assert(after == i1 || (i1 == i0 && after == i0), "c08.schedule.position_recorded");
    kani::cover!(expected_hit && i1 - i0 >= 8, "eight cells in one step, witness among them");
    kani::cover!(t1 >= f && i1 == ATTR_COLS * CANVAS_HEIGHT, "frame end: everything rendered");
    kani::cover!(b0.lines + 1 == b1.lines && expected_hit, "step across a line end");
}

// @harness
// @prop C08
// @tier quick
// @timeout 600
// @fn ZXScreen::new_frame; ZXScreen::switch_flash; ZXScreen::frame_buffer
// @sym number of frames already shown (any < 2^62), buffer contents via the witness recorders
// @assert a frame end delivers the buffer that was being rendered (front/back swap), restarts rendering at the first cell, and the FLASH phase flips exactly every 16 frames (phase of frame n = ((n+15)/16) odd), inductively for any number of frames
// @bound one frame end from an arbitrary frame number
#[kani::proof]
#[kani::unwind(12)]
fn c08_frame_end_and_flash() {
    let m = any_machine();
    let mut s = ZXScreen::<WitFb>::new(m, FbCtx { wx: 3, wy: 5 });
    kani::assert(s.flash == spec_flash_phase(0) && s.frame_counter == 0, "c08.flash.initial_phase");
    let n: usize = kani::any();
    // any number of frames a machine can have shown (2^62 frames are 10^9 centuries)
    kani::assume(n < (1usize << 62));
    set_flash_phase(&mut s, n);
    let hits: u32 = kani::any();
    kani::assume(hits < 100);
    s.back_buffer.hits = hits;
    s.back_buffer.color = 6;
    s.buffer.hits = 0;
    s.last_blocks = BlocksCount::new(192, 0);
    s.new_frame();
    kani::assert(s.frame_buffer().hits == hits && s.frame_buffer().color == 6, "c08.frame.rendered_buffer_is_delivered");
    kani::assert(s.back_buffer.hits == 0, "c08.frame.buffers_swapped");
    kani::assert(s.last_blocks == BlocksCount::new(0, 0), "c08.frame.render_restarts");
    kani::assert(s.frame_counter == n + 1 && s.flash == spec_flash_phase(n + 1), "c08.flash.toggles_every_16_frames");
    kani::cover!(n % 16 == 0 && n > 0, "toggle frame");
    kani::cover!(n % 16 == 5, "non-toggle frame");
    kani::cover!(n == 65534, "frame 65534 (16-bit boundary of the counter)");
}

// @harness
// @prop C08
// @tier quick
// @timeout 600
// @fn ZXScreen::update
// @sym machine, target bank (any 0..7), relative address (any 16-bit), data, a second symbolic cell
// @assert update() stores the byte in the screen's copy of the display file at exactly the cell the statement's offset formula names (bitmap) or the attribute cell (decoded ink/paper/bright/flash re-encode to the byte), only for banks the ULA can display (48K RAM at 0x4000; 128K banks 5 and 7); every other cell, every other bank and addresses beyond 0x1AFF are left alone
// @bound one update with symbolic address
#[kani::proof]
fn c08_update_stores_cell() {
    let m = any_machine();
    let mut s = ZXScreen::<WitFb>::new(m, FbCtx { wx: 0, wy: 0 });
    let bank: usize = kani::any();
    kani::assume(bank < 8);
    let rel: u16 = kani::any();
    kani::assume(rel < 0x4000);
    let d: u8 = kani::any();
    kani::assume(d != 0);
    s.update(rel, bank, d);
    let local = match (m, bank) {
        (ZXMachine::Sinclair48K, 0) => Some(0),
        (ZXMachine::Sinclair128K, 5) => Some(0),
        (ZXMachine::Sinclair128K, 7) => Some(1),
        _ => None,
    };
    // a symbolic probe cell in a symbolic local bank
    let (pl, py, pc): (usize, usize, usize) = (kani::any(), kani::any(), kani::any());
    kani::assume(pl < 2 && py < 192 && pc < 32);
    let hit_bitmap = local == Some(pl) && (rel as usize) == spec_bitmap_offset(py, pc);
    let hit_attr = local == Some(pl) && (rel as usize) == spec_attr_offset(py, pc);
    kani::assert(shadow_bitmap(&s, pl, py, pc) == if hit_bitmap { d } else { 0 }, "c08.update.bitmap_cell");
    kani::assert(shadow_attr(&s, pl, py >> 3, pc) == if hit_attr { d } else { 0 }, "c08.update.attribute_cell");
    kani::cover!(hit_bitmap && pl == 1, "bank 7 bitmap cell");
    kani::cover!(hit_attr && d == 0xC7, "attribute with flash and bright");
    kani::cover!(local.is_none() && bank == 2, "non-screen bank ignored");
    kani::cover!(rel >= 0x1B00 && local.is_some(), "beyond the attributes");
}
