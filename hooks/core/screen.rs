//! Kani harnesses compiled as a child module of rustzx-core/src/zx/video/screen.rs (cfg(kani) only).
