//! Kani harnesses compiled as a child module of rustzx-core/src/zx/keys.rs (cfg(kani) only).
//! Property C17: input ports reflect exactly the controls held, for every event history.
//! Method: abstraction function alpha from "sets of held controls" to the controller's matrices;
//! one symbolic event from an arbitrary alpha-consistent state must give alpha(H xor e) (inductive).
#![allow(dead_code)]
use super::*;
use crate::verif_hooks::FbCtx;
use crate::zx::controller::verif_hooks as ch;
use crate::zx::joy::kempston::KempstonKey;
use crate::zx::joy::sinclair::{SinclairJoyNum, SinclairKey};
use crate::zx::machine::ZXMachine;
use crate::zx::mouse::kempston::{KempstonMouseButton, KempstonMouseWheelDirection};

/// The 40 keys in Spectrum matrix order: index = 5*row + bit, rows FEFE, FDFE, FBFE, F7FE, EFFE, DFFE, BFFE, 7FFE
/// (CAPS SHIFT Z X C V / A S D F G / Q W E R T / 1 2 3 4 5 / 0 9 8 7 6 / P O I U Y / ENTER L K J H / SPACE SYM M N B)
pub(crate) fn key_from_index(i: u8) -> ZXKey {
    use ZXKey::*;
    match i {
        0 => Shift, 1 => Z, 2 => X, 3 => C, 4 => V,
        5 => A, 6 => S, 7 => D, 8 => F, 9 => G,
        10 => Q, 11 => W, 12 => E, 13 => R, 14 => T,
        15 => N1, 16 => N2, 17 => N3, 18 => N4, 19 => N5,
        20 => N0, 21 => N9, 22 => N8, 23 => N7, 24 => N6,
        25 => P, 26 => O, 27 => I, 28 => U, 29 => Y,
        30 => Enter, 31 => L, 32 => K, 33 => J, 34 => H,
        35 => Space, 36 => SymShift, 37 => M, 38 => N,
        _ => B,
    }
}

/// digit key n -> matrix index
fn digit_index(n: u8) -> u8 {
    match n {
        1 => 15, 2 => 16, 3 => 17, 4 => 18, 5 => 19,
        0 => 20, 9 => 21, 8 => 22, 7 => 23, _ => 24, // 6
    }
}

fn compound_from_index(i: u8) -> CompoundKey {
    match i {
        0 => CompoundKey::ArrowLeft,
        1 => CompoundKey::ArrowRight,
        2 => CompoundKey::ArrowUp,
        3 => CompoundKey::ArrowDown,
        4 => CompoundKey::CapsLock,
        5 => CompoundKey::Delete,
        _ => CompoundKey::Break,
    }
}

/// Spectrum convention: cursor keys are CAPS SHIFT + 5/8/7/6, CAPS LOCK = CS+2, DELETE = CS+0, BREAK = CS+SPACE
fn compound_primary_index(i: u8) -> u8 {
    match i {
        0 => digit_index(5),
        1 => digit_index(8),
        2 => digit_index(7),
        3 => digit_index(6),
        4 => digit_index(2),
        5 => digit_index(0),
        _ => 35,
    }
}

/// alpha for one matrix: bit clear where held
fn alpha_rows(held: &[u8; 8]) -> [u8; 8] {
    let mut out = [0xFFu8; 8];
    let mut r = 0;
    while r < 8 {
        out[r] = 0xFF & !(held[r] & 0x1F);
        r += 1;
    }
    out
}

fn any_held() -> [u8; 8] {
    let mut h = [0u8; 8];
    let mut r = 0;
    while r < 8 {
        let v: u8 = kani::any();
        h[r] = v & 0x1F;
        r += 1;
    }
    h
}

fn rows_eq(a: &[u8; 8], b: &[u8; 8]) -> bool {
    let mut ok = true;
    let mut r = 0;
    while r < 8 {
        ok &= a[r] == b[r];
        r += 1;
    }
    ok
}

// @harness
// @prop C17
// @tier quick
// @timeout 600
// @fn ZXController::send_key; ZXKey::row_id; ZXKey::mask; ZXKey::half_port; ZXController::new (initial state)
// @sym set of held keys (40 bits), one press/release event on any of the 40 keys, held sets of the two other sources
// @assert the plain-key matrix after the event is alpha(held xor event): bit (row,bit) of the Spectrum layout is 0 exactly for held keys, bits 5-7 stay 1; the compound and Sinclair matrices are untouched; a fresh controller is alpha(empty)
// @bound one event from an arbitrary consistent state (inductive over histories)
#[kani::proof]
#[kani::unwind(9)]
fn c17_plain_key_event() {
    let mut c = ch::mk_controller(ZXMachine::Sinclair48K, FbCtx { wx: 0, wy: 0 }, false, false);
    let empty = [0u8; 8];
    kani::assert(rows_eq(&c.keyboard, &alpha_rows(&empty)) && rows_eq(&c.keyboard_extended, &alpha_rows(&empty)) && rows_eq(&c.keyboard_sinclair, &alpha_rows(&empty)) && c.caps_shift_modifier_mask == 0, "c17.init.nothing_held");
    let mut held = any_held();
    let other1 = alpha_rows(&any_held());
    let other2 = alpha_rows(&any_held());
    c.keyboard = alpha_rows(&held);
    c.keyboard_extended = other1;
    c.keyboard_sinclair = other2;
    let k: u8 = kani::any();
    kani::assume(k < 40);
    let pressed: bool = kani::any();
    c.send_key(key_from_index(k), pressed);
    let (row, bit) = ((k / 5) as usize, k % 5);
    if pressed {
        held[row] |= 1 << bit;
    } else {
        held[row] &= !(1 << bit);
    }
    kani::assert(rows_eq(&c.keyboard, &alpha_rows(&held)), "c17.key.matrix_is_alpha_of_held_set");
    kani::assert(rows_eq(&c.keyboard_extended, &other1) && rows_eq(&c.keyboard_sinclair, &other2), "c17.key.other_sources_untouched");
    kani::cover!(pressed && k == 39, "press B");
    kani::cover!(!pressed && k == 0 && held[0] != 0, "release CAPS SHIFT while others in the row stay held");
}

fn alpha_compound(hc: u8) -> [u8; 8] {
    let mut held = [0u8; 8];
    let mut i = 0u8;
    while i < 7 {
        if hc & (1 << i) != 0 {
            let p = compound_primary_index(i);
            held[(p / 5) as usize] |= 1 << (p % 5);
        }
        i += 1;
    }
    if hc != 0 {
        held[0] |= 1; // CAPS SHIFT
    }
    alpha_rows(&held)
}

// @harness
// @prop C17
// @tier quick
// @timeout 600
// @fn ZXController::send_compound_key; CompoundKey::modifier_mask; CompoundKey::modifier_key; CompoundKey::primary_key
// @sym set of held compound keys (7 bits), one press/release event on any compound key, other sources
// @assert the compound matrix after the event holds CAPS SHIFT plus the primary key of every held compound key (cursor = CS+5/8/7/6, CAPS LOCK = CS+2, DELETE = CS+0, BREAK = CS+SPACE); CAPS SHIFT is released only with the last held compound key; other sources untouched
// @bound one event from an arbitrary consistent state (inductive)
#[kani::proof]
#[kani::unwind(9)]
fn c17_compound_key_event() {
    let mut c = ch::mk_controller(ZXMachine::Sinclair48K, FbCtx { wx: 0, wy: 0 }, false, false);
    let mut hc: u8 = kani::any();
    kani::assume(hc < 0x80);
    let other1 = alpha_rows(&any_held());
    let other2 = alpha_rows(&any_held());
    c.keyboard = other1;
    c.keyboard_sinclair = other2;
    c.keyboard_extended = alpha_compound(hc);
    c.caps_shift_modifier_mask = hc as u32;
    let k: u8 = kani::any();
    kani::assume(k < 7);
    let pressed: bool = kani::any();
    c.send_compound_key(compound_from_index(k), pressed);
    if pressed {
        hc |= 1 << k;
    } else {
        hc &= !(1 << k);
    }
    kani::assert(rows_eq(&c.keyboard_extended, &alpha_compound(hc)), "c17.compound.matrix_is_alpha_of_held_set");
    kani::assert(c.caps_shift_modifier_mask == hc as u32, "c17.compound.modifier_bookkeeping");
    kani::assert(rows_eq(&c.keyboard, &other1) && rows_eq(&c.keyboard_sinclair, &other2), "c17.compound.other_sources_untouched");
    kani::cover!(!pressed && hc != 0, "release one compound key while another keeps CAPS SHIFT down");
    kani::cover!(!pressed && hc == 0, "release the last compound key");
    kani::cover!(pressed && k == 6, "BREAK");
}

/// Sinclair control index: 0..4 = joystick 1 left,right,up,down,fire; 5..9 = joystick 2
fn sinclair_from_index(i: u8) -> (SinclairJoyNum, SinclairKey) {
    let num = if i < 5 { SinclairJoyNum::Fist } else { SinclairJoyNum::Second };
    let key = match i % 5 {
        0 => SinclairKey::Left,
        1 => SinclairKey::Right,
        2 => SinclairKey::Up,
        3 => SinclairKey::Down,
        _ => SinclairKey::Fire,
    };
    (num, key)
}

/// statement: joystick 1 is keys 6,7,8,9,0 and joystick 2 keys 1,2,3,4,5 for left,right,down,up,fire
fn sinclair_key_index(i: u8) -> u8 {
    match i {
        0 => digit_index(6),
        1 => digit_index(7),
        2 => digit_index(9), // up
        3 => digit_index(8), // down
        4 => digit_index(0),
        5 => digit_index(1),
        6 => digit_index(2),
        7 => digit_index(4), // up
        8 => digit_index(3), // down
        _ => digit_index(5),
    }
}

fn alpha_sinclair(hs: u16) -> [u8; 8] {
    let mut held = [0u8; 8];
    let mut i = 0u8;
    while i < 10 {
        if hs & (1 << i) != 0 {
            let p = sinclair_key_index(i);
            held[(p / 5) as usize] |= 1 << (p % 5);
        }
        i += 1;
    }
    alpha_rows(&held)
}

const SINCLAIR2_DOWN: u8 = 8;

fn sinclair_step(exclude_known: bool, only_known: bool) {
    let mut c = ch::mk_controller(ZXMachine::Sinclair48K, FbCtx { wx: 0, wy: 0 }, false, false);
    let mut hs: u16 = kani::any();
    kani::assume(hs < 0x400);
    let k: u8 = kani::any();
    kani::assume(k < 10);
    if exclude_known {
        // KF-C17-1: joystick 2 "down" is wired to key 2 instead of key 3
        kani::assume(k != SINCLAIR2_DOWN && hs & (1 << SINCLAIR2_DOWN) == 0);
    }
    if only_known {
        kani::assume(k == SINCLAIR2_DOWN || hs & (1 << SINCLAIR2_DOWN) != 0);
    }
    let other1 = alpha_rows(&any_held());
    let other2 = alpha_rows(&any_held());
    c.keyboard = other1;
    c.keyboard_extended = other2;
    c.keyboard_sinclair = alpha_sinclair(hs);
    let pressed: bool = kani::any();
    let (num, key) = sinclair_from_index(k);
    c.send_sinclair_key(num, key, pressed);
    if pressed {
        hs |= 1 << k;
    } else {
        hs &= !(1 << k);
    }
    kani::assert(rows_eq(&c.keyboard_sinclair, &alpha_sinclair(hs)), "c17.sinclair.matrix_is_alpha_of_held_set");
    kani::assert(rows_eq(&c.keyboard, &other1) && rows_eq(&c.keyboard_extended, &other2), "c17.sinclair.other_sources_untouched");
    kani::cover!(pressed && k == 9, "joystick 2 fire");
    kani::cover!(!pressed && hs != 0, "release one control while others stay held");
}

// @harness
// @prop C17
// @tier quick
// @timeout 600
// @fn ZXController::send_sinclair_key; sinclair_event_to_zx_key
// @sym set of held Sinclair controls (10 bits), one press/release event, other sources
// @assert Sinclair joystick 1 is keys 6,7,8,9,0 and joystick 2 keys 1,2,3,4,5 for left,right,down,up,fire; after the event the Sinclair matrix is alpha(held xor event); a release never releases a key another control still holds; other sources untouched
// @assume joystick-2 "down" neither held nor the event (known finding KF-C17-1, witnessed by c17_sinclair_joy2_down_known)
// @bound one event from an arbitrary consistent state (inductive)
#[kani::proof]
#[kani::unwind(11)]
fn c17_sinclair_event() {
    sinclair_step(true, false);
}

// @harness
// @prop C17
// @tier quick
// @expect known:KF-C17-1
// @timeout 600
// @fn ZXController::send_sinclair_key; sinclair_event_to_zx_key
// @sym as c17_sinclair_event, restricted to states/events involving joystick-2 "down"
// @assert as c17_sinclair_event
// @bound witness of the known finding: expected to FAIL while the defect is present
#[kani::proof]
#[kani::unwind(11)]
fn c17_sinclair_joy2_down_known() {
    sinclair_step(false, true);
}

fn kempston_from_index(i: u8) -> (KempstonKey, u8) {
    match i {
        0 => (KempstonKey::Right, 0x01),
        1 => (KempstonKey::Left, 0x02),
        2 => (KempstonKey::Down, 0x04),
        3 => (KempstonKey::Up, 0x08),
        4 => (KempstonKey::Fire, 0x10),
        5 => (KempstonKey::Ext1, 0x20),
        6 => (KempstonKey::Ext2, 0x40),
        _ => (KempstonKey::Ext3, 0x80),
    }
}

// @harness
// @prop C17
// @tier quick
// @timeout 600
// @fn Emulator::send_kempston_key; KempstonJoy::key; KempstonJoy::read; Emulator::send_mouse_button; Emulator::send_mouse_wheel; Emulator::send_mouse_pos_diff; KempstonMouse::send_button; KempstonMouse::send_wheel; KempstonMouse::send_pos_diff
// @sym held Kempston bits, one joystick event; mouse port bytes, one button event, one wheel event, one motion event with arbitrary i8 deltas
// @assert the Kempston port is the OR of held right/left/down/up/fire/extra bits (0x01,0x02,0x04,0x08,0x10,0x20..0x80); mouse buttons are active-low in bits 0-3 (left,right,middle,additional), the wheel is a 4-bit counter in bits 4-7 stepping +-1 mod 16, X adds the horizontal and Y subtracts the vertical delta modulo 256; each event leaves the other fields alone
// @bound one event of each kind from an arbitrary state (inductive)
#[kani::proof]
fn c17_kempston_joystick_and_mouse_events() {
    let mut s = crate::emulator::verif_hooks::mk_settings(ZXMachine::Sinclair48K);
    s.kempston_enabled = true;
    s.mouse_enabled = true;
    let mut e = crate::emulator::verif_hooks::mk_emulator_with(s, FbCtx { wx: 0, wy: 0 });
    {
        let c = crate::emulator::verif_hooks::controller(&mut e);
        kani::assert(c.kempston.as_ref().unwrap().read() == 0, "c17.init.joystick_idle");
        let ms = c.mouse.as_ref().unwrap();
        kani::assert(ms.buttons_port & 0x0F == 0x0F, "c17.init.mouse_buttons_released");
    }
    // joystick
    let mut held: u8 = kani::any();
    {
        let c = crate::emulator::verif_hooks::controller(&mut e);
        crate::zx::joy::kempston::verif_hooks::set_state(c.kempston.as_mut().unwrap(), held);
    }
    let k: u8 = kani::any();
    kani::assume(k < 8);
    let pressed: bool = kani::any();
    let (key, bit) = kempston_from_index(k);
    e.send_kempston_key(key, pressed);
    if pressed {
        held |= bit;
    } else {
        held &= !bit;
    }
    let (b0, x0, y0): (u8, u8, u8) = (kani::any(), kani::any(), kani::any());
    {
        let c = crate::emulator::verif_hooks::controller(&mut e);
        kani::assert(c.kempston.as_ref().unwrap().read() == held, "c17.kempston.port_is_or_of_held_bits");
        let ms = c.mouse.as_mut().unwrap();
        ms.buttons_port = b0;
        ms.x_pos_port = x0;
        ms.y_pos_port = y0;
    }
    // mouse button
    let bsel: u8 = kani::any();
    kani::assume(bsel < 4);
    let (button, bbit) = match bsel {
        0 => (KempstonMouseButton::Left, 0x01u8),
        1 => (KempstonMouseButton::Right, 0x02),
        2 => (KempstonMouseButton::Middle, 0x04),
        _ => (KempstonMouseButton::Additional, 0x08),
    };
    let bpressed: bool = kani::any();
    e.send_mouse_button(button, bpressed);
    let b1 = if bpressed { b0 & !bbit } else { b0 | bbit };
    {
        let ms = crate::emulator::verif_hooks::controller(&mut e).mouse.as_ref().unwrap();
        kani::assert(ms.buttons_port == b1 && ms.x_pos_port == x0 && ms.y_pos_port == y0, "c17.mouse.button_active_low");
    }
    // wheel
    let up: bool = kani::any();
    e.send_mouse_wheel(if up { KempstonMouseWheelDirection::Up } else { KempstonMouseWheelDirection::Down });
    let w = (b1 >> 4).wrapping_add(if up { 1 } else { 15 }) & 0x0F;
    let b2 = (b1 & 0x0F) | (w << 4);
    {
        let ms = crate::emulator::verif_hooks::controller(&mut e).mouse.as_ref().unwrap();
        kani::assert(ms.buttons_port == b2 && ms.x_pos_port == x0 && ms.y_pos_port == y0, "c17.mouse.wheel_4bit_counter");
    }
    // motion
    let (dx, dy): (i8, i8) = (kani::any(), kani::any());
    e.send_mouse_pos_diff(dx, dy);
    {
        let ms = crate::emulator::verif_hooks::controller(&mut e).mouse.as_ref().unwrap();
        kani::assert(ms.x_pos_port == x0.wrapping_add(dx as u8), "c17.mouse.x_adds_delta_mod_256");
        kani::assert(ms.y_pos_port == y0.wrapping_sub(dy as u8), "c17.mouse.y_subtracts_delta_mod_256");
        kani::assert(ms.buttons_port == b2, "c17.mouse.motion_leaves_buttons");
    }
    kani::cover!(dx == -128 && dy == -128 && x0 == 5, "extreme deltas");
    kani::cover!(up && b1 >> 4 == 15, "wheel wraps upward");
    kani::cover!(!pressed && held != 0, "joystick release keeps other bits");
}
