//! Kani harnesses compiled as a child module of rustzx-core/src/zx/keys.rs (cfg(kani) only).
