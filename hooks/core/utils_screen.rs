//! Kani harnesses compiled as a child module of rustzx-core/src/utils/screen.rs (cfg(kani) only).
