//! Kani harnesses compiled as a child module of rustzx-core/src/utils/screen.rs (cfg(kani) only).
#![allow(dead_code)]
use super::*;

/// C08 statement: display-file offset of the byte holding pixel (x, y)
pub(crate) fn spec_bitmap_offset(y: usize, col: usize) -> usize {
    ((y & 0xC0) << 5) | ((y & 7) << 8) | ((y & 0x38) << 2) | col
}

/// C08 statement: attribute offset for pixel (x, y)
pub(crate) fn spec_attr_offset(y: usize, col: usize) -> usize {
    0x1800 + (y >> 3) * 32 + col
}

// @harness
// @prop C08
// @tier quick
// @timeout 300
// @fn bitmap_line_addr; bitmap_line_rel; bitmap_col_rel; attr_row_rel; attr_col_rel
// @sym pixel row y < 192, byte column < 32
// @assert the address helpers are the inverse of the standard Spectrum screen layout: offset ((y&0xC0)<<5)|((y&7)<<8)|((y&0x38)<<2)|(x>>3) decodes to (y, column); attribute offset 0x1800+(y>>3)*32+(x>>3) decodes to (y>>3, column); line address = 0x4000 + offset of column 0; every display-file offset below 0x1800 decodes to a unique (line, column)
// @bound all 6144 + 768 cells (symbolic, no loops)
#[kani::proof]
fn c08_address_layout() {
    let y: usize = kani::any();
    let col: usize = kani::any();
    kani::assume(y < 192 && col < 32);
    let off = spec_bitmap_offset(y, col);
    kani::assert(off < 0x1800, "c08.layout.offset_in_bitmap");
    kani::assert(bitmap_line_rel(off as u16) == y, "c08.layout.bitmap_line");
    kani::assert(bitmap_col_rel(off as u16) == col, "c08.layout.bitmap_col");
    kani::assert(bitmap_line_addr(y) as usize == 0x4000 + spec_bitmap_offset(y, 0), "c08.layout.line_address");
    let aoff = spec_attr_offset(y, col);
    kani::assert(aoff >= 0x1800 && aoff <= 0x1AFF, "c08.layout.offset_in_attributes");
    kani::assert(attr_row_rel(aoff as u16) == y >> 3, "c08.layout.attr_row");
    kani::assert(attr_col_rel(aoff as u16) == col, "c08.layout.attr_col");
    // surjectivity: every offset is the offset of the cell it decodes to
    let any_off: u16 = kani::any();
    kani::assume(any_off < 0x1800);
    kani::assert(spec_bitmap_offset(bitmap_line_rel(any_off), bitmap_col_rel(any_off)) == any_off as usize, "c08.layout.bijective");
    kani::cover!(y == 191 && col == 31, "last cell");
    kani::cover!(y == 64 && off == 0x0800, "second third");
}
