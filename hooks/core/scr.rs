//! Kani-only child module of rustzx-core/src/emulator/screenshot/scr.rs (cfg(kani)).
//! C14 (a 6912-byte SCR puts exactly its bytes on the screen), C15 (scr::load is total).
#![allow(dead_code)]
use super::*;
use crate::{
    emulator::{
        snapshot::sna::verif_hooks::{noop_refresh, noop_screen_clocks, Fault, SparseAsset, CTX, FAULT_NONE, NO_WITNESS},
        verif_hooks::{controller, cpu, mk_emulator},
    },
    verif_hooks::VHost,
    zx::{
        controller::{verif_hooks as ch, ZXController},
        machine::ZXMachine,
        video::screen::ZXScreen,
    },
};

// SCR format (public description): exactly 6912 bytes = the 6144 bitmap bytes followed by the 768
// attribute bytes of the primary screen, i.e. the memory image of 0x4000..0x5AFF.
const SPEC_SCR_LEN: usize = 6912;

fn dirty_receiver(machine: ZXMachine, latch0: u8) -> Emulator<VHost> {
    let mut e = mk_emulator(machine, CTX);
    let c = cpu(&mut e);
    c.regs.set_pc(kani::any());
    c.regs.set_sp(kani::any());
    c.regs.set_hl(kani::any());
    c.regs.set_iff1(kani::any());
    if machine == ZXMachine::Sinclair128K {
        controller(&mut e).write_7ffd(latch0);
    }
    e
}

/// loads an SCR whose first 27 bytes and the byte at `w` are symbolic into a dirty receiver
fn c14_scr_body(machine: ZXMachine, latch0: u8, w: usize) {
    let head: [u8; 27] = kani::any();
    let wv: u8 = kani::any();
    let asset = SparseAsset::new(SPEC_SCR_LEN, head, [0; 4], w, wv);
    let mut e = dirty_receiver(machine, latch0);
    let r = load(&mut e, asset);
    kani::assert(r.is_ok(), "c14.scr.accepted");
    kani::assert(e.peek((0x4000 + w) as u16) == wv, "c14.scr.screen_byte_witness");
    let mut i = 0;
    while i < 27 {
        kani::assert(e.peek(0x4000 + i as u16) == head[i], "c14.scr.first_bytes");
        i += 1;
    }
    if machine == ZXMachine::Sinclair128K {
        // the picture must be in the bank the ULA is displaying
        let shown = ch::screen_bank(controller(&mut e));
        kani::assert(controller(&mut e).memory.get_page(0x4000) == crate::zx::memory::Page::Ram(shown), "c14.scr.loaded_into_displayed_bank");
    }
}

// @harness
// @prop C14
// @tier quick
// @timeout 600
// @fn scr::load; CodeGenerator::jump; LoadableAsset::read_exact; ZXMemory::ram_page_data_mut
// @sym first 27 file bytes, witness file byte (offsets 27, 0x17FF, 0x1800, 0x1AFF enumerated), receiver PC/SP/HL/IFF1; 48K and 128K (7FFD 0x00, 0x13, 0x07 with normal screen)
// @assert load returns Ok; every kept file byte is the byte the CPU (and the ULA: bank at 0x4000 is the displayed bank) sees at 0x4000 + offset
// @bound one load per configuration
// @stub ZXController::refresh_memory_dependent_devices -> no-op; ZXScreen::process_clocks -> no-op (the decode of screen bytes to pixels is C08)
// @assume 128K receiver shows the normal screen (7FFD bit 3 clear)
// @outside file offsets outside the witness class (one slice copy); what the parked CPU does afterwards (the format does not describe CPU state); load_screen while the 128K shadow screen (bank 7) is displayed: an SCR file describes the primary screen at 0x4000, which is where it is loaded - the picture is then not the one on display (lead's ruling: outside the statement, formerly KF-C14-7)
// @replay solver-only
#[kani::proof]
#[kani::unwind(29)]
#[kani::stub(ZXController::refresh_memory_dependent_devices, noop_refresh)]
#[kani::stub(ZXScreen::process_clocks, noop_screen_clocks)]
fn c14_scr_load_shows_file_bytes() {
    c14_scr_body(ZXMachine::Sinclair48K, 0, 27);
    c14_scr_body(ZXMachine::Sinclair48K, 0, 0x1AFF);
    c14_scr_body(ZXMachine::Sinclair128K, 0x00, 0x17FF);
    c14_scr_body(ZXMachine::Sinclair128K, 0x13, 0x1800);
    c14_scr_body(ZXMachine::Sinclair128K, 0x27, 0x1AFF);
    kani::cover!(true, "five configurations done");
}

// @harness
// @prop C14
// @tier quick
// @timeout 600
// @fn scr::load; Z80::reset_control_state; Z80::emulate (to create and observe a pending prefix)
// @sym file bytes; receiver halted, EI pending, between DD and its opcode
// @assert after load_screen the CPU is not left in the halted / EI-pending / mid-prefix state of the program that ran before, and is parked at the loop the loader wrote (PC = 0x8000 holding JP 0x8000) (was KF-C14-1)
// @bound one load, 48K
// @stub refresh -> no-op; ZXScreen::process_clocks -> no-op
// @replay solver-only
#[kani::proof]
#[kani::unwind(29)]
#[kani::stub(ZXController::refresh_memory_dependent_devices, noop_refresh)]
#[kani::stub(ZXScreen::process_clocks, noop_screen_clocks)]
fn c14_scr_into_busy_cpu() {
    let asset = SparseAsset::new(SPEC_SCR_LEN, kani::any(), [0; 4], NO_WITNESS, 0);
    let mut e = dirty_receiver(ZXMachine::Sinclair48K, 0);
    if kani::any() {
        crate::emulator::snapshot::sna::verif_hooks::seed_pending_dd_prefix(cpu(&mut e));
    }
    cpu(&mut e).halted = kani::any();
    cpu(&mut e).skip_interrupt = kani::any();
    let r = load(&mut e, asset);
    kani::assert(r.is_ok(), "c14.scr.accepted");
    kani::assert(!cpu(&mut e).halted, "c14.scr.not_halted_after_load");
    kani::assert(!cpu(&mut e).skip_interrupt, "c14.scr.no_ei_pending_after_load");
    kani::assert(cpu(&mut e).regs.get_pc() == 0x8000 && e.peek(0x8000) == 0xC3 && e.peek(0x8001) == 0x00 && e.peek(0x8002) == 0x80, "c14.scr.cpu_parked");
    kani::assert(!crate::emulator::snapshot::sna::verif_hooks::has_pending_prefix(cpu(&mut e)), "c14.scr.no_prefix_pending_after_load");
    kani::cover!(true, "reached");
}

// @harness
// @prop C15
// @tier quick
// @timeout 600
// @fn scr::load; LoadableAsset::read_exact; CodeGenerator::jump
// @sym first 27 file bytes, receiver registers; sizes 0, 1, 6911, 6913, 49179 and 6912 with Err at asset call 0, 1, 2, a 1-byte short read and a premature Ok(0) at the read; both machines
// @assert no panic / overflow; wrong sizes are Err without a read; asset failures surface as Err; a short read is retried; at most 6 asset calls; no read request above 6912 bytes
// @bound 11 loads per machine
// @stub refresh -> no-op; ZXScreen::process_clocks -> no-op
// @replay solver-only
#[kani::proof]
#[kani::unwind(29)]
#[kani::stub(ZXController::refresh_memory_dependent_devices, noop_refresh)]
#[kani::stub(ZXScreen::process_clocks, noop_screen_clocks)]
fn c15_scr_total() {
    let cases: [(usize, u8, u8); 11] = [
        (0, 0xFF, 0), (1, 0xFF, 0), (6911, 0xFF, 0), (6913, 0xFF, 0), (49179, 0xFF, 0),
        (6912, 0, 0), (6912, 1, 0), (6912, 2, 0), (6912, 2, 1), (6912, 2, 2), (6912, 0xFF, 0),
    ];
    let mut m = 0;
    while m < 2 {
        let machine = if m == 0 { ZXMachine::Sinclair48K } else { ZXMachine::Sinclair128K };
        let mut i = 0;
        while i < 11 {
            let (size, at, kind) = cases[i];
            let mut asset = SparseAsset::new(size, kani::any(), [0; 4], NO_WITNESS, 0);
            asset.fault = Fault { at, kind, n: 1 };
            let mut e = dirty_receiver(machine, 0x10);
            let r = load(&mut e, &mut asset);
            kani::assert(asset.calls <= 6 && asset.max_req <= SPEC_SCR_LEN, "c15.scr.bounded_work");
            if size != SPEC_SCR_LEN {
                kani::assert(r.is_err() && asset.max_req == 0, "c15.scr.wrong_size_is_err");
            } else if at != 0xFF && kind != 1 {
                kani::assert(r.is_err(), "c15.scr.asset_failure_surfaces_as_err");
            } else {
                kani::assert(r.is_ok(), "c15.scr.good_file_loads");
            }
            i += 1;
        }
        m += 1;
    }
    kani::cover!(true, "all cases done");
}
