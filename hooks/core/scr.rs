//! Kani harnesses compiled as a child module of rustzx-core/src/emulator/screenshot/scr.rs (cfg(kani) only).
