//! Kani-only child module of rustzx-core/src/emulator/mod.rs (cfg(kani)).
//! Shared constructors/accessors for harnesses that need an `Emulator<VHost>`;
//! harnesses about `emulate_frames` itself live further down.
#![allow(dead_code)]
use super::*;
use crate::verif_hooks::{FbCtx, VHost};
use crate::zx::machine::ZXMachine;

// ---- shared helpers (lead) --------------------------------------------------------------------

pub(crate) fn mk_settings(machine: ZXMachine) -> RustzxSettings {
    RustzxSettings {
        machine,
        emulation_mode: EmulationMode::FrameCount(1),
        tape_fastload_enabled: true,
        kempston_enabled: false,
        mouse_enabled: false,
        #[cfg(all(feature = "sound", feature = "ay"))]
        ay_mode: crate::zx::sound::ay::ZXAYMode::ABC,
        #[cfg(all(feature = "sound", feature = "ay"))]
        ay_enabled: true,
        #[cfg(feature = "sound")]
        beeper_enabled: true,
        #[cfg(feature = "sound")]
        sound_enabled: true,
        #[cfg(feature = "sound")]
        sound_volume: 100,
        #[cfg(feature = "sound")]
        sound_sample_rate: 8000,
        #[cfg(feature = "embedded-roms")]
        load_default_rom: false,
        #[cfg(feature = "autoload")]
        autoload_enabled: false,
    }
}

pub(crate) fn mk_emulator_with(settings: RustzxSettings, ctx: FbCtx) -> Emulator<VHost> {
    match Emulator::<VHost>::new(settings, ctx) {
        Ok(e) => e,
        Err(_) => unreachable!(),
    }
}

pub(crate) fn mk_emulator(machine: ZXMachine, ctx: FbCtx) -> Emulator<VHost> {
    mk_emulator_with(mk_settings(machine), ctx)
}

pub(crate) fn any_machine() -> ZXMachine {
    if kani::any() {
        ZXMachine::Sinclair48K
    } else {
        ZXMachine::Sinclair128K
    }
}

pub(crate) fn cpu<'a>(e: &'a mut Emulator<VHost>) -> &'a mut Z80 {
    &mut e.cpu
}

pub(crate) fn controller<'a>(e: &'a mut Emulator<VHost>) -> &'a mut ZXController<VHost> {
    &mut e.controller
}

pub(crate) fn parts<'a>(e: &'a mut Emulator<VHost>) -> (&'a mut Z80, &'a mut ZXController<VHost>) {
    (&mut e.cpu, &mut e.controller)
}

pub(crate) fn set_fast_load_flag(e: &mut Emulator<VHost>, v: bool) {
    e.fast_load = v;
}

// ---- end shared helpers -----------------------------------------------------------------------
