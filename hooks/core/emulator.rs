//! Kani harnesses compiled as a child module of rustzx-core/src/emulator/mod.rs (cfg(kani) only).
