//! Kani-only child module of rustzx-core/src/emulator/mod.rs (cfg(kani)).
//! Shared constructors/accessors for harnesses that need an `Emulator<VHost>`;
//! harnesses about `emulate_frames` itself live further down.
#![allow(dead_code)]
use super::*;
use crate::verif_hooks::{FbCtx, VHost};
use crate::zx::machine::ZXMachine;

// ---- shared helpers (lead) --------------------------------------------------------------------

pub(crate) fn mk_settings(machine: ZXMachine) -> RustzxSettings {
    RustzxSettings {
        machine,
        emulation_mode: EmulationMode::FrameCount(1),
        tape_fastload_enabled: true,
        kempston_enabled: false,
        mouse_enabled: false,
        #[cfg(all(feature = "sound", feature = "ay"))]
        ay_mode: crate::zx::sound::ay::ZXAYMode::ABC,
        #[cfg(all(feature = "sound", feature = "ay"))]
        ay_enabled: true,
        #[cfg(feature = "sound")]
        beeper_enabled: true,
        #[cfg(feature = "sound")]
        sound_enabled: true,
        #[cfg(feature = "sound")]
        sound_volume: 100,
        #[cfg(feature = "sound")]
        // small default so that frame-end padding loops unroll; harnesses about real rates set it themselves
        sound_sample_rate: 100,
        #[cfg(feature = "embedded-roms")]
        load_default_rom: false,
        #[cfg(feature = "autoload")]
        autoload_enabled: false,
    }
}

pub(crate) fn mk_emulator_with(settings: RustzxSettings, ctx: FbCtx) -> Emulator<VHost> {
    match Emulator::<VHost>::new(settings, ctx) {
        Ok(e) => e,
        Err(_) => unreachable!(),
    }
}

pub(crate) fn mk_emulator(machine: ZXMachine, ctx: FbCtx) -> Emulator<VHost> {
    mk_emulator_with(mk_settings(machine), ctx)
}

pub(crate) fn any_machine() -> ZXMachine {
    if kani::any() {
        ZXMachine::Sinclair48K
    } else {
        ZXMachine::Sinclair128K
    }
}

pub(crate) fn cpu<'a>(e: &'a mut Emulator<VHost>) -> &'a mut Z80 {
    &mut e.cpu
}

pub(crate) fn controller<'a>(e: &'a mut Emulator<VHost>) -> &'a mut ZXController<VHost> {
    &mut e.controller
}

pub(crate) fn parts<'a>(e: &'a mut Emulator<VHost>) -> (&'a mut Z80, &'a mut ZXController<VHost>) {
    (&mut e.cpu, &mut e.controller)
}

pub(crate) fn set_fast_load_flag(e: &mut Emulator<VHost>, v: bool) {
    e.fast_load = v;
}

// ---- end shared helpers -----------------------------------------------------------------------

// ---- tape-agent helpers ----------------------------------------------------------------------

/// the private fast-load event handler of `emulate_frames`
pub(crate) fn fast_load_event(e: &mut Emulator<VHost>) -> Result<()> {
    e.process_fast_load_event()
}

pub(crate) fn fast_load_flag(e: &Emulator<VHost>) -> bool {
    e.fast_load
}

// ---- end tape-agent helpers ------------------------------------------------------------------

// =============================================================================================
// C05 / C16 — the frame loop with the CPU abstracted to "some instruction took d T-states"
// =============================================================================================
use crate::zx::controller::verif_hooks as ch;

static mut GHOST_T: usize = 0; // total T-states handed out by the abstract CPU
static mut GHOST_STEPS: usize = 0;
static mut MAX_STEPS: usize = 4;

/// Replacement for `Z80::emulate`: an arbitrary instruction of 1..frame-1 T-states.
fn abstract_cpu_step<B: rustzx_z80::Z80Bus>(_cpu: &mut Z80, bus: &mut B) {
    unsafe {
        kani::assume(GHOST_STEPS < MAX_STEPS);
        GHOST_STEPS += 1;
        let d: usize = kani::any();
        kani::assume(d >= 1 && d < 69888);
        GHOST_T += d;
        bus.wait_internal(d);
    }
}

fn frame_loop_body(max_steps: usize) {
    unsafe {
        MAX_STEPS = max_steps;
    }
    let m = any_machine();
    let f = ch::spec_frame_len(m);
    let mut e = mk_emulator(m, FbCtx { wx: 0, wy: 0 });
    let n: usize = kani::any();
    kani::assume(n >= 1 && n <= 2);
    e.set_speed(EmulationMode::FrameCount(n));
    let t0: usize = kani::any();
    kani::assume(t0 < f);
    e.controller.frame_clocks = t0;
    unsafe {
        GHOST_T = 0;
        GHOST_STEPS = 0;
    }
    let r = e.emulate_frames(Duration::from_millis(kani::any::<u16>() as u64));
    match r {
        Ok(info) => {
            kani::assert(info.stop_reason == EmulationStopReason::Completed, "c05.loop.completed");
            kani::assert(e.controller.frames_count() == n, "c05.loop.exact_frame_count");
            unsafe {
                kani::assert(t0 + GHOST_T == n * f + e.controller.frame_clocks, "c05.loop.total_time_is_frames_times_length_plus_offset");
            }
            kani::assert(e.controller.frame_clocks < f, "c05.loop.clock_in_frame");
        }
        Err(_) => kani::assert(false, "c05.loop.no_error"),
    }
    unsafe {
        kani::cover!(n == 2 && GHOST_STEPS == MAX_STEPS && e.controller.frame_clocks == 3, "two frames in the maximum number of steps, 3 T overrun");
        kani::cover!(n == 1 && GHOST_STEPS == 1, "one frame in one step");
    }
}

// @harness
// @prop C05 C16
// @tier quick
// @timeout 900
// @fn Emulator::emulate_frames; ZXController::wait_internal; ZXController::new_frame; ZXController::frames_count; ZXController::reset_frame_counter; ZXController::take_events
// @sym machine, start frame T-state, requested frame count 1..2, up to 4 instruction lengths (each 1..69887 T), stopwatch readings
// @assert emulate_frames(FrameCount(n)) returns Completed after exactly n frame ends; total T-states executed == n*frame + clock_after - clock_before (nothing lost or invented at frame ends); no error
// @bound at most 4 abstract CPU steps per call (paths with more are cut by an assume), n <= 2
// @stub Z80::emulate -> abstract step advancing the bus clock by a symbolic d; ZXScreen::process_clocks -> no-op
// @replay solver-only
#[kani::proof]
#[kani::unwind(6)]
#[kani::stub(rustzx_z80::Z80::emulate, abstract_cpu_step)]
#[kani::stub(crate::zx::video::screen::ZXScreen::process_clocks, ch::noop_screen_clocks)]
fn c05_frame_loop_counts_frames() {
    frame_loop_body(4);
}

// @harness
// @prop C05 C16
// @tier thorough
// @timeout 3000
// @fn Emulator::emulate_frames; ZXController::wait_internal; ZXController::new_frame; ZXController::frames_count; ZXController::reset_frame_counter; ZXController::take_events
// @sym machine, start frame T-state, requested frame count 1..2, up to 6 instruction lengths (each 1..69887 T), stopwatch readings
// @assert emulate_frames(FrameCount(n)) returns Completed after exactly n frame ends; total T-states executed == n*frame + clock_after - clock_before (nothing lost or invented at frame ends); no error
// @bound at most 6 abstract CPU steps per call (paths with more are cut by an assume), n <= 2
// @stub Z80::emulate -> abstract step advancing the bus clock by a symbolic d; ZXScreen::process_clocks -> no-op
// @replay solver-only
#[kani::proof]
#[kani::unwind(8)]
#[kani::stub(rustzx_z80::Z80::emulate, abstract_cpu_step)]
#[kani::stub(crate::zx::video::screen::ZXScreen::process_clocks, ch::noop_screen_clocks)]
fn c05_frame_loop_counts_frames_6() {
    frame_loop_body(6);
}

// =============================================================================================
// C08 — pokes reach the display copy
// =============================================================================================
use crate::utils::screen::verif_hooks::{spec_attr_offset, spec_bitmap_offset};
use crate::zx::video::screen::verif_hooks as sh;

struct OnePoke {
    actions: [poke::PokeAction; 1],
}
impl poke::Poke for OnePoke {
    fn actions(&self) -> &[poke::PokeAction] {
        &self.actions
    }
}

pub(crate) fn noop_force_write(_m: &mut crate::zx::memory::ZXMemory, _addr: u16, _value: u8) {}

// @harness
// @prop C08
// @tier quick
// @timeout 900
// @fn Emulator::execute_poke; ZXMemory::get_page; ZXScreen::update
// @sym machine, paging latch, poke address (all 65536) and value, probe cell
// @assert a memory poke into display memory (through any window) is shown: the display copy of the bank it lands in holds the poked byte at the statement's cell, and no other cell changes
// @bound one poke action; the RAM/ROM array store itself is cut (ZXMemory::force_write stubbed, see c08_cpu_write_reaches_display_copy)
// @stub ZXMemory::force_write -> no-op; ZXScreen::process_clocks -> no-op
// @replay solver-only
#[kani::proof]
#[kani::unwind(10)]
#[kani::stub(crate::zx::video::screen::ZXScreen::process_clocks, ch::noop_screen_clocks)]
#[kani::stub(crate::zx::memory::ZXMemory::force_write, noop_force_write)]
fn c08_poke_reaches_display_copy() {
    let m = any_machine();
    let mut e = mk_emulator(m, FbCtx { wx: 0, wy: 0 });
    let mut latch = ch::SpecLatch::reset();
    let v1: u8 = kani::any();
    if m == ZXMachine::Sinclair128K {
        e.controller.write_7ffd(v1);
    }
    latch.write(m, v1);
    let addr: u16 = kani::any();
    let d: u8 = kani::any();
    kani::assume(d != 0);
    e.execute_poke(OnePoke { actions: [poke::PokeAction::mem(addr, d)] });
    let landed = match latch.page(m, (addr >> 14) as usize) {
        crate::zx::memory::Page::Ram(b) => ch::spec_display_bank(m, b),
        crate::zx::memory::Page::Rom(_) => None,
    };
    let off = (addr & 0x3FFF) as usize;
    let (pl, py, pc): (usize, usize, usize) = (kani::any(), kani::any(), kani::any());
    kani::assume(pl < 2 && py < 192 && pc < 32);
    let hit_bitmap = landed == Some(pl) && off == spec_bitmap_offset(py, pc);
    let hit_attr = landed == Some(pl) && off == spec_attr_offset(py, pc);
    kani::assert(sh::shadow_bitmap(&e.controller.screen, pl, py, pc) == if hit_bitmap { d } else { 0 }, "c08.poke.bitmap_cell");
    kani::assert(sh::shadow_attr(&e.controller.screen, pl, py >> 3, pc) == if hit_attr { d } else { 0 }, "c08.poke.attribute_cell");
    kani::cover!(hit_bitmap && addr < 0x8000, "poke into the fixed screen window");
    kani::cover!(hit_attr && pl == 1, "poke into bank 7 attributes");
    kani::cover!(landed.is_none() && addr < 0x4000, "ROM poke");
}

// =============================================================================================
// C16 — the result does not depend on how the host slices execution
// =============================================================================================
static mut SCRIPT: [usize; 4] = [0; 4];
static mut SCRIPT_PC: [u16; 4] = [0; 4];
static mut SCRIPT_POS: usize = 0;
static mut SCRIPT_LIMIT: usize = 4;

/// Replacement for `Z80::emulate`: the i-th instruction of a fixed (symbolic) program takes
/// SCRIPT[i] T-states and ends at PC SCRIPT_PC[i].
fn scripted_cpu_step<B: rustzx_z80::Z80Bus>(_cpu: &mut Z80, bus: &mut B) {
    unsafe {
        kani::assume(SCRIPT_POS < SCRIPT_LIMIT);
        let d = SCRIPT[SCRIPT_POS];
        let pc = SCRIPT_PC[SCRIPT_POS];
        SCRIPT_POS += 1;
        bus.wait_internal(d);
        bus.pc_callback(pc);
    }
}

/// total T-states of the first `k` scripted instructions
fn script_sum(k: usize) -> usize {
    let mut s = 0;
    let mut i = 0;
    while i < 4 {
        if i < k {
            s += unsafe { SCRIPT[i] };
        }
        i += 1;
    }
    s
}

fn slicing_body(mode: u8) {
    let m = any_machine();
    let f = ch::spec_frame_len(m);
    let mut e = mk_emulator(m, FbCtx { wx: 0, wy: 0 });
    let t0: usize = kani::any();
    kani::assume(t0 < f);
    e.controller.frame_clocks = t0;
    unsafe {
        let mut i = 0;
        while i < 4 {
            let d: usize = kani::any();
            kani::assume(d >= 1 && d < f);
            SCRIPT[i] = d;
            SCRIPT_PC[i] = kani::any();
            i += 1;
        }
        SCRIPT_POS = 0;
        // the maximum-speed loop re-enters the frame loop after every frame: with 3 instructions the query needed > 20 GB, 2 are kept
        SCRIPT_LIMIT = if mode == 2 { 3 } else { 4 };
    }
    // CPU control state the scripted instructions never touch: whatever the slicing, only instructions
    // may change it (a call boundary right after EI must not lose the one-instruction interrupt delay)
    let (h0, s0, i1, i2): (bool, bool, bool, bool) = (kani::any(), kani::any(), kani::any(), kani::any());
    e.cpu.halted = h0;
    e.cpu.skip_interrupt = s0;
    e.cpu.regs.set_iff1(i1);
    e.cpu.regs.set_iff2(i2);
    let limit = Duration::from_millis(kani::any::<u16>() as u64);
    let mut frames_seen = 0usize;
    let mut stopped_at_frame_end = true;
    match mode {
        0 => {
            e.set_speed(EmulationMode::FrameCount(2));
            let r = e.emulate_frames(limit);
            kani::assert(matches!(r, Ok(EmulationInfo { stop_reason: EmulationStopReason::Completed, .. })), "c16.slice.two_frames_complete");
            frames_seen += e.controller.frames_count();
        }
        1 => {
            e.set_speed(EmulationMode::FrameCount(1));
            let r = e.emulate_frames(limit);
            kani::assert(matches!(r, Ok(EmulationInfo { stop_reason: EmulationStopReason::Completed, .. })), "c16.slice.first_frame_completes");
            frames_seen += e.controller.frames_count();
            let r = e.emulate_frames(limit);
            kani::assert(matches!(r, Ok(EmulationInfo { stop_reason: EmulationStopReason::Completed, .. })), "c16.slice.second_frame_completes");
            frames_seen += e.controller.frames_count();
        }
        2 => {
            e.set_speed(EmulationMode::Max);
            let r = e.emulate_frames(limit);
            kani::assert(matches!(r, Ok(EmulationInfo { stop_reason: EmulationStopReason::Timeout, .. })), "c16.slice.max_mode_stops_on_time_limit");
            // frames are counted per inner round in this mode: recompute from the clock below
            frames_seen = (t0 + script_sum(unsafe { SCRIPT_POS })) / f;
            kani::assert(frames_seen >= 1, "c16.slice.max_mode_runs_whole_frames");
        }
        _ => {
            e.set_debug_interface(crate::verif_hooks::VDbg { bp: kani::any(), enabled: true });
            e.set_speed(EmulationMode::FrameCount(2));
            let r = e.emulate_frames(limit);
            match r {
                Ok(EmulationInfo { stop_reason: EmulationStopReason::Breakpoint, .. }) => {
                    // resume: the host simply calls again (frame counter restarts, so ask for what is left)
                    let done = e.controller.frames_count();
                    frames_seen += done;
                    stopped_at_frame_end = false;
                    if done < 2 {
                        e.controller.debug_interface = None;
                        e.set_speed(EmulationMode::FrameCount(2 - done));
                        let r2 = e.emulate_frames(limit);
                        kani::assert(matches!(r2, Ok(EmulationInfo { stop_reason: EmulationStopReason::Completed, .. })), "c16.slice.resume_completes");
                        frames_seen += e.controller.frames_count();
                        stopped_at_frame_end = true;
                    }
                }
                Ok(EmulationInfo { stop_reason: EmulationStopReason::Completed, .. }) => {
                    frames_seen += e.controller.frames_count();
                }
                _ => kani::assert(false, "c16.slice.no_error_or_timeout_in_frame_count_mode"),
            }
        }
    }
    let k = unsafe { SCRIPT_POS };
    let total = t0 + script_sum(k);
    kani::assert(
        e.cpu.halted == h0 && e.cpu.skip_interrupt == s0 && e.cpu.regs.get_iff1() == i1 && e.cpu.regs.get_iff2() == i2,
        "c16.slice.call_boundaries_leave_cpu_control_state_alone",
    );
    kani::assert(e.controller.frame_clocks == total % f, "c16.slice.clock_is_function_of_executed_instructions");
    kani::assert(frames_seen == total / f, "c16.slice.frame_ends_counted_exactly");
    if mode != 2 && stopped_at_frame_end {
        // stopped after the first instruction that completes the second frame
        kani::assert(total >= 2 * f && t0 + script_sum(k - 1) < 2 * f, "c16.slice.same_stop_point_for_every_slicing");
    }
    if mode == 2 {
        kani::assert(k >= 1 && (t0 + script_sum(k - 1)) / f < total / f, "c16.slice.max_mode_stops_at_a_frame_end");
    }
    kani::cover!(mode != 1 || k == 4, "frame-by-frame, four instructions");
    kani::cover!(mode != 0 || k == 3, "two frames per call");
    kani::cover!(mode != 2 || frames_seen == 2, "max mode ran two frames");
    kani::cover!(mode != 3 || !stopped_at_frame_end, "breakpoint in the last instruction");
    kani::cover!(mode != 3 || (stopped_at_frame_end && k == 4 && e.controller.debug_interface.is_none()), "breakpoint mid-way then resume to completion");
}

// @harness
// @prop C16
// @tier quick
// @timeout 900
// @fn Emulator::emulate_frames (FrameCount(n), Max, breakpoint stop and resume); Emulator::set_speed; Emulator::set_debug_interface; ZXController::pc_callback; ZXController::wait_internal; ZXController::reset_frame_counter; ZXController::take_events
// @sym machine, start frame time, a program of 4 instruction lengths (1..frame-1 T each) and end PCs, host slicing: 2 frames in one call, stopwatch readings
// @assert whatever the slicing, after the host has driven the machine the emulated time is a function of the instructions executed only: clock == (start + sum of executed lengths) mod frame, frame ends counted == (start + sum) div frame; FrameCount(2) in one call and FrameCount(1) twice stop after the same instruction (the first that completes the second frame); a breakpoint stop loses nothing and the resume continues with the next instruction; max-speed mode stops only at a frame end; HALT state, the pending one-instruction interrupt delay (EI / prefix chain) and IFF1/IFF2 are never changed by the host loop itself, only by instructions
// @bound 4 abstract instructions per query (paths needing more are cut by an assume), <= 2 frames
// @stub Z80::emulate -> scripted step (length and PC from the symbolic program); ZXScreen::process_clocks -> no-op
// @replay solver-only
#[kani::proof]
#[kani::unwind(12)]
#[kani::stub(rustzx_z80::Z80::emulate, scripted_cpu_step)]
#[kani::stub(crate::zx::video::screen::ZXScreen::process_clocks, ch::noop_screen_clocks)]
fn c16_slicing_two_frames_per_call() {
    slicing_body(0);
}

// @harness
// @prop C16
// @tier quick
// @timeout 900
// @fn Emulator::emulate_frames (FrameCount(n), Max, breakpoint stop and resume); Emulator::set_speed; Emulator::set_debug_interface; ZXController::pc_callback; ZXController::wait_internal; ZXController::reset_frame_counter; ZXController::take_events
// @sym machine, start frame time, a program of 4 instruction lengths (1..frame-1 T each) and end PCs, host slicing: 1 frame per call, twice, stopwatch readings
// @assert whatever the slicing, after the host has driven the machine the emulated time is a function of the instructions executed only: clock == (start + sum of executed lengths) mod frame, frame ends counted == (start + sum) div frame; FrameCount(2) in one call and FrameCount(1) twice stop after the same instruction (the first that completes the second frame); a breakpoint stop loses nothing and the resume continues with the next instruction; max-speed mode stops only at a frame end; HALT state, the pending one-instruction interrupt delay (EI / prefix chain) and IFF1/IFF2 are never changed by the host loop itself, only by instructions
// @bound 4 abstract instructions per query (paths needing more are cut by an assume), <= 2 frames
// @stub Z80::emulate -> scripted step (length and PC from the symbolic program); ZXScreen::process_clocks -> no-op
// @replay solver-only
#[kani::proof]
#[kani::unwind(12)]
#[kani::stub(rustzx_z80::Z80::emulate, scripted_cpu_step)]
#[kani::stub(crate::zx::video::screen::ZXScreen::process_clocks, ch::noop_screen_clocks)]
fn c16_slicing_frame_by_frame() {
    slicing_body(1);
}

// @harness
// @prop C16
// @tier thorough
// @timeout 3000
// @fn Emulator::emulate_frames (FrameCount(n), Max, breakpoint stop and resume); Emulator::set_speed; Emulator::set_debug_interface; ZXController::pc_callback; ZXController::wait_internal; ZXController::reset_frame_counter; ZXController::take_events
// @sym machine, start frame time, a program of 4 instruction lengths (1..frame-1 T each) and end PCs, host slicing: maximum-speed mode with arbitrary stopwatch readings and time limit, stopwatch readings
// @assert whatever the slicing, after the host has driven the machine the emulated time is a function of the instructions executed only: clock == (start + sum of executed lengths) mod frame, frame ends counted == (start + sum) div frame; FrameCount(2) in one call and FrameCount(1) twice stop after the same instruction (the first that completes the second frame); a breakpoint stop loses nothing and the resume continues with the next instruction; max-speed mode stops only at a frame end; HALT state, the pending one-instruction interrupt delay (EI / prefix chain) and IFF1/IFF2 are never changed by the host loop itself, only by instructions
// @bound 4 abstract instructions per query (paths needing more are cut by an assume), <= 2 frames
// @stub Z80::emulate -> scripted step (length and PC from the symbolic program); ZXScreen::process_clocks -> no-op
// @replay solver-only
#[kani::proof]
#[kani::unwind(6)]
#[kani::stub(rustzx_z80::Z80::emulate, scripted_cpu_step)]
#[kani::stub(crate::zx::video::screen::ZXScreen::process_clocks, ch::noop_screen_clocks)]
fn c16_slicing_max_speed_mode() {
    slicing_body(2);
}

// @harness
// @prop C16
// @tier quick
// @timeout 900
// @fn Emulator::emulate_frames (FrameCount(n), Max, breakpoint stop and resume); Emulator::set_speed; Emulator::set_debug_interface; ZXController::pc_callback; ZXController::wait_internal; ZXController::reset_frame_counter; ZXController::take_events
// @sym machine, start frame time, a program of 4 instruction lengths (1..frame-1 T each) and end PCs, host slicing: 2 frames with a breakpoint that may hit after any instruction, then resume, stopwatch readings
// @assert whatever the slicing, after the host has driven the machine the emulated time is a function of the instructions executed only: clock == (start + sum of executed lengths) mod frame, frame ends counted == (start + sum) div frame; FrameCount(2) in one call and FrameCount(1) twice stop after the same instruction (the first that completes the second frame); a breakpoint stop loses nothing and the resume continues with the next instruction; max-speed mode stops only at a frame end; HALT state, the pending one-instruction interrupt delay (EI / prefix chain) and IFF1/IFF2 are never changed by the host loop itself, only by instructions
// @bound 4 abstract instructions per query (paths needing more are cut by an assume), <= 2 frames
// @stub Z80::emulate -> scripted step (length and PC from the symbolic program); ZXScreen::process_clocks -> no-op
// @replay solver-only
#[kani::proof]
#[kani::unwind(12)]
#[kani::stub(rustzx_z80::Z80::emulate, scripted_cpu_step)]
#[kani::stub(crate::zx::video::screen::ZXScreen::process_clocks, ch::noop_screen_clocks)]
fn c16_slicing_breakpoint_and_resume() {
    slicing_body(3);
}

// ---- snap-agent: C15 load_rom ------------------------------------------------------------------
use crate::emulator::snapshot::sna::verif_hooks::{Fault as SnapFault, SparseAsset as SnapAsset, CTX as SNAP_CTX, NO_WITNESS as SNAP_NO_WITNESS};
use crate::host::{RomFormat, RomSet};

/// ROM set handing out up to two sparse page assets (sizes / witness / fault chosen by the harness)
struct VRomSet {
    sizes: [usize; 2],
    count: usize,
    next: usize,
    wval: u8,
    woff: usize,
    fault_on: usize,
    fault: SnapFault,
}

impl RomSet for VRomSet {
    type Asset = SnapAsset;
    fn format(&self) -> RomFormat {
        RomFormat::Binary16KPages
    }
    fn next_asset(&mut self) -> Option<SnapAsset> {
        if self.next >= self.count {
            return None;
        }
        let i = self.next;
        self.next += 1;
        let mut a = SnapAsset::new(self.sizes[i], [0; 27], [0; 4], self.woff, self.wval);
        if i == self.fault_on {
            a.fault = self.fault;
        }
        Some(a)
    }
}

// @harness
// @prop C15 C06
// @tier quick
// @timeout 900
// @fn Emulator::load_rom; Emulator::load_rom_binary_16k_pages; LoadableAsset::read_exact; ZXMemory::rom_page_data_mut
// @sym witness byte value; enumerated: machine, number of page assets offered 0..2, asset sizes {0, 16383, 16384, 20000}, failing / short-reading / prematurely ending asset
// @assert no panic; Ok exactly when every ROM page of the machine got an asset of at least 16384 bytes that did not fail (a short read is retried), Err(MoreAssetsRequired / UnexpectedEof / host error) otherwise; on Ok the witness byte of ROM page 0 (its last byte, offset 0x3FFF, read by the CPU at 0x3FFF) is what the asset held - also when the host asset delivers the page in several short reads (C06: 0x0000-0x3FFF reads the ROM image supplied for the machine)
// @bound 14 concrete configurations
// @outside bytes of the ROM image outside the witness (one slice copy per page)
#[kani::proof]
#[kani::unwind(29)]
fn c15_load_rom_total() {
    // (128K?, assets offered, size0, size1, faulty asset (9 = none), fault kind, expect Ok)
    let cases: [(bool, usize, usize, usize, usize, u8, bool); 14] = [
        (false, 0, 0, 0, 9, 0, false),
        (false, 1, 16384, 0, 9, 0, true),
        (false, 1, 16383, 0, 9, 0, false),
        (false, 1, 0, 0, 9, 0, false),
        (false, 2, 20000, 16384, 9, 0, true),
        (false, 1, 16384, 0, 0, 0, false),
        (false, 1, 16384, 0, 0, 1, true),
        (false, 1, 16384, 0, 0, 2, false),
        (true, 1, 16384, 0, 9, 0, false),
        (true, 2, 16384, 16384, 9, 0, true),
        (true, 2, 16384, 16383, 9, 0, false),
        (true, 2, 16384, 16384, 1, 0, false),
        (true, 2, 16384, 16384, 1, 1, true),
        (true, 0, 0, 0, 9, 0, false),
    ];
    let mut i = 0;
    while i < 14 {
        let (big, count, s0, s1, fault_on, kind, want_ok) = cases[i];
        let machine = if big { ZXMachine::Sinclair128K } else { ZXMachine::Sinclair48K };
        let wval: u8 = kani::any();
        let rom = VRomSet { sizes: [s0, s1], count, next: 0, wval, woff: 0x3FFF, fault_on, fault: SnapFault { at: 0, kind, n: 100 } };
        let mut e = mk_emulator(machine, SNAP_CTX);
        let r = e.load_rom(rom);
        kani::assert(r.is_ok() == want_ok, "c15.rom.ok_iff_all_pages_supplied");
        if want_ok {
            kani::assert(e.peek(0x3FFF) == wval, "c15.rom.page0_witness");
        }
        i += 1;
    }
    kani::cover!(true, "all configurations done");
}
