//! Kani harnesses compiled as a child module of rustzx-core/src/emulator/snapshot/szx.rs (cfg(kani) only).
