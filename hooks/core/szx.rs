//! Kani-only child module of rustzx-core/src/emulator/snapshot/szx.rs (cfg(kani)).
//! C14 (each well-formed SZX chunk yields the described state; chunk walker dispatch; model
//! mismatch), C15 (every chunk processor and the walker are total), C13 (SZX save = NotSupported).
//!
//! `szx::load` as a whole on a symbolic file is out of reach (> 20 GB), so the walker is verified
//! with the chunk processors replaced by call recorders, and each processor on its own.
#![allow(dead_code)]
use super::*;
use crate::{
    emulator::{
        snapshot::sna::verif_hooks::{
            has_pending_prefix, noop_refresh, noop_screen_clocks, seed_pending_dd_prefix, Fault, SparseRecorder, CTX,
            FAULT_NONE, NO_FAULT, NO_WITNESS,
        },
        verif_hooks::{controller, cpu, mk_emulator},
    },
    error::{Error, IoError},
    verif_hooks::VHost,
    zx::{
        controller::{verif_hooks as ch, ZXController},
        machine::ZXMachine,
        memory::{verif_hooks::SHORT_PAGE, Page},
        video::screen::ZXScreen,
    },
};

// ================================================================================================
// SZX ("zx-state") format, written from the public format description (Spectaculator docs):
//   file header : "ZXST" | major | minor | machine id (0 16K, 1 48K, 2 128K, ...) | flags
//   block header: 4-char id | u32 LE size
//   Z80R (37)   : AF BC DE HL AF' BC' DE' HL' IX IY SP PC (u16 LE) | I R IFF1 IFF2 IM |
//                 dwCyclesStart u32 | chHoldIntReqCycles | chFlags (1 EILAST, 2 HALTED, 4 FSET) | wMemPtr
//   SPCR (8)    : border | 7ffd | 1ffd/eff7 | fe | 4 reserved
//   AY\0\0 (18) : flags (1 Fuller, 2 128AY) | current register | 16 registers
//   KEYB (5)    : u32 flags | joystick type
//   AMXM (7)    : type (0 none, 1 AMX, 2 Kempston) | 3 ctrl A | 3 ctrl B
//   RAMP (3+n)  : u16 flags (1 = zlib compressed) | page number | data (16384 when stored)
// ================================================================================================

#[derive(Clone, Copy)]
struct ZAbs {
    af: u16,
    bc: u16,
    de: u16,
    hl: u16,
    af_alt: u16,
    bc_alt: u16,
    de_alt: u16,
    hl_alt: u16,
    ix: u16,
    iy: u16,
    sp: u16,
    pc: u16,
    i: u8,
    r: u8,
    iff1: bool,
    iff2: bool,
    im: u8,
    cycles: u32,
    hold: u8,
    eilast: bool,
    halted: bool,
    fset: bool,
    junk_flags: u8,
    memptr: u16,
}

fn any_zabs() -> ZAbs {
    let z = ZAbs {
        af: kani::any(),
        bc: kani::any(),
        de: kani::any(),
        hl: kani::any(),
        af_alt: kani::any(),
        bc_alt: kani::any(),
        de_alt: kani::any(),
        hl_alt: kani::any(),
        ix: kani::any(),
        iy: kani::any(),
        sp: kani::any(),
        pc: kani::any(),
        i: kani::any(),
        r: kani::any(),
        iff1: kani::any(),
        iff2: kani::any(),
        im: kani::any(),
        cycles: kani::any(),
        hold: kani::any(),
        eilast: kani::any(),
        halted: kani::any(),
        fset: kani::any(),
        junk_flags: kani::any(),
        memptr: kani::any(),
    };
    kani::assume(z.im <= 2);
    // the format says EILAST and HALTED are mutually exclusive
    kani::assume(!(z.eilast && z.halted));
    // a frame is at most 70908 T-states long
    kani::assume(z.cycles < 69888);
    z
}

fn put16(b: &mut [u8], off: usize, v: u16) {
    b[off] = v as u8;
    b[off + 1] = (v >> 8) as u8;
}

/// spec encoder: Z80R chunk body (`nz` = the non-zero byte used for a set IFF flag)
fn spec_z80r(z: &ZAbs, nz: u8) -> [u8; 37] {
    let mut b = [0u8; 37];
    put16(&mut b, 0, z.af);
    put16(&mut b, 2, z.bc);
    put16(&mut b, 4, z.de);
    put16(&mut b, 6, z.hl);
    put16(&mut b, 8, z.af_alt);
    put16(&mut b, 10, z.bc_alt);
    put16(&mut b, 12, z.de_alt);
    put16(&mut b, 14, z.hl_alt);
    put16(&mut b, 16, z.ix);
    put16(&mut b, 18, z.iy);
    put16(&mut b, 20, z.sp);
    put16(&mut b, 22, z.pc);
    b[24] = z.i;
    b[25] = z.r;
    b[26] = if z.iff1 { nz } else { 0 };
    b[27] = if z.iff2 { nz } else { 0 };
    b[28] = z.im;
    b[29] = z.cycles as u8;
    b[30] = (z.cycles >> 8) as u8;
    b[31] = (z.cycles >> 16) as u8;
    b[32] = (z.cycles >> 24) as u8;
    b[33] = z.hold;
    b[34] = (z.junk_flags & !7) | (z.eilast as u8) | ((z.halted as u8) << 1) | ((z.fset as u8) << 2);
    put16(&mut b, 35, z.memptr);
    b
}

/// "what the machine was doing before": arbitrary registers and control flags, optionally a
/// pending DD prefix produced by really executing DD DD
fn dirty(e: &mut Emulator<VHost>, with_prefix: bool) {
    let c = cpu(e);
    if with_prefix {
        seed_pending_dd_prefix(c);
    }
    c.halted = kani::any();
    c.skip_interrupt = kani::any();
    c.regs.set_af(kani::any());
    c.regs.set_bc(kani::any());
    c.regs.set_de(kani::any());
    c.regs.set_hl(kani::any());
    c.regs.exx();
    c.regs.swap_af_alt();
    c.regs.set_af(kani::any());
    c.regs.set_bc(kani::any());
    c.regs.set_de(kani::any());
    c.regs.set_hl(kani::any());
    c.regs.set_ix(kani::any());
    c.regs.set_iy(kani::any());
    c.regs.set_sp(kani::any());
    c.regs.set_pc(kani::any());
    c.regs.set_i(kani::any());
    c.regs.set_r(kani::any());
    c.regs.set_iff1(kani::any());
    c.regs.set_iff2(kani::any());
    let im: u8 = kani::any();
    kani::assume(im <= 2);
    c.set_im(im);
}

fn check_z80r_regs(e: &mut Emulator<VHost>, z: &ZAbs) {
    let c = cpu(e);
    kani::assert(c.regs.get_af() == z.af, "c14.szx.z80r.af");
    kani::assert(c.regs.get_bc() == z.bc, "c14.szx.z80r.bc");
    kani::assert(c.regs.get_de() == z.de, "c14.szx.z80r.de");
    kani::assert(c.regs.get_hl() == z.hl, "c14.szx.z80r.hl");
    kani::assert(c.regs.get_ix() == z.ix, "c14.szx.z80r.ix");
    kani::assert(c.regs.get_iy() == z.iy, "c14.szx.z80r.iy");
    kani::assert(c.regs.get_sp() == z.sp, "c14.szx.z80r.sp");
    kani::assert(c.regs.get_i() == z.i, "c14.szx.z80r.i");
    kani::assert(c.regs.get_r() == z.r, "c14.szx.z80r.r");
    kani::assert(c.regs.get_iff1() == z.iff1, "c14.szx.z80r.iff1");
    kani::assert(c.regs.get_iff2() == z.iff2, "c14.szx.z80r.iff2");
    kani::assert(u8::from(c.get_im()) == z.im, "c14.szx.z80r.im");
    kani::assert(c.halted == z.halted, "c14.szx.z80r.halted_flag");
    kani::assert(c.skip_interrupt == z.eilast, "c14.szx.z80r.ei_pending");
    c.regs.exx();
    c.regs.swap_af_alt();
    kani::assert(c.regs.get_af() == z.af_alt, "c14.szx.z80r.af_alt");
    kani::assert(c.regs.get_bc() == z.bc_alt, "c14.szx.z80r.bc_alt");
    kani::assert(c.regs.get_de() == z.de_alt, "c14.szx.z80r.de_alt");
    kani::assert(c.regs.get_hl() == z.hl_alt, "c14.szx.z80r.hl_alt");
    c.regs.exx();
    c.regs.swap_af_alt();
}

// ------------------------------------------------------------------------------------------------
// C14 / Z80R
// ------------------------------------------------------------------------------------------------

// @harness
// @prop C14
// @tier quick
// @timeout 600
// @fn szx::process_z80r_block; Z80::reset_control_state; Z80::set_im; Regs setters
// @sym every field of the Z80R chunk through the spec encoder (registers, I, R, IFF1/2 with arbitrary non-zero encoding, IM 0..2, cycle counter < 69888, EILAST, HALTED, FSET, MEMPTR, undefined flag bits); receiver: all registers, halted, EI-pending, both machines
// @assert the chunk is accepted; all registers, IFF1, IFF2, IM equal the chunk; halted flag and EI-pending equal the chunk flags; PC = chunk PC also when HALTED (rustzx keeps PC on the HALT while halted); frame clock = dwCyclesStart; whatever the receiver held before
// @bound one chunk per machine
// @assume receiver not between a DD/FD prefix and its opcode (that region: c14_szx_z80r_into_prefixed_cpu)
#[kani::proof]
#[kani::unwind(40)]
fn c14_szx_z80r_running() {
    let m = [ZXMachine::Sinclair48K, ZXMachine::Sinclair128K];
    let mut i = 0;
    while i < 2 {
        let z = any_zabs();
        let nz: u8 = kani::any();
        kani::assume(nz != 0);
        let body = spec_z80r(&z, nz);
        let mut e = mk_emulator(m[i], CTX);
        dirty(&mut e, false);
        let r = process_z80r_block(&mut e, &body);
        kani::assert(r.is_ok(), "c14.szx.z80r.accepted");
        check_z80r_regs(&mut e, &z);
        kani::assert(cpu(&mut e).regs.get_pc() == z.pc, "c14.szx.z80r.pc");
        kani::assert(controller(&mut e).frame_clocks == z.cycles as usize, "c14.szx.z80r.frame_clock_is_chunk_value");
        kani::cover!(z.eilast && z.iff1 && !z.iff2 && z.im == 2 && z.hl_alt != z.hl, "EI-last chunk with all fields free");
        kani::cover!(z.halted && z.pc == 0x8000, "halted chunk");
        i += 1;
    }
}

// @harness
// @prop C14
// @tier quick
// @timeout 600
// @fn szx::process_z80r_block
// @sym every Z80R field, HALTED set
// @assert the machine is halted at the HALT: halted flag set and PC = chunk PC, so the next accepted interrupt returns to chunk PC + 1 (was KF-C14-4: PC was moved forward)
// @bound one chunk, 48K
// @assume chunk HALTED flag set (sub-region of c14_szx_z80r_running, kept as focused witness)
#[kani::proof]
#[kani::unwind(40)]
fn c14_szx_z80r_halted_keeps_pc() {
    let z = any_zabs();
    kani::assume(z.halted);
    let body = spec_z80r(&z, 1);
    let mut e = mk_emulator(ZXMachine::Sinclair48K, CTX);
    dirty(&mut e, false);
    let r = process_z80r_block(&mut e, &body);
    kani::assert(r.is_ok(), "c14.szx.z80r.accepted");
    check_z80r_regs(&mut e, &z);
    kani::assert(cpu(&mut e).halted && cpu(&mut e).regs.get_pc() == z.pc, "c14.szx.z80r.halted_at_chunk_pc");
    kani::cover!(z.pc == 0xFFFF, "reached");
}

// @harness
// @prop C14
// @tier quick
// @timeout 600
// @fn szx::process_z80r_block; Z80::reset_control_state; Z80::emulate (to create and to observe the pending prefix)
// @sym every Z80R field; receiver executed DD DD, DD FD or DD ED just before the load
// @assert after the Z80R chunk the next opcode is decoded unprefixed (was KF-C14-1)
// @bound one chunk, 48K; one instruction on a 4-byte bus to observe
// @assume receiver between DD and its opcode (the region excluded from c14_szx_z80r_running)
#[kani::proof]
#[kani::unwind(40)]
fn c14_szx_z80r_into_prefixed_cpu() {
    let z = any_zabs();
    let body = spec_z80r(&z, 1);
    let mut e = mk_emulator(ZXMachine::Sinclair48K, CTX);
    dirty(&mut e, true);
    let r = process_z80r_block(&mut e, &body);
    kani::assert(r.is_ok(), "c14.szx.z80r.accepted");
    check_z80r_regs(&mut e, &z);
    kani::assert(!has_pending_prefix(cpu(&mut e)), "c14.szx.z80r.no_prefix_pending_after_load");
    kani::cover!(true, "reached");
}

// @harness
// @prop C14
// @tier quick
// @timeout 300
// @fn Z80::emulate
// @sym registers
// @assert self-check of the observation device: a CPU that executed DD DD, DD FD or DD ED reports a pending prefix, a fresh CPU does not, and reset_control_state clears it
// @bound three instruction steps on a 4-byte bus
#[kani::proof]
#[kani::unwind(8)]
fn c14_prefix_observer_selfcheck() {
    let mut a = rustzx_z80::Z80::default();
    a.regs.set_hl(kani::any());
    a.regs.set_ix(kani::any());
    let mut b = rustzx_z80::Z80::default();
    b.regs.set_hl(kani::any());
    b.regs.set_ix(kani::any());
    seed_pending_dd_prefix(&mut b);
    let mut c = rustzx_z80::Z80::default();
    c.regs.set_hl(kani::any());
    seed_pending_dd_prefix(&mut c);
    c.reset_control_state();
    kani::assert(!has_pending_prefix(&mut a), "c14.observer.clean_cpu_has_no_prefix");
    kani::assert(has_pending_prefix(&mut b), "c14.observer.dd_dd_leaves_prefix");
    kani::assert(!has_pending_prefix(&mut c) && !c.skip_interrupt, "c14.observer.reset_clears_prefix");
    kani::cover!(true, "reached");
}

// ------------------------------------------------------------------------------------------------
// C14 / SPCR
// ------------------------------------------------------------------------------------------------

fn spec_spcr(border: u8, p7ffd: u8, p1ffd: u8, fe: u8, reserved: [u8; 4]) -> [u8; 8] {
    [border, p7ffd, p1ffd, fe, reserved[0], reserved[1], reserved[2], reserved[3]]
}

// @harness
// @prop C14
// @tier quick
// @timeout 600
// @fn szx::process_spcr_block; ZXController::restore_7ffd; ZXController::write_7ffd; ZXController::write_fe; ZXColor::from_bits
// @sym border 0..7, port 7FFD byte (all 256), 1FFD byte, FE byte, reserved bytes; receiver border, frame clock and 7FFD latch (any value, locked or not) written through the real port
// @assert the chunk is accepted; border = chunk border; 128K: latch, lock, bank at C000, ROM, screen bank as the 7FFD byte says, also when the receiver's paging was locked (was KF-C14-2); 48K: map untouched; the frame clock is not moved (was KF-C14-6)
// @bound one chunk per machine (48K file id 1 into 48K machine, 128K file id 2 into 128K machine)
// @outside beeper/MIC level carried by chFe (not an item the statement lists)
#[kani::proof]
#[kani::unwind(10)]
fn c14_szx_spcr() {
    let border: u8 = kani::any();
    kani::assume(border <= 7);
    let p7: u8 = kani::any();
    let body = spec_spcr(border, p7, kani::any(), kani::any(), kani::any());
    let fc: usize = kani::any();
    kani::assume(fc < 69888);
    // 128K
    let mut e = mk_emulator(ZXMachine::Sinclair128K, CTX);
    let l0: u8 = kani::any();
    controller(&mut e).write_7ffd(l0);
    controller(&mut e).set_border_color(0, crate::verif_hooks::any_color());
    controller(&mut e).frame_clocks = fc;
    let r = process_spcr_block(&mut e, 2, &body);
    kani::assert(r.is_ok(), "c14.szx.spcr.accepted");
    let c = controller(&mut e);
    kani::assert(u8::from(c.border_color) == border, "c14.szx.spcr.border_128");
    kani::assert(c.read_7ffd() == p7, "c14.szx.spcr.latch");
    kani::assert(ch::paging_enabled(c) == (p7 & 0x20 == 0), "c14.szx.spcr.lock");
    kani::assert(c.memory.get_page(0xC000) == Page::Ram(p7 & 7), "c14.szx.spcr.map_c000");
    kani::assert(c.memory.get_page(0x0000) == Page::Rom((p7 >> 4) & 1), "c14.szx.spcr.map_rom");
    kani::assert(c.memory.get_page(0x4000) == Page::Ram(5) && c.memory.get_page(0x8000) == Page::Ram(2), "c14.szx.spcr.map_fixed");
    kani::assert(ch::screen_bank(c) == if p7 & 8 != 0 { 7 } else { 5 }, "c14.szx.spcr.screen_bank");
    kani::assert(c.frame_clocks == fc, "c14.szx.spcr.frame_clock_untouched_128");
    // 48K
    let mut e = mk_emulator(ZXMachine::Sinclair48K, CTX);
    controller(&mut e).set_border_color(0, crate::verif_hooks::any_color());
    controller(&mut e).frame_clocks = fc;
    let r = process_spcr_block(&mut e, 1, &body);
    kani::assert(r.is_ok(), "c14.szx.spcr.accepted_48");
    let c = controller(&mut e);
    kani::assert(u8::from(c.border_color) == border, "c14.szx.spcr.border_48");
    kani::assert(c.memory.get_page(0xC000) == Page::Ram(2) && c.memory.get_page(0x0000) == Page::Rom(0), "c14.szx.spcr.map_48_untouched");
    kani::assert(c.frame_clocks == fc, "c14.szx.spcr.frame_clock_untouched_48");
    kani::cover!(p7 == 0x3F && border == 6 && l0 == 0x37, "locking latch with shadow screen into a locked machine");
    kani::cover!(l0 & 0x20 == 0 && p7 & 0x20 == 0 && fc == 14335, "unlocked to unlocked");
}

// @harness
// @prop C09 C14
// @tier quick
// @features precise-border
// @timeout 600
// @fn szx::process_spcr_block; ZXController::write_fe; ZXController::set_border_color; ZXBorder::set_border
// @sym chBorder 0..7, chFe (all 256, colour bits not assumed equal to chBorder), 7FFD byte; receiver border colour, frame clock; both machines
// @assert after the SPCR chunk the colour the border device paints from the current beam position onwards is the chunk's border - the same colour that is reported to the host - so a write-free frame after the load shows the snapshot's border everywhere (was KF-C09-1)
// @bound one chunk per machine
// @stub ZXBorder::fill_to -> range summary (justified by c09_fill_range; the painted range is not the subject here)
// @replay solver-only
#[cfg(feature = "precise-border")]
#[kani::proof]
#[kani::unwind(10)]
#[kani::stub(crate::zx::video::border::ZXBorder::fill_to, crate::zx::video::border::verif_hooks::fill_to_summary)]
fn c09_szx_border_reaches_the_border_device() {
    use crate::zx::video::border::verif_hooks::device_colour;
    let border: u8 = kani::any();
    kani::assume(border <= 7);
    let fe: u8 = kani::any();
    let body = spec_spcr(border, kani::any(), kani::any(), fe, kani::any());
    let fc: usize = kani::any();
    kani::assume(fc < 69888);
    let mut e = mk_emulator(ZXMachine::Sinclair128K, CTX);
    controller(&mut e).set_border_color(0, crate::verif_hooks::any_color());
    controller(&mut e).frame_clocks = fc;
    let r = process_spcr_block(&mut e, 2, &body);
    kani::assert(r.is_ok(), "c09.szx.spcr_accepted_128");
    let c = controller(&mut e);
    kani::assert(u8::from(c.border_color) == border, "c09.szx.reported_border_128");
    kani::assert(device_colour(&c.border) == border, "c09.szx.device_paints_snapshot_border_128");
    let mut e = mk_emulator(ZXMachine::Sinclair48K, CTX);
    controller(&mut e).set_border_color(0, crate::verif_hooks::any_color());
    controller(&mut e).frame_clocks = fc;
    let r = process_spcr_block(&mut e, 1, &body);
    kani::assert(r.is_ok(), "c09.szx.spcr_accepted_48");
    let c = controller(&mut e);
    kani::assert(u8::from(c.border_color) == border, "c09.szx.reported_border_48");
    kani::assert(device_colour(&c.border) == border, "c09.szx.device_paints_snapshot_border_48");
    kani::cover!(fe & 7 != border, "chFe colour bits differ from chBorder");
    kani::cover!(fe & 7 == border && fc > 20000, "consistent chunk in mid frame");
}

// @harness
// @prop C14
// @tier quick
// @timeout 600
// @fn szx::process_spcr_block; ZXController::restore_7ffd
// @sym SPCR bytes; receiver latch with the lock bit set
// @assert a 128K SPCR chunk applied to a machine whose paging is locked installs the chunk's latch, lock bit and bank (was KF-C14-2)
// @bound one chunk
// @assume receiver paging locked (sub-region of c14_szx_spcr, kept as focused witness)
#[kani::proof]
#[kani::unwind(10)]
fn c14_szx_spcr_into_locked_machine() {
    let p7: u8 = kani::any();
    let body = spec_spcr(0, p7, 0, 0, [0; 4]);
    let mut e = mk_emulator(ZXMachine::Sinclair128K, CTX);
    let l0: u8 = kani::any();
    kani::assume(l0 & 0x20 != 0 && l0 != p7);
    controller(&mut e).write_7ffd(l0);
    let r = process_spcr_block(&mut e, 2, &body);
    kani::assert(r.is_ok(), "c14.szx.spcr.accepted");
    kani::assert(controller(&mut e).read_7ffd() == p7, "c14.szx.spcr.latch");
    kani::assert(ch::paging_enabled(controller(&mut e)) == (p7 & 0x20 == 0), "c14.szx.spcr.lock");
    kani::assert(controller(&mut e).memory.get_page(0xC000) == Page::Ram(p7 & 7), "c14.szx.spcr.map_c000");
    kani::cover!(p7 == 0x04, "unlocking chunk");
}

// @harness
// @prop C14
// @tier quick
// @timeout 600
// @fn szx::process_z80r_block; szx::process_spcr_block
// @sym Z80R fields, SPCR bytes (border 0..7), 128K
// @assert applying Z80R then SPCR or SPCR then Z80R gives the same registers, flags, border, latch, lock, map and frame clock ("chunks in any order")
// @bound two chunks, 128K, both orders
#[kani::proof]
#[kani::unwind(40)]
fn c14_szx_z80r_spcr_commute() {
    let z = any_zabs();
    let zb = spec_z80r(&z, 1);
    let border: u8 = kani::any();
    kani::assume(border <= 7);
    let p7: u8 = kani::any();
    let sb = spec_spcr(border, p7, 0, kani::any(), [0; 4]);
    let mut e1 = mk_emulator(ZXMachine::Sinclair128K, CTX);
    let mut e2 = mk_emulator(ZXMachine::Sinclair128K, CTX);
    let _ = process_z80r_block(&mut e1, &zb);
    let _ = process_spcr_block(&mut e1, 2, &sb);
    let _ = process_spcr_block(&mut e2, 2, &sb);
    let _ = process_z80r_block(&mut e2, &zb);
    check_z80r_regs(&mut e1, &z);
    check_z80r_regs(&mut e2, &z);
    kani::assert(cpu(&mut e1).regs.get_pc() == cpu(&mut e2).regs.get_pc(), "c14.szx.order.pc");
    let (c1, c2) = (controller(&mut e1).read_7ffd(), controller(&mut e2).read_7ffd());
    kani::assert(c1 == c2 && c1 == p7, "c14.szx.order.latch");
    kani::assert(u8::from(e1.border_color()) == border && u8::from(e2.border_color()) == border, "c14.szx.order.border");
    kani::assert(controller(&mut e1).memory.get_page(0xC000) == controller(&mut e2).memory.get_page(0xC000), "c14.szx.order.map");
    kani::assert(controller(&mut e1).frame_clocks == controller(&mut e2).frame_clocks, "c14.szx.order.frame_clock");
    kani::cover!(z.eilast && p7 == 0x11, "reached with free fields");
}

// @harness
// @prop C14
// @tier quick
// @timeout 600
// @fn szx::process_z80r_block; szx::process_spcr_block; ZXController::write_fe
// @sym Z80R fields, SPCR bytes, 48K
// @assert the T-state position inside the frame after loading is the chunk's dwCyclesStart whether Z80R precedes SPCR or follows it (was KF-C14-6)
// @bound two chunks, both orders
#[kani::proof]
#[kani::unwind(40)]
fn c14_szx_chunk_order_keeps_clock() {
    let z = any_zabs();
    let zb = spec_z80r(&z, 1);
    let sb = spec_spcr(0, 0, 0, kani::any(), [0; 4]);
    let mut e1 = mk_emulator(ZXMachine::Sinclair48K, CTX);
    let mut e2 = mk_emulator(ZXMachine::Sinclair48K, CTX);
    let _ = process_z80r_block(&mut e1, &zb);
    let _ = process_spcr_block(&mut e1, 1, &sb);
    let _ = process_spcr_block(&mut e2, 1, &sb);
    let _ = process_z80r_block(&mut e2, &zb);
    kani::assert(controller(&mut e1).frame_clocks == controller(&mut e2).frame_clocks, "c14.szx.order.frame_clock");
    kani::assert(controller(&mut e1).frame_clocks == z.cycles as usize, "c14.szx.z80r.frame_clock_is_chunk_value");
    kani::cover!(z.cycles == 14340, "reached inside the contended part of the frame");
}

// ------------------------------------------------------------------------------------------------
// C14 / AMXM, KEYB
// ------------------------------------------------------------------------------------------------

// @harness
// @prop C14
// @tier quick
// @timeout 300
// @fn szx::process_amxm_block; szx::process_keyb_block
// @sym mouse type 0..2, control bytes; receiver with or without a mouse; KEYB bytes
// @assert both chunks are accepted; Kempston mouse present afterwards iff the chunk type is 2 (Kempston), independent of the receiver; KEYB leaves mouse presence alone
// @bound one AMXM chunk then one KEYB chunk, 48K
#[kani::proof]
#[kani::unwind(10)]
fn c14_szx_amxm_mouse_presence() {
    let ty: u8 = kani::any();
    kani::assume(ty <= 2);
    let body: [u8; 7] = [ty, kani::any(), kani::any(), kani::any(), kani::any(), kani::any(), kani::any()];
    let mut s = crate::emulator::verif_hooks::mk_settings(ZXMachine::Sinclair48K);
    s.mouse_enabled = kani::any();
    s.kempston_enabled = kani::any();
    let mut e = crate::emulator::verif_hooks::mk_emulator_with(s, CTX);
    let r = process_amxm_block(&mut e, &body);
    kani::assert(r.is_ok(), "c14.szx.amxm.accepted");
    kani::assert(controller(&mut e).mouse.is_some() == (ty == 2), "c14.szx.amxm.mouse_presence");
    let kb: [u8; 5] = kani::any();
    let r = process_keyb_block(&mut e, &kb);
    kani::assert(r.is_ok(), "c14.szx.keyb.accepted");
    kani::assert(controller(&mut e).mouse.is_some() == (ty == 2), "c14.szx.keyb.leaves_mouse");
    kani::cover!(ty == 2, "kempston mouse");
    kani::cover!(ty == 1, "AMX mouse (unsupported -> none)");
}

// ------------------------------------------------------------------------------------------------
// C14 / RAMP (stored pages; zlib pages are outside reach)
// ------------------------------------------------------------------------------------------------

/// one stored RAMP chunk for the shortened page: flags, page number, SHORT_PAGE data bytes
fn spec_ramp_stored(page_no: u8, data: [u8; SHORT_PAGE], flag_junk: u16) -> [u8; 3 + SHORT_PAGE] {
    let mut b = [0u8; 3 + SHORT_PAGE];
    let flags = flag_junk & !1;
    b[0] = flags as u8;
    b[1] = (flags >> 8) as u8;
    b[2] = page_no;
    let mut i = 0;
    while i < SHORT_PAGE {
        b[3 + i] = data[i];
        i += 1;
    }
    b
}

fn c14_ramp_body(machine: ZXMachine, machine_id: u32, page_no: u8, bank: u8, cpu_base: Option<u16>) {
    let data: [u8; SHORT_PAGE] = kani::any();
    let body = spec_ramp_stored(page_no, data, kani::any());
    let mut e = mk_emulator(machine, CTX);
    controller(&mut e).memory.ram_page_data_mut(bank)[0] = kani::any();
    let r = process_ramp_block(&mut e, machine_id, &body);
    kani::assert(r.is_ok(), "c14.szx.ramp.accepted");
    let mut w = 0;
    while w < SHORT_PAGE {
        kani::assert(controller(&mut e).memory.ram_page_data(bank)[w] == data[w], "c14.szx.ramp.ram_witness");
        if let Some(a) = cpu_base {
            kani::assert(e.peek(a + w as u16) == data[w], "c14.szx.ramp.ram_witness_cpu_view");
        }
        w += 1;
    }
}

// @harness
// @prop C14
// @tier quick
// @timeout 900
// @fn szx::process_ramp_block
// @sym the first 8 data bytes of the page, undefined flag bits; 128K bank enumerated 0..7, 48K pages 5, 2, 0
// @assert a stored page lands where the file says: 48K file: page 5 -> 4000, 2 -> 8000, 0 -> C000 (seen through the CPU map); 128K file: page n -> bank n (5, 2, 0 also through the CPU map); data byte k of the chunk is byte k of the page
// @bound eleven chunks; page size abstracted to 8 bytes by the stub (the real 16384-byte copy through the chunk buffer exhausts CBMC at 10 GB)
// @stub ZXMemory::ram_page_data_mut -> same existence check, slice shortened to the first 8 bytes of the page
// @outside zlib-compressed pages (miniz_oxide inflate over a symbolic stream is out of reach); bytes 8..16383 of a page (slice copy, no per-offset logic)
// @replay solver-only
#[kani::proof]
#[kani::unwind(10)]
#[kani::stub(crate::zx::memory::ZXMemory::ram_page_data_mut, crate::zx::memory::verif_hooks::short_ram_page_data_mut)]
fn c14_szx_ramp_stored_pages() {
    c14_ramp_body(ZXMachine::Sinclair48K, 1, 5, 0, Some(0x4000));
    c14_ramp_body(ZXMachine::Sinclair48K, 1, 2, 1, Some(0x8000));
    c14_ramp_body(ZXMachine::Sinclair48K, 0, 0, 2, Some(0xC000));
    c14_ramp_body(ZXMachine::Sinclair128K, 2, 0, 0, Some(0xC000));
    c14_ramp_body(ZXMachine::Sinclair128K, 2, 1, 1, None);
    c14_ramp_body(ZXMachine::Sinclair128K, 2, 2, 2, Some(0x8000));
    c14_ramp_body(ZXMachine::Sinclair128K, 2, 3, 3, None);
    c14_ramp_body(ZXMachine::Sinclair128K, 2, 4, 4, None);
    c14_ramp_body(ZXMachine::Sinclair128K, 2, 5, 5, Some(0x4000));
    c14_ramp_body(ZXMachine::Sinclair128K, 2, 6, 6, None);
    c14_ramp_body(ZXMachine::Sinclair128K, 2, 7, 7, None);
    kani::cover!(true, "eleven pages placed");
}

// @harness
// @prop C14
// @tier quick
// @timeout 600
// @fn szx::process_ramp_block
// @sym page number, data
// @assert without the zlib feature a compressed page is refused with Err(ZlibNotSupported)
// @bound one chunk of 3..40 bytes for each of the 48K file's pages 5, 2, 0
// @outside builds with feature zlib (inflate is out of reach)
#[kani::proof]
#[kani::unwind(10)]
fn c14_szx_ramp_compressed_refused_without_zlib() {
    let pages: [u8; 3] = [5, 2, 0];
    let mut i = 0;
    while i < 3 {
        let mut data: [u8; 40] = kani::any();
        let len: usize = kani::any();
        kani::assume(len >= 3 && len <= 40);
        kani::assume(data[0] & 1 == 1);
        data[2] = pages[i];
        let mut e = mk_emulator(ZXMachine::Sinclair48K, CTX);
        let r = process_ramp_block(&mut e, 1, &data[..len]);
        kani::assert(matches!(r, Err(Error::SnapshotLoad(SnapshotLoadError::ZlibNotSupported))), "c14.szx.ramp.compressed_refused");
        kani::cover!(len == 3, "shortest chunk");
        i += 1;
    }
}

// ================================================================================================
// C15 / chunk processors on 0..40 arbitrary bytes
// (the regions that panicked before fixes c28aa59, a0baa7b, 5aafad8, e2ae34c, 8db987c are part of
// the main harnesses now; the former witnesses are kept as focused sub-region harnesses)
// ================================================================================================

/// replaces `core::str::from_utf8` where the harness restricts the bytes to ASCII or to one byte
/// that can never occur in UTF-8: exact on that domain (the real validator's word-at-a-time
/// fast path does not finish under CBMC)
fn ascii_only_from_utf8(v: &[u8]) -> core::result::Result<&str, core::str::Utf8Error> {
    let mut i = 0;
    while i < v.len() {
        if v[i] >= 0x80 {
            let mut bad = [0xFFu8];
            return match core::str::from_utf8_mut(&mut bad) {
                Err(e) => Err(e),
                Ok(_) => unreachable!(),
            };
        }
        i += 1;
    }
    Ok(unsafe { core::str::from_utf8_unchecked(v) })
}

fn any_chunk() -> ([u8; 40], usize) {
    let data: [u8; 40] = kani::any();
    let len: usize = kani::any();
    kani::assume(len <= 40);
    (data, len)
}

fn is_invalid_szx(r: &Result<()>) -> bool {
    matches!(r, Err(Error::SnapshotLoad(SnapshotLoadError::InvalidSZXFile)))
}

// @harness
// @prop C15
// @tier quick
// @timeout 600
// @fn szx::process_z80r_block; szx::ensure_block_size; Z80::set_im
// @sym chunk bytes 0..40 long, all values; both machines; receiver PC/HL/halted
// @assert no panic / overflow (Kani checks); Ok exactly when the chunk has at least 37 bytes and the IM byte is 0..2, otherwise Err(InvalidSZXFile) with the CPU untouched
// @bound one chunk per machine
#[kani::proof]
#[kani::unwind(10)]
fn c15_szx_z80r_total() {
    let (data, len) = any_chunk();
    let good = len >= 37 && data[28] <= 2;
    let m = [ZXMachine::Sinclair48K, ZXMachine::Sinclair128K];
    let mut i = 0;
    while i < 2 {
        let mut e = mk_emulator(m[i], CTX);
        let (pc, hl, halted): (u16, u16, bool) = (kani::any(), kani::any(), kani::any());
        cpu(&mut e).regs.set_pc(pc);
        cpu(&mut e).regs.set_hl(hl);
        cpu(&mut e).halted = halted;
        let r = process_z80r_block(&mut e, &data[..len]);
        kani::assert(r.is_ok() == good, "c15.szx.z80r.ok_iff_long_enough_and_im_valid");
        if !good {
            kani::assert(is_invalid_szx(&r), "c15.szx.z80r.err_kind");
            let c = cpu(&mut e);
            kani::assert(c.regs.get_pc() == pc && c.regs.get_hl() == hl && c.halted == halted, "c15.szx.z80r.rejected_chunk_changes_nothing");
        }
        i += 1;
    }
    kani::cover!(len == 40 && data[34] == 0xFF && good, "longest chunk, all flags");
    kani::cover!(len == 37 && good, "exact chunk");
    kani::cover!(len == 36, "one byte short");
    kani::cover!(len >= 37 && data[28] == 3, "interrupt mode 3");
}

// @harness
// @prop C15
// @tier quick
// @timeout 600
// @fn szx::process_z80r_block
// @sym chunk bytes, length 0..36
// @assert a Z80R chunk shorter than 37 bytes is Err(InvalidSZXFile), no panic (was KF-C15-3)
// @bound one chunk
// @assume length < 37 (sub-region of c15_szx_z80r_total)
#[kani::proof]
#[kani::unwind(10)]
fn c15_szx_z80r_short_chunk_is_err() {
    let (data, len) = any_chunk();
    kani::assume(len < 37);
    let mut e = mk_emulator(ZXMachine::Sinclair48K, CTX);
    let r = process_z80r_block(&mut e, &data[..len]);
    kani::assert(is_invalid_szx(&r), "c15.szx.z80r.short_is_err");
    kani::cover!(len == 0, "empty chunk");
}

// @harness
// @prop C15
// @tier quick
// @timeout 600
// @fn szx::process_z80r_block; Z80::set_im
// @sym chunk bytes, IM byte >= 3
// @assert a full-length Z80R chunk with an interrupt-mode byte outside 0..2 is Err(InvalidSZXFile), no panic (was KF-C15-4)
// @bound one chunk
// @assume IM byte >= 3 (sub-region of c15_szx_z80r_total)
#[kani::proof]
#[kani::unwind(10)]
fn c15_szx_z80r_im_byte_is_err() {
    let (data, len) = any_chunk();
    kani::assume(len >= 37 && data[28] >= 3);
    let mut e = mk_emulator(ZXMachine::Sinclair48K, CTX);
    let r = process_z80r_block(&mut e, &data[..len]);
    kani::assert(is_invalid_szx(&r), "c15.szx.z80r.im_is_err");
    kani::cover!(data[28] == 0xFF, "reached");
}

// @harness
// @prop C15
// @tier quick
// @timeout 600
// @fn szx::process_spcr_block; ZXController::restore_7ffd; ZXController::write_fe; ZXColor::from_bits
// @sym chunk bytes 0..40 long (any border byte), machine id byte 0..2 matching the machine (the walker refuses the rest), both machines; receiver frame clock anywhere in the frame
// @assert no panic / overflow; Ok exactly when the chunk has at least 8 bytes, otherwise Err(InvalidSZXFile); border afterwards = low three bits of the border byte; memory map afterwards names existing pages; frame clock untouched
// @bound one chunk per machine
#[kani::proof]
#[kani::unwind(10)]
fn c15_szx_spcr_total() {
    let (data, len) = any_chunk();
    let id48: u32 = kani::any();
    kani::assume(id48 <= 1);
    let fc: usize = kani::any();
    kani::assume(fc < 69888);
    let mut e = mk_emulator(ZXMachine::Sinclair48K, CTX);
    controller(&mut e).frame_clocks = fc;
    let r = process_spcr_block(&mut e, id48, &data[..len]);
    kani::assert(r.is_ok() == (len >= 8), "c15.szx.spcr.ok_iff_long_enough_48");
    kani::assert(controller(&mut e).memory.get_page(0xC000) == Page::Ram(2), "c15.szx.spcr.map_48");
    kani::assert(controller(&mut e).frame_clocks == fc, "c15.szx.spcr.frame_clock_48");
    if len >= 8 {
        kani::assert(u8::from(controller(&mut e).border_color) == data[0] & 7, "c15.szx.spcr.border_masked");
    }
    let mut e = mk_emulator(ZXMachine::Sinclair128K, CTX);
    controller(&mut e).frame_clocks = fc;
    let r = process_spcr_block(&mut e, 2, &data[..len]);
    kani::assert(r.is_ok() == (len >= 8), "c15.szx.spcr.ok_iff_long_enough_128");
    if len < 8 {
        kani::assert(is_invalid_szx(&r), "c15.szx.spcr.err_kind");
    }
    let ok = match controller(&mut e).memory.get_page(0xC000) {
        Page::Ram(p) => p < 8,
        Page::Rom(_) => false,
    };
    kani::assert(ok, "c15.szx.spcr.map_128");
    kani::cover!(len == 8 && data[1] == 0xFF && data[0] == 0xFF, "shortest chunk, all latch and border bits");
    kani::cover!(len == 7, "one byte short");
}

// @harness
// @prop C15
// @tier quick
// @timeout 600
// @fn szx::process_spcr_block
// @sym chunk bytes, length 0..7
// @assert an SPCR chunk shorter than 8 bytes is Err(InvalidSZXFile), no panic (was KF-C15-3)
// @bound one chunk
// @assume length < 8
#[kani::proof]
#[kani::unwind(10)]
fn c15_szx_spcr_short_chunk_is_err() {
    let (data, len) = any_chunk();
    kani::assume(len < 8);
    let mut e = mk_emulator(ZXMachine::Sinclair128K, CTX);
    let r = process_spcr_block(&mut e, 2, &data[..len]);
    kani::assert(is_invalid_szx(&r), "c15.szx.spcr.short_is_err");
    kani::assert(controller(&mut e).read_7ffd() == 0, "c15.szx.spcr.rejected_chunk_changes_nothing");
    kani::cover!(len == 3, "reached");
}

// @harness
// @prop C15
// @tier quick
// @timeout 600
// @fn szx::process_spcr_block; ZXColor::from_bits
// @sym chunk bytes, border byte >= 8
// @assert an SPCR chunk whose border byte is outside 0..7 is applied with the colour masked to three bits, no panic (was KF-C15-5)
// @bound one chunk
// @assume border byte > 7 (sub-region of c15_szx_spcr_total)
#[kani::proof]
#[kani::unwind(10)]
fn c15_szx_spcr_border_byte_masked() {
    let (data, len) = any_chunk();
    kani::assume(len >= 8 && data[0] > 7);
    let mut e = mk_emulator(ZXMachine::Sinclair48K, CTX);
    let r = process_spcr_block(&mut e, 1, &data[..len]);
    kani::assert(r.is_ok(), "c15.szx.spcr.accepted");
    kani::assert(u8::from(e.border_color()) == data[0] & 7, "c15.szx.spcr.border_masked");
    kani::cover!(data[0] == 0xFF, "reached");
}

// @harness
// @prop C15
// @tier quick
// @timeout 600
// @fn szx::process_keyb_block; szx::process_amxm_block
// @sym chunk bytes, length 0..40
// @assert no panic / overflow; KEYB is Ok exactly from 5 bytes, AMXM exactly from 7 bytes, shorter ones Err(InvalidSZXFile) leaving joystick / mouse presence alone
// @bound one chunk each
#[kani::proof]
#[kani::unwind(10)]
fn c15_szx_keyb_amxm_total() {
    let (data, len) = any_chunk();
    let mut s = crate::emulator::verif_hooks::mk_settings(ZXMachine::Sinclair48K);
    s.mouse_enabled = true;
    s.kempston_enabled = true;
    let mut e = crate::emulator::verif_hooks::mk_emulator_with(s, CTX);
    let r = process_keyb_block(&mut e, &data[..len]);
    kani::assert(r.is_ok() == (len >= 5), "c15.szx.keyb.ok_iff_long_enough");
    if len < 5 {
        kani::assert(is_invalid_szx(&r) && controller(&mut e).kempston.is_some(), "c15.szx.keyb.rejected_changes_nothing");
    }
    let r = process_amxm_block(&mut e, &data[..len]);
    kani::assert(r.is_ok() == (len >= 7), "c15.szx.amxm.ok_iff_long_enough");
    if len < 7 {
        kani::assert(is_invalid_szx(&r) && controller(&mut e).mouse.is_some(), "c15.szx.amxm.rejected_changes_nothing");
    }
    kani::cover!(len == 6, "KEYB ok, AMXM short");
    kani::cover!(len == 7 && data[4] == 1 && data[0] == 2, "both applied");
}

// @harness
// @prop C15
// @tier quick
// @timeout 600
// @fn szx::process_keyb_block; szx::process_amxm_block
// @sym chunk bytes, length 0..4
// @assert short KEYB / AMXM chunks are Err(InvalidSZXFile), no panic (was KF-C15-3)
// @bound one chunk each
// @assume length < 5
#[kani::proof]
#[kani::unwind(10)]
fn c15_szx_keyb_amxm_short_chunk_is_err() {
    let (data, len) = any_chunk();
    kani::assume(len < 5);
    let mut e = mk_emulator(ZXMachine::Sinclair48K, CTX);
    let r1 = process_keyb_block(&mut e, &data[..len]);
    let r2 = process_amxm_block(&mut e, &data[..len]);
    kani::assert(is_invalid_szx(&r1) && is_invalid_szx(&r2), "c15.szx.keyb_amxm.short_is_err");
    kani::cover!(len == 0, "empty chunk");
}

fn assume_name_in_stub_domain(data: &[u8; 40]) {
    let mut i = 0;
    while i < 33 {
        kani::assume(data[i] < 0x80 || data[i] >= 0xF8);
        i += 1;
    }
}

// @harness
// @prop C15
// @tier quick
// @timeout 900
// @fn szx::process_crtr_block; core::str::from_utf8
// @sym chunk bytes 0..40 long; each of the 33 creator-name bytes is 7-bit ASCII or a byte that never occurs in UTF-8 (0xF8..0xFF)
// @assert no panic / overflow for short chunks and for names that are not UTF-8 (the chunk carries nothing rustzx uses; it is ignored)
// @bound one chunk
// @stub core::str::from_utf8 -> ASCII-only validator (exact on the harness domain)
// @replay solver-only
#[kani::proof]
#[kani::unwind(42)]
#[kani::stub(core::str::from_utf8, ascii_only_from_utf8)]
fn c15_szx_crtr_total() {
    let (data, len) = any_chunk();
    assume_name_in_stub_domain(&data);
    let mut e = mk_emulator(ZXMachine::Sinclair48K, CTX);
    process_crtr_block(&mut e, &data[..len]);
    kani::cover!(len == 37 && data[0] == 0xFF, "exact chunk with a non-UTF-8 name");
    kani::cover!(len == 36, "one byte short");
}

// @harness
// @prop C15
// @tier quick
// @timeout 900
// @fn szx::process_crtr_block
// @sym chunk bytes, length 0..36
// @assert a CRTR chunk shorter than 37 bytes does not panic (was KF-C15-3)
// @bound one chunk
// @assume length < 37
// @stub core::str::from_utf8 -> ASCII-only validator
// @replay solver-only
#[kani::proof]
#[kani::unwind(42)]
#[kani::stub(core::str::from_utf8, ascii_only_from_utf8)]
fn c15_szx_crtr_short_chunk_ignored() {
    let (data, len) = any_chunk();
    kani::assume(len < 37);
    assume_name_in_stub_domain(&data);
    let mut e = mk_emulator(ZXMachine::Sinclair48K, CTX);
    process_crtr_block(&mut e, &data[..len]);
    kani::cover!(len == 33, "name present, version fields cut");
}

// @harness
// @prop C15
// @tier quick
// @timeout 900
// @fn szx::process_crtr_block; core::str::from_utf8
// @sym first name byte in 0x80..0xBF or 0xF8..0xFF (never valid as the first byte of a UTF-8 sequence), rest 'A'
// @assert a CRTR chunk whose creator name is not UTF-8 does not panic (was KF-C15-6)
// @bound one chunk of 37 bytes
// @stub core::str::from_utf8 -> ASCII-only validator
// @replay solver-only
#[kani::proof]
#[kani::unwind(42)]
#[kani::stub(core::str::from_utf8, ascii_only_from_utf8)]
fn c15_szx_crtr_name_not_utf8_ignored() {
    let mut data = [0x41u8; 37];
    let b: u8 = kani::any();
    kani::assume((b >= 0x80 && b <= 0xBF) || b >= 0xF8);
    data[0] = b;
    let mut e = mk_emulator(ZXMachine::Sinclair48K, CTX);
    process_crtr_block(&mut e, &data);
    kani::cover!(b == 0x80, "reached");
}

/// page the format assigns on a machine with `ram_pages` RAM pages, None = the machine has no such page
fn spec_ramp_target(id: u32, page: u8) -> Option<u8> {
    if id < 2 {
        match page {
            5 => Some(0),
            2 => Some(1),
            0 => Some(2),
            _ => None,
        }
    } else if page < 8 {
        Some(page)
    } else {
        None
    }
}

// @harness
// @prop C15
// @tier quick
// @timeout 600
// @fn szx::process_ramp_block; ZXMemory::ram_page_data_mut
// @sym chunk bytes 0..40 long, any flags, any page number; machine id 0..1 on the 48K machine, 2 on the 128K machine (szx::load refuses other combinations before any chunk, see c14_szx_other_model_rejected)
// @assert no panic / overflow; always Err for chunks this short: InvalidSZXFile when the header is cut, the page does not exist on the machine (was KF-C15-7) or stored data is shorter than a page (was KF-C15-3); ZlibNotSupported for a compressed page of an existing page number (no zlib in this build)
// @bound one chunk per machine
// @outside builds with feature zlib
#[kani::proof]
#[kani::unwind(10)]
fn c15_szx_ramp_small_total() {
    let (data, len) = any_chunk();
    let id48: u32 = kani::any();
    kani::assume(id48 <= 1);
    let mut k = 0;
    while k < 2 {
        let (machine, id) = if k == 0 { (ZXMachine::Sinclair48K, id48) } else { (ZXMachine::Sinclair128K, 2) };
        let mut e = mk_emulator(machine, CTX);
        let r = process_ramp_block(&mut e, id, &data[..len]);
        kani::assert(r.is_err(), "c15.szx.ramp.short_chunk_is_err");
        if len < 3 || spec_ramp_target(id, data[2]).is_none() || data[0] & 1 == 0 {
            kani::assert(is_invalid_szx(&r), "c15.szx.ramp.invalid_is_invalid_szx");
        } else {
            kani::assert(matches!(r, Err(Error::SnapshotLoad(SnapshotLoadError::ZlibNotSupported))), "c15.szx.ramp.compressed_without_zlib");
        }
        k += 1;
    }
    kani::cover!(len == 3 && data[2] == 7 && data[0] & 1 == 1, "bank 7, shortest chunk");
    kani::cover!(len >= 3 && data[2] == 1 && id48 == 1, "page 1 in a 48K file");
    kani::cover!(len == 2, "header cut");
}

// @harness
// @prop C15
// @tier quick
// @timeout 600
// @fn szx::process_ramp_block
// @sym chunk bytes 0..40 long, stored (uncompressed) flag or length < 3
// @assert a RAMP chunk that is too short (header cut, or stored data shorter than 16384 bytes) is Err(InvalidSZXFile), no panic (was KF-C15-3)
// @bound one chunk, 128K machine, page number valid
// @assume length < 3, or compressed flag clear
#[kani::proof]
#[kani::unwind(10)]
fn c15_szx_ramp_short_chunk_is_err() {
    let (data, len) = any_chunk();
    kani::assume(len < 3 || (data[0] & 1 == 0 && data[2] < 8));
    let mut e = mk_emulator(ZXMachine::Sinclair128K, CTX);
    let r = process_ramp_block(&mut e, 2, &data[..len]);
    kani::assert(is_invalid_szx(&r), "c15.szx.ramp.short_is_err");
    kani::cover!(len == 40, "stored page with 37 data bytes");
}

// @harness
// @prop C15
// @tier quick
// @timeout 600
// @fn szx::process_ramp_block; ZXMemory::ram_page_data_mut
// @sym page number not present on the machine (>= 8 on 128K; anything but 5, 2, 0 on 48K), other bytes
// @assert a RAMP chunk naming a RAM page the machine does not have is Err(InvalidSZXFile), no panic (was KF-C15-7)
// @bound one chunk
// @assume page number out of range (sub-region of c15_szx_ramp_small_total)
#[kani::proof]
#[kani::unwind(10)]
fn c15_szx_ramp_bad_page_is_err() {
    let (data, len) = any_chunk();
    kani::assume(len >= 3);
    let r = if kani::any() {
        kani::assume(data[2] >= 8);
        let mut e = mk_emulator(ZXMachine::Sinclair128K, CTX);
        process_ramp_block(&mut e, 2, &data[..len])
    } else {
        kani::assume(data[2] != 0 && data[2] != 2 && data[2] != 5);
        let mut e = mk_emulator(ZXMachine::Sinclair48K, CTX);
        process_ramp_block(&mut e, 1, &data[..len])
    };
    kani::assert(is_invalid_szx(&r), "c15.szx.ramp.bad_page_is_err");
    kani::cover!(data[2] == 1, "page 1 offered to a 48K machine");
}

// ================================================================================================
// C13 / SZX save
// ================================================================================================

// @harness
// @prop C13
// @tier quick
// @timeout 300
// @fn szx::save; Emulator::save_snapshot
// @sym registers
// @assert saving as SZX is refused with SnapshotSaveError::NotSupported, writes nothing and leaves the registers alone (outside the SNA round trip by design)
// @bound one call
#[kani::proof]
#[kani::unwind(10)]
fn c13_szx_save_not_supported() {
    let mut e = mk_emulator(ZXMachine::Sinclair48K, CTX);
    let hl: u16 = kani::any();
    cpu(&mut e).regs.set_hl(hl);
    let mut rec = SparseRecorder::new(NO_WITNESS);
    let r = e.save_snapshot(crate::host::SnapshotRecorder::Szx(&mut rec));
    kani::assert(matches!(r, Err(Error::SnapshotSave(SnapshotSaveError::NotSupported))), "c13.szx.save_not_supported");
    kani::assert(rec.len == 0 && cpu(&mut e).regs.get_hl() == hl, "c13.szx.save_no_effect");
    kani::cover!(true, "reached");
}

// ================================================================================================
// chunk walker (szx::load) with the chunk processors replaced by call recorders
// ================================================================================================

/// Ordinary small file (<= 48 bytes) with optional fault injection; remembers the largest read
/// request, which for `szx::load` is the size of the chunk buffer it has just allocated.
pub(crate) struct SmallAsset {
    pub data: [u8; 48],
    pub len: usize,
    pub pos: usize,
    pub fault: Fault,
    pub calls: u8,
    pub fault_hit: bool,
    pub max_req: usize,
    /// a request larger than a chunk header (i.e. a freshly allocated chunk buffer) exceeded the
    /// bytes left in the file at that moment
    pub over_remaining: bool,
}

impl SmallAsset {
    fn new(data: [u8; 48], len: usize) -> Self {
        SmallAsset { data, len, pos: 0, fault: FAULT_NONE, calls: 0, fault_hit: false, max_req: 0, over_remaining: false }
    }
    fn tick(&mut self) -> bool {
        let idx = self.calls;
        self.calls = self.calls.saturating_add(1);
        if self.fault.at != NO_FAULT && idx == self.fault.at {
            self.fault_hit = true;
            true
        } else {
            false
        }
    }
}

impl LoadableAsset for &mut SmallAsset {
    fn read(&mut self, buf: &mut [u8]) -> core::result::Result<usize, IoError> {
        if buf.len() > self.max_req {
            self.max_req = buf.len();
        }
        if buf.len() > 8 && buf.len() > self.len.saturating_sub(self.pos) {
            self.over_remaining = true;
        }
        let faulty = self.tick();
        if faulty && self.fault.kind == 0 {
            return Err(IoError::HostAssetImplFailed);
        }
        if self.pos >= self.len || buf.is_empty() || (faulty && self.fault.kind == 2) {
            return Ok(0);
        }
        let mut n = buf.len().min(self.len - self.pos);
        if faulty && self.fault.kind == 1 && self.fault.n > 0 && self.fault.n < n {
            n = self.fault.n;
        }
        let mut i = 0;
        while i < 48 && i < n {
            buf[i] = self.data[self.pos + i];
            i += 1;
        }
        self.pos += n;
        Ok(n)
    }
}

impl SeekableAsset for &mut SmallAsset {
    fn seek(&mut self, pos: SeekFrom) -> core::result::Result<usize, IoError> {
        if self.tick() {
            return Err(IoError::HostAssetImplFailed);
        }
        let new_pos: i128 = match pos {
            SeekFrom::Start(p) => p as i128,
            SeekFrom::End(d) => self.len as i128 + d as i128,
            SeekFrom::Current(d) => self.pos as i128 + d as i128,
        };
        if new_pos < 0 {
            return Err(IoError::SeekBeforeStart);
        }
        self.pos = new_pos as usize;
        Ok(self.pos)
    }
}

#[derive(Clone, Copy, PartialEq, Eq)]
struct Call {
    which: u8,
    mid: u32,
    len: usize,
    first: u8,
}
const NOCALL: Call = Call { which: 0, mid: 0, len: 0, first: 0 };
static mut CALLS: [Call; 4] = [NOCALL; 4];
static mut NCALLS: usize = 0;
const NO_MID: u32 = 0xFFFF;

fn rec(which: u8, mid: u32, d: &[u8]) {
    unsafe {
        if NCALLS < 4 {
            CALLS[NCALLS] = Call { which, mid, len: d.len(), first: if d.is_empty() { 0 } else { d[0] } };
        }
        NCALLS += 1;
    }
}
fn reset_calls() {
    unsafe {
        NCALLS = 0;
        CALLS = [NOCALL; 4];
    }
}
fn stub_crtr<H: Host>(_: &mut Emulator<H>, d: &[u8]) {
    rec(1, NO_MID, d)
}
fn stub_z80r<H: Host>(_: &mut Emulator<H>, d: &[u8]) -> Result<()> {
    rec(2, NO_MID, d);
    Ok(())
}
fn stub_spcr<H: Host>(_: &mut Emulator<H>, mid: u32, d: &[u8]) -> Result<()> {
    rec(3, mid, d);
    Ok(())
}
fn stub_keyb<H: Host>(_: &mut Emulator<H>, d: &[u8]) -> Result<()> {
    rec(4, NO_MID, d);
    Ok(())
}
fn stub_amxm<H: Host>(_: &mut Emulator<H>, d: &[u8]) -> Result<()> {
    rec(5, NO_MID, d);
    Ok(())
}
fn stub_ramp<H: Host>(_: &mut Emulator<H>, mid: u32, d: &[u8]) -> Result<()> {
    rec(6, mid, d);
    Ok(())
}

/// processor number the format assigns to a chunk id (0 = unknown to rustzx without AY support: skipped)
fn spec_which(id: &[u8; 4]) -> u8 {
    match id {
        b"CRTR" => 1,
        b"Z80R" => 2,
        b"SPCR" => 3,
        b"KEYB" => 4,
        b"AMXM" => 5,
        b"RAMP" => 6,
        _ => 0,
    }
}

/// spec encoder: file header + chunks (id, size, data) laid out back to back
fn spec_file(machine_id: u8, ver: (u8, u8), flags: u8, chunks: &[([u8; 4], u32, [u8; 8])], claimed: &[u32]) -> ([u8; 48], usize) {
    let mut f = [0u8; 48];
    f[0] = b'Z';
    f[1] = b'X';
    f[2] = b'S';
    f[3] = b'T';
    f[4] = ver.0;
    f[5] = ver.1;
    f[6] = machine_id;
    f[7] = flags;
    let mut p = 8;
    let mut c = 0;
    while c < chunks.len() {
        let (id, size, data) = chunks[c];
        let mut i = 0;
        while i < 4 {
            f[p + i] = id[i];
            f[p + 4 + i] = (claimed[c] >> (8 * i)) as u8;
            i += 1;
        }
        p += 8;
        let mut i = 0;
        while i < 8 && (i as u32) < size {
            f[p + i] = data[i];
            i += 1;
        }
        p += size as usize;
        c += 1;
    }
    (f, p)
}

/// chunk data sizes used with ID_PAIRS (a symbolic size makes the position, hence the id bytes, of
/// the second chunk symbolic and the query does not finish)
const SIZE_PAIRS: [(u32, u32); 6] = [(0, 8), (8, 0), (3, 5), (1, 1), (8, 8), (5, 2)];

const ID_PAIRS: [([u8; 4], [u8; 4]); 6] = [
    (*b"Z80R", *b"SPCR"),
    (*b"SPCR", *b"RAMP"),
    (*b"RAMP", *b"Z80R"),
    (*b"KEYB", *b"AMXM"),
    (*b"CRTR", *b"JOY\0"),
    (*b"ZXTP", *b"Z80R"),
];

// @harness
// @prop C14
// @tier quick
// @timeout 900
// @fn szx::load (header check, model check, chunk walker, size check, dispatch on id, skipping)
// @sym version bytes, flags byte, chunk data; chunk sizes enumerated (0,8) (8,0) (3,5) (1,1) (8,8) (5,2); chunk id pairs enumerated: (Z80R,SPCR) (SPCR,RAMP) (RAMP,Z80R) (KEYB,AMXM) (CRTR,unknown) (unknown,Z80R); machine id 1 on 48K / 2 on 128K
// @assert load returns Ok; every known chunk is handed to its processor exactly once, in file order, with exactly its data (length, first byte) and the header's machine id; unknown chunks are skipped; nothing else is called; no read request beyond the bytes left in the file
// @bound two chunks of at most 8 data bytes per file, six id pairs x two machines
// @stub szx::process_{crtr,z80r,spcr,keyb,amxm,ramp}_block -> call recorders (each processor is verified on its own above); ZXController::refresh_memory_dependent_devices -> no-op; core::str::from_utf8 -> ASCII-only validator (the real one does not finish under CBMC even on 4 concrete bytes)
// @outside non-ASCII / lower-case ids (to_uppercase Unicode tables); more than two chunks (the loop body is identical per chunk)
// @replay solver-only
#[kani::proof]
#[kani::unwind(50)]
#[kani::stub(process_crtr_block, stub_crtr)]
#[kani::stub(process_z80r_block, stub_z80r)]
#[kani::stub(process_spcr_block, stub_spcr)]
#[kani::stub(process_keyb_block, stub_keyb)]
#[kani::stub(process_amxm_block, stub_amxm)]
#[kani::stub(process_ramp_block, stub_ramp)]
#[kani::stub(ZXController::refresh_memory_dependent_devices, noop_refresh)]
#[kani::stub(core::str::from_utf8, ascii_only_from_utf8)]
fn c14_szx_walker_dispatch() {
    let mut k = 0;
    while k < 6 {
        let (id1, id2) = ID_PAIRS[k];
        let (s1, s2): (u32, u32) = SIZE_PAIRS[k];
        let (d1, d2): ([u8; 8], [u8; 8]) = (kani::any(), kani::any());
        let machine = if k % 2 == 0 { ZXMachine::Sinclair48K } else { ZXMachine::Sinclair128K };
        let mid: u8 = if k % 2 == 0 { 1 } else { 2 };
        let (file, len) = spec_file(mid, (kani::any(), kani::any()), kani::any(), &[(id1, s1, d1), (id2, s2, d2)], &[s1, s2]);
        let mut asset = SmallAsset::new(file, len);
        let mut e = mk_emulator(machine, CTX);
        reset_calls();
        let r = load(&mut e, &mut asset);
        kani::assert(r.is_ok(), "c14.szx.walker.accepted");
        kani::assert(!asset.over_remaining, "c14.szx.walker.no_request_beyond_file");
        let (w1, w2) = (spec_which(&id1), spec_which(&id2));
        let want1 = Call { which: w1, mid: if w1 == 3 || w1 == 6 { mid as u32 } else { NO_MID }, len: s1 as usize, first: if s1 > 0 { d1[0] } else { 0 } };
        let want2 = Call { which: w2, mid: if w2 == 3 || w2 == 6 { mid as u32 } else { NO_MID }, len: s2 as usize, first: if s2 > 0 { d2[0] } else { 0 } };
        unsafe {
            let expected_n = (w1 != 0) as usize + (w2 != 0) as usize;
            kani::assert(NCALLS == expected_n, "c14.szx.walker.number_of_dispatches");
            if w1 != 0 {
                kani::assert(CALLS[0] == want1, "c14.szx.walker.first_chunk_dispatch");
                if w2 != 0 {
                    kani::assert(CALLS[1] == want2, "c14.szx.walker.second_chunk_dispatch");
                }
            } else if w2 != 0 {
                kani::assert(CALLS[0] == want2, "c14.szx.walker.chunk_after_unknown_dispatch");
            }
        }
        kani::cover!(k == 5 && d1[0] == 0x5A, "last pair reached with free data");
        k += 1;
    }
}

// @harness
// @prop C14 C15
// @tier quick
// @timeout 900
// @fn szx::load (model check)
// @sym chunk data, version, flags; (file machine id, emulator) enumerated over every mismatching pair: ids 0 and 1 into 128K, id 2 into 48K, ids 3, 0x80, 0xFF into both
// @assert an SZX file whose header names another model than the emulator's is refused with Err(MachineNotSupported) before any chunk header is read (at most the 8 header bytes requested) and no processor runs, so the machine is untouched (was KF-C14-3)
// @bound one RAMP chunk per file, 9 loads
// @stub chunk processors -> call recorders; refresh -> no-op; core::str::from_utf8 -> ASCII-only validator
// @replay solver-only
#[kani::proof]
#[kani::unwind(50)]
#[kani::stub(process_crtr_block, stub_crtr)]
#[kani::stub(process_z80r_block, stub_z80r)]
#[kani::stub(process_spcr_block, stub_spcr)]
#[kani::stub(process_keyb_block, stub_keyb)]
#[kani::stub(process_amxm_block, stub_amxm)]
#[kani::stub(process_ramp_block, stub_ramp)]
#[kani::stub(ZXController::refresh_memory_dependent_devices, noop_refresh)]
#[kani::stub(core::str::from_utf8, ascii_only_from_utf8)]
fn c14_szx_other_model_rejected() {
    let cases: [(bool, u8); 9] = [(true, 0), (true, 1), (false, 2), (true, 3), (false, 3), (true, 0x80), (false, 0x80), (true, 0xFF), (false, 0xFF)];
    let mut e48 = mk_emulator(ZXMachine::Sinclair48K, CTX);
    let mut e128 = mk_emulator(ZXMachine::Sinclair128K, CTX);
    let mut i = 0;
    while i < 9 {
        let (big, mid) = cases[i];
        let d: [u8; 8] = kani::any();
        let (file, len) = spec_file(mid, (kani::any(), kani::any()), kani::any(), &[(*b"RAMP", 8, d)], &[8]);
        let mut asset = SmallAsset::new(file, len);
        reset_calls();
        let r = if big { load(&mut e128, &mut asset) } else { load(&mut e48, &mut asset) };
        kani::assert(matches!(r, Err(Error::SnapshotLoad(SnapshotLoadError::MachineNotSupported))), "c14.szx.model_mismatch_rejected");
        unsafe {
            kani::assert(NCALLS == 0, "c14.szx.model_mismatch_nothing_applied");
        }
        kani::assert(asset.max_req <= 8 && asset.calls <= 3, "c14.szx.model_mismatch_only_header_read");
        i += 1;
    }
    kani::cover!(true, "nine mismatches refused");
}

/// two-chunk file Z80R(3 bytes) SPCR(5 bytes) with free data, version and flags, machine id 0..1
fn c15_two_chunk_file() -> ([u8; 48], usize) {
    let mid: u8 = kani::any();
    kani::assume(mid <= 1);
    spec_file(mid, (kani::any(), kani::any()), kani::any(), &[(*b"Z80R", 3, kani::any()), (*b"SPCR", 5, kani::any())], &[3, 5])
}

// Asset call sequence of szx::load on that file (S = seek, R = read_exact):
//   S S R(hdr) S | R(blk hdr) S R(data) S | R(blk hdr) S R(data) S | R(blk hdr -> EOF)     calls 0..12

// @harness
// @prop C15
// @tier quick
// @timeout 900
// @fn szx::load (header check, chunk walker, dispatch); LoadableAsset::read_exact
// @sym version, machine id 0..1, flags, chunk data; fault kind Err at every asset call 0..12, 1-byte short read and premature Ok(0) at every read call
// @assert no panic / overflow; loops terminate within the unwinding bound; at most 20 asset calls; no read request beyond the bytes left in the file; an asset failure while reading the file header or chunk data surfaces as Err
// @bound one two-chunk file of 32 bytes on the 48K machine; 27 concrete fault placements + fault-free
// @stub chunk processors -> call recorders; refresh -> no-op; core::str::from_utf8 -> ASCII-only validator
// @outside more than two chunks; a failing read of a *chunk header* ends the walk with Ok (rustzx treats every error there as end of file; Ok is an allowed outcome of C15)
// @replay solver-only
#[kani::proof]
#[kani::unwind(50)]
#[kani::stub(process_crtr_block, stub_crtr)]
#[kani::stub(process_z80r_block, stub_z80r)]
#[kani::stub(process_spcr_block, stub_spcr)]
#[kani::stub(process_keyb_block, stub_keyb)]
#[kani::stub(process_amxm_block, stub_amxm)]
#[kani::stub(process_ramp_block, stub_ramp)]
#[kani::stub(ZXController::refresh_memory_dependent_devices, noop_refresh)]
#[kani::stub(core::str::from_utf8, ascii_only_from_utf8)]
fn c15_szx_walker_faults() {
    let faults: [(u8, u8); 27] = [
        (0, 0), (1, 0), (2, 0), (3, 0), (4, 0), (5, 0), (6, 0), (7, 0), (8, 0), (9, 0), (10, 0), (11, 0), (12, 0),
        (2, 1), (4, 1), (6, 1), (8, 1), (10, 1), (12, 1), (2, 2), (4, 2), (6, 2), (8, 2), (10, 2), (12, 2), (13, 0), (14, 1),
    ];
    let mut e = mk_emulator(ZXMachine::Sinclair48K, CTX);
    let mut oks = 0u8;
    let mut errs = 0u8;
    let mut i = 0;
    while i <= 27 {
        let (file, len) = c15_two_chunk_file();
        let mut asset = SmallAsset::new(file, len);
        if i < 27 {
            asset.fault = Fault { at: faults[i].0, kind: faults[i].1, n: 1 };
        }
        reset_calls();
        let r = load(&mut e, &mut asset);
        kani::assert(asset.calls <= 20, "c15.szx.walker.bounded_number_of_asset_calls");
        kani::assert(asset.max_req <= len && !asset.over_remaining, "c15.szx.walker.allocation_in_proportion");
        if i < 27 && asset.fault_hit && faults[i].1 != 1 && (faults[i].0 <= 3 || faults[i].0 == 6 || faults[i].0 == 10) {
            kani::assert(r.is_err(), "c15.szx.walker.asset_failure_surfaces_as_err");
        }
        if i == 27 {
            kani::assert(r.is_ok() && unsafe { NCALLS } == 2, "c15.szx.walker.fault_free_file_loads");
        }
        if r.is_ok() {
            oks += 1;
        } else {
            errs += 1;
        }
        i += 1;
    }
    kani::cover!(oks >= 1 && errs >= 10, "faults surface, fault-free load succeeds");
}

// @harness
// @prop C15
// @tier quick
// @timeout 900
// @fn szx::load (header check, machine id check, chunk walker, size check)
// @sym magic bytes (ASCII or never-valid-UTF-8 bytes), version, machine id 0..255, flags, chunk data; file truncated at every length 0..32
// @assert no panic / overflow; bounded asset calls; no read request above 8 bytes and none beyond the bytes left when it is a chunk buffer; wrong magic or a machine id the 128K machine cannot take is Err; a file cut inside the header or inside chunk data is Err
// @bound the two-chunk file cut at each of its 33 lengths, 128K machine
// @stub chunk processors -> call recorders; refresh -> no-op; core::str::from_utf8 -> ASCII-only validator
// @replay solver-only
#[kani::proof]
#[kani::unwind(50)]
#[kani::stub(process_crtr_block, stub_crtr)]
#[kani::stub(process_z80r_block, stub_z80r)]
#[kani::stub(process_spcr_block, stub_spcr)]
#[kani::stub(process_keyb_block, stub_keyb)]
#[kani::stub(process_amxm_block, stub_amxm)]
#[kani::stub(process_ramp_block, stub_ramp)]
#[kani::stub(ZXController::refresh_memory_dependent_devices, noop_refresh)]
#[kani::stub(core::str::from_utf8, ascii_only_from_utf8)]
fn c15_szx_walker_truncated() {
    let mut e = mk_emulator(ZXMachine::Sinclair128K, CTX);
    let mut len = 0usize;
    let mut oks = 0u8;
    while len <= 32 {
        let mid: u8 = kani::any();
        let (mut file, _) = spec_file(mid, (kani::any(), kani::any()), kani::any(), &[(*b"Z80R", 3, kani::any()), (*b"SPCR", 5, kani::any())], &[3, 5]);
        let magic: [u8; 4] = kani::any();
        let mut i = 0;
        while i < 4 {
            kani::assume(magic[i] < 0x80 || magic[i] >= 0xF8);
            file[i] = magic[i];
            i += 1;
        }
        let mut asset = SmallAsset::new(file, len);
        reset_calls();
        let r = load(&mut e, &mut asset);
        kani::assert(asset.calls <= 20, "c15.szx.walker.bounded_number_of_asset_calls");
        kani::assert(asset.max_req <= 8 && !asset.over_remaining, "c15.szx.walker.allocation_in_proportion");
        let magic_ok = magic[0] == b'Z' && magic[1] == b'X' && magic[2] == b'S' && magic[3] == b'T';
        if len < 8 || !magic_ok || mid != 2 {
            kani::assert(r.is_err(), "c15.szx.walker.bad_header_is_err");
        }
        if (len > 16 && len < 19) || (len > 27 && len < 32) {
            kani::assert(r.is_err(), "c15.szx.walker.cut_chunk_data_is_err");
        }
        if r.is_ok() {
            oks += 1;
        }
        len += 1;
    }
    kani::cover!(oks >= 1, "some truncations still load");
}

// @harness
// @prop C15
// @tier quick
// @timeout 900
// @fn szx::load (chunk size check before the chunk buffer allocation)
// @sym chunk data; the chunk's 32-bit size field enumerated: 9, 17, 0x100, 0x10000, 0x7FFFFFFF, 0x80000000, 0xFFFFFFFF against 8 bytes really present, and 1 against 0 present
// @assert a chunk claiming more bytes than the file has left is Err(InvalidSZXFile), and the buffer szx::load allocates (observed as the length of the read request that follows) never exceeds the bytes left in the file: no request above 8 bytes is issued at all (was KF-C15-8)
// @bound files of 8 + 8 + 8 (or + 0) bytes, 8 loads
// @stub chunk processors -> call recorders; refresh -> no-op; core::str::from_utf8 -> ASCII-only validator
// @outside a symbolic size field (did not finish in 600 s before the fix; the check added by ecf0f4d is a single comparison on the enumerated path)
// @replay solver-only
#[kani::proof]
#[kani::unwind(50)]
#[kani::stub(process_crtr_block, stub_crtr)]
#[kani::stub(process_z80r_block, stub_z80r)]
#[kani::stub(process_spcr_block, stub_spcr)]
#[kani::stub(process_keyb_block, stub_keyb)]
#[kani::stub(process_amxm_block, stub_amxm)]
#[kani::stub(process_ramp_block, stub_ramp)]
#[kani::stub(ZXController::refresh_memory_dependent_devices, noop_refresh)]
#[kani::stub(core::str::from_utf8, ascii_only_from_utf8)]
fn c15_szx_walker_oversized_chunk_is_err() {
    let claims: [(u32, u32); 8] = [(9, 8), (17, 8), (0x100, 8), (0x1_0000, 8), (0x7FFF_FFFF, 8), (0x8000_0000, 8), (0xFFFF_FFFF, 8), (1, 0)];
    let mut e = mk_emulator(ZXMachine::Sinclair48K, CTX);
    let mut i = 0;
    while i < 8 {
        let (claimed, real) = claims[i];
        let (file, len) = spec_file(1, (1, 4), 0, &[(*b"RAMP", real, kani::any())], &[claimed]);
        let mut asset = SmallAsset::new(file, len);
        reset_calls();
        let r = load(&mut e, &mut asset);
        kani::assert(matches!(r, Err(Error::SnapshotLoad(SnapshotLoadError::InvalidSZXFile))), "c15.szx.walker.oversized_chunk_is_err");
        kani::assert(asset.max_req <= 8 && !asset.over_remaining, "c15.szx.walker.allocation_in_proportion");
        unsafe {
            kani::assert(NCALLS == 0, "c15.szx.walker.oversized_chunk_not_dispatched");
        }
        i += 1;
    }
    kani::cover!(true, "eight oversized chunks refused");
}

// @harness
// @prop C15
// @tier quick
// @timeout 900
// @fn szx::load (chunk id decoding)
// @sym chunk data; chunk id FF 41 41 41 followed by a Z80R chunk
// @assert a chunk whose id is not valid UTF-8 is skipped like any unknown chunk, without panic, and the following chunk is still dispatched (was KF-C15-6)
// @bound file of 8 + (8+2) + (8+3) bytes
// @stub chunk processors -> call recorders; refresh -> no-op; core::str::from_utf8 -> ASCII-only validator
// @outside a symbolic id byte (the to_uppercase path on the Ok side does not finish)
// @replay solver-only
#[kani::proof]
#[kani::unwind(50)]
#[kani::stub(process_crtr_block, stub_crtr)]
#[kani::stub(process_z80r_block, stub_z80r)]
#[kani::stub(process_spcr_block, stub_spcr)]
#[kani::stub(process_keyb_block, stub_keyb)]
#[kani::stub(process_amxm_block, stub_amxm)]
#[kani::stub(process_ramp_block, stub_ramp)]
#[kani::stub(ZXController::refresh_memory_dependent_devices, noop_refresh)]
#[kani::stub(core::str::from_utf8, ascii_only_from_utf8)]
fn c15_szx_walker_id_not_utf8_skipped() {
    let (file, len) = spec_file(1, (1, 4), 0, &[([0xFF, b'A', b'A', b'A'], 2, kani::any()), (*b"Z80R", 3, kani::any())], &[2, 3]);
    let mut asset = SmallAsset::new(file, len);
    let mut e = mk_emulator(ZXMachine::Sinclair48K, CTX);
    reset_calls();
    let r = load(&mut e, &mut asset);
    kani::assert(r.is_ok(), "c15.szx.walker.undecodable_id_skipped");
    unsafe {
        kani::assert(NCALLS == 1 && CALLS[0].which == 2 && CALLS[0].len == 3, "c15.szx.walker.chunk_after_undecodable_id_dispatched");
    }
    kani::cover!(true, "reached");
}

// ================================================================================================
// C14 / C15: AY chunk (builds with features sound,ay only)
// ================================================================================================

#[cfg(all(feature = "sound", feature = "ay"))]
fn sqrt_identity(x: f64) -> f64 {
    x
}

#[cfg(all(feature = "sound", feature = "ay"))]
static mut AY_GEN: [u8; 16] = [0; 16];
#[cfg(all(feature = "sound", feature = "ay"))]
static mut AY_GEN_SEEN: u16 = 0;

/// replacement for the sound generator's register write: remembers what reached the generator
#[cfg(all(feature = "sound", feature = "ay"))]
fn gen_write_register(_ay: &mut aym::AymPrecise, address: u8, value: u8) {
    unsafe {
        AY_GEN[(address & 15) as usize] = value;
        AY_GEN_SEEN |= 1 << (address & 15);
    }
}

#[cfg(all(feature = "sound", feature = "ay"))]
fn ay_chunk_applied(check_generator: bool) {
    let regs: [u8; 16] = kani::any();
    let cur: u8 = kani::any();
    kani::assume(cur < 16);
    let flags: u8 = kani::any();
    let mut body = [0u8; 18];
    body[0] = flags;
    body[1] = cur;
    let mut i = 0;
    while i < 16 {
        body[2 + i] = regs[i];
        i += 1;
    }
    let mut e = mk_emulator(ZXMachine::Sinclair128K, CTX);
    // what the machine was playing before: one arbitrary register write through the chip
    let (r0, v0): (u8, u8) = (kani::any(), kani::any());
    controller(&mut e).mixer.ay.select_reg(r0);
    controller(&mut e).mixer.ay.write(v0);
    unsafe {
        AY_GEN_SEEN = 0;
    }
    let r = process_ay_block(&mut e, 2, &body);
    kani::assert(r.is_ok(), "c14.szx.ay.accepted");
    let ay = &mut controller(&mut e).mixer.ay;
    kani::assert(ay.read() == regs[cur as usize], "c14.szx.ay.selected_register");
    let mut i = 0u8;
    while i < 16 {
        ay.select_reg(i);
        kani::assert(ay.read() == regs[i as usize], "c14.szx.ay.register_readback");
        i += 1;
    }
    if check_generator {
        unsafe {
            // R0..R13 are the sound registers; R14/R15 are I/O ports without audible effect
            kani::assert(AY_GEN_SEEN & 0x3FFF == 0x3FFF, "c14.szx.ay.every_sound_register_reaches_generator");
            let k: usize = kani::any();
            kani::assume(k < 14);
            kani::assert(AY_GEN[k] == regs[k], "c14.szx.ay.generator_register_value");
        }
    }
}

// @harness
// @prop C14
// @tier quick
// @features sound,ay
// @timeout 900
// @fn szx::process_ay_block; ZXAyChip::select_reg; ZXAyChip::set_regs; ZXAyChip::read
// @sym flags byte, selected register 0..15, all 16 register bytes; one arbitrary earlier register write in the receiver
// @assert the chunk is accepted; reading the AY data port afterwards returns the chunk's value for the chunk's selected register, and for every register after selecting it
// @bound one chunk, 128K machine, AY enabled
// @stub libm::sqrt -> identity (unsupported SIMD intrinsic in AymPrecise::new); <AymPrecise as AymBackend>::write_register -> recorder
// @replay solver-only
#[cfg(all(feature = "sound", feature = "ay"))]
#[kani::proof]
#[kani::unwind(20)]
#[kani::stub(libm::sqrt, sqrt_identity)]
#[kani::stub(<aym::AymPrecise as aym::AymBackend>::write_register, gen_write_register)]
fn c14_szx_ay_register_file() {
    ay_chunk_applied(false);
    kani::cover!(true, "reached");
}

// @harness
// @prop C14
// @tier quick
// @features sound,ay
// @timeout 900
// @fn szx::process_ay_block; ZXAyChip::set_regs
// @sym as c14_szx_ay_register_file
// @assert every one of the 14 restored sound registers R0..R13 is also written to the sound generator (AymPrecise::write_register) with the chunk's value, so that the audible state is the chunk's (was KF-C14-5)
// @bound one chunk
// @stub libm::sqrt -> identity; <AymPrecise as AymBackend>::write_register -> recorder (what the generator does with a register value is C18's subject)
// @outside audible equality of samples (float DSP)
// @replay solver-only
#[cfg(all(feature = "sound", feature = "ay"))]
#[kani::proof]
#[kani::unwind(20)]
#[kani::stub(libm::sqrt, sqrt_identity)]
#[kani::stub(<aym::AymPrecise as aym::AymBackend>::write_register, gen_write_register)]
fn c14_szx_ay_generator_updated() {
    ay_chunk_applied(true);
    kani::cover!(true, "reached");
}

// @harness
// @prop C14
// @tier quick
// @features sound,ay
// @timeout 900
// @fn szx::process_ay_block; Emulator::set_ay_enabled; ZXAyChip::select_reg; ZXAyChip::set_regs; ZXAyChip::read
// @sym 48K receiver with its AY switched on or off before the load (symbolic) and one arbitrary earlier register write; chunk flags byte (all 256), selected register, all 16 register bytes
// @assert 48K file: after the chunk the AY is present exactly if the chunk's ZXSTAYF_128AY flag (bit 1) says so - independent of the receiver's earlier setting - and when present the 16 registers read back as the chunk's values, the chunk's selected register is selected and all 14 sound registers reached the generator: also when it was this very chunk that switched the chip on
// @bound one chunk, 48K machine (id 1)
// @stub libm::sqrt -> identity; <AymPrecise as AymBackend>::write_register -> recorder
// @replay solver-only
#[cfg(all(feature = "sound", feature = "ay"))]
#[kani::proof]
#[kani::unwind(20)]
#[kani::stub(libm::sqrt, sqrt_identity)]
#[kani::stub(<aym::AymPrecise as aym::AymBackend>::write_register, gen_write_register)]
fn c14_szx_ay_48k_independent_of_receiver_setting() {
    let regs: [u8; 16] = kani::any();
    let cur: u8 = kani::any();
    kani::assume(cur < 16);
    let flags: u8 = kani::any();
    let mut body = [0u8; 18];
    body[0] = flags;
    body[1] = cur;
    let mut i = 0;
    while i < 16 {
        body[2 + i] = regs[i];
        i += 1;
    }
    let mut e = mk_emulator(ZXMachine::Sinclair48K, CTX);
    let was_on: bool = kani::any();
    e.set_ay_enabled(was_on);
    let (r0, v0): (u8, u8) = (kani::any(), kani::any());
    controller(&mut e).mixer.ay.select_reg(r0);
    controller(&mut e).mixer.ay.write(v0);
    unsafe {
        AY_GEN_SEEN = 0;
    }
    let r = process_ay_block(&mut e, 1, &body);
    kani::assert(r.is_ok(), "c14.szx.ay48.accepted");
    // SZX specification: ZXSTAYF_FULLERBOX = 1, ZXSTAYF_128AY = 2
    let want_on = flags & 2 != 0;
    kani::assert(e.settings.ay_enabled == want_on && controller(&mut e).mixer.use_ay == want_on, "c14.szx.ay48.chip_present_iff_the_file_says_so");
    if want_on {
        let ay = &mut controller(&mut e).mixer.ay;
        kani::assert(ay.read() == regs[cur as usize], "c14.szx.ay48.selected_register");
        let mut i = 0u8;
        while i < 16 {
            ay.select_reg(i);
            kani::assert(ay.read() == regs[i as usize], "c14.szx.ay48.register_readback");
            i += 1;
        }
        unsafe {
            kani::assert(AY_GEN_SEEN & 0x3FFF == 0x3FFF, "c14.szx.ay48.every_sound_register_reaches_generator");
            let k: usize = kani::any();
            kani::assume(k < 14);
            kani::assert(AY_GEN[k] == regs[k], "c14.szx.ay48.generator_register_value");
        }
    }
    kani::cover!(!was_on && want_on, "the chunk switches the chip on");
    kani::cover!(was_on && !want_on, "the chunk switches the chip off");
}

// @harness
// @prop C15
// @tier quick
// @features sound,ay
// @timeout 900
// @fn szx::process_ay_block; Emulator::set_ay_enabled; ZXAyChip::set_regs
// @sym chunk bytes 0..40 long, machine id 0..1 on 48K / 2 on 128K
// @assert no panic / overflow; Ok exactly from 18 bytes, shorter chunks Err(InvalidSZXFile) (was KF-C15-3)
// @bound one chunk per machine
// @stub libm::sqrt -> identity; <AymPrecise as AymBackend>::write_register -> recorder
// @replay solver-only
#[cfg(all(feature = "sound", feature = "ay"))]
#[kani::proof]
#[kani::unwind(20)]
#[kani::stub(libm::sqrt, sqrt_identity)]
#[kani::stub(<aym::AymPrecise as aym::AymBackend>::write_register, gen_write_register)]
fn c15_szx_ay_total() {
    let (data, len) = any_chunk();
    let id: u32 = kani::any();
    kani::assume(id <= 1);
    let mut e = mk_emulator(ZXMachine::Sinclair48K, CTX);
    let r = process_ay_block(&mut e, id, &data[..len]);
    kani::assert(r.is_ok() == (len >= 18), "c15.szx.ay.ok_iff_long_enough_48");
    let mut e = mk_emulator(ZXMachine::Sinclair128K, CTX);
    let r = process_ay_block(&mut e, 2, &data[..len]);
    kani::assert(r.is_ok() == (len >= 18), "c15.szx.ay.ok_iff_long_enough_128");
    if len < 18 {
        kani::assert(is_invalid_szx(&r), "c15.szx.ay.err_kind");
    }
    kani::cover!(id == 1 && len >= 18 && data[0] & 2 == 0, "48K file switching the AY off");
    kani::cover!(len == 18, "exact chunk");
    kani::cover!(len == 17, "one byte short");
}

// @harness
// @prop C15
// @tier quick
// @features sound,ay
// @timeout 900
// @fn szx::process_ay_block; ZXAyChip::set_regs
// @sym chunk bytes, length 0..17
// @assert an AY chunk shorter than 18 bytes is Err(InvalidSZXFile), no panic (was KF-C15-3)
// @bound one chunk, 128K
// @stub libm::sqrt -> identity; write_register -> recorder
// @assume length < 18
// @replay solver-only
#[cfg(all(feature = "sound", feature = "ay"))]
#[kani::proof]
#[kani::unwind(20)]
#[kani::stub(libm::sqrt, sqrt_identity)]
#[kani::stub(<aym::AymPrecise as aym::AymBackend>::write_register, gen_write_register)]
fn c15_szx_ay_short_chunk_is_err() {
    let (data, len) = any_chunk();
    kani::assume(len < 18);
    let mut e = mk_emulator(ZXMachine::Sinclair128K, CTX);
    let r = process_ay_block(&mut e, 2, &data[..len]);
    kani::assert(is_invalid_szx(&r), "c15.szx.ay.short_is_err");
    kani::cover!(len == 2, "reached");
}

// @harness
// @prop C14
// @tier quick
// @timeout 600
// @expect vacuity
// @fn szx::process_z80r_block; szx::process_spcr_block
// @bound reachability twin of c14_szx_z80r_spcr_commute
#[kani::proof]
#[kani::unwind(40)]
fn c14_szx_chunks_reach() {
    let z = any_zabs();
    let zb = spec_z80r(&z, 1);
    let sb = spec_spcr(3, kani::any(), 0, kani::any(), [0; 4]);
    let mut e1 = mk_emulator(ZXMachine::Sinclair128K, CTX);
    let _ = process_z80r_block(&mut e1, &zb);
    let _ = process_spcr_block(&mut e1, 2, &sb);
    check_z80r_regs(&mut e1, &z);
    kani::assert(false, "c14.reach");
}

// @harness
// @prop C15
// @tier quick
// @timeout 600
// @expect vacuity
// @fn szx::process_z80r_block; szx::process_ramp_block
// @bound reachability twin of c15_szx_z80r_total and c15_szx_ramp_small_total
#[kani::proof]
#[kani::unwind(10)]
fn c15_szx_chunks_reach() {
    let (data, len) = any_chunk();
    kani::assume(len >= 37 && data[28] <= 2 && data[0] & 1 == 1 && data[2] == 5);
    let mut e = mk_emulator(ZXMachine::Sinclair128K, CTX);
    let _ = process_z80r_block(&mut e, &data[..len]);
    let _ = process_ramp_block(&mut e, 2, &data[..len]);
    kani::assert(false, "c15.reach");
}


