//! Kani harnesses compiled as a child module of rustzx-core/src/zx/tape/tap.rs (cfg(kani) only).
//! Property C11: a playing tape presents each TAP block as the standard loader waveform.
//! Property C12: play / stop / rewind behave like a cassette deck.
//! Property C10 (part 3): `next_block` / `next_block_byte` stream exactly the block's bytes.
//! Property C15 (tape part): none of this panics / overflows for any tape bytes.
#![allow(dead_code)]
use super::*;
use crate::host::BufferCursor;
use crate::verif_hooks::VBuf;

pub(crate) type VTap = Tap<BufferCursor<VBuf>>;

// ---- specification constants (from the property statement, not from the code) ----------------
const S_PILOT: usize = 2168;
const S_PULSES_HEADER: usize = 8063;
const S_PULSES_DATA: usize = 3223;
const S_SYNC1: usize = 667;
const S_SYNC2: usize = 735;
const S_ZERO: usize = 855;
const S_ONE: usize = 1710;
const S_PAUSE: usize = 3_500_000;
/// largest bus-wait step of the quantifier ("steps of 1..16 T-states")
const S_STEP: usize = 16;

fn spec_bit_len(byte: u8, mask: u8) -> usize {
    if byte & mask != 0 {
        S_ONE
    } else {
        S_ZERO
    }
}

fn spec_pilot_pulses(flag: u8) -> usize {
    if flag == 0x00 {
        S_PULSES_HEADER
    } else {
        S_PULSES_DATA
    }
}

// ---- symbolic pre-states ----------------------------------------------------------------------

/// Asset that only counts how often it is touched (asset-free harnesses: the counts must stay 0).
pub(crate) struct ProbeAsset {
    pub reads: usize,
    pub seeks: usize,
}

impl LoadableAsset for ProbeAsset {
    fn read(&mut self, _buf: &mut [u8]) -> core::result::Result<usize, crate::error::IoError> {
        self.reads += 1;
        Err(crate::error::IoError::UnexpectedEof)
    }
}

impl SeekableAsset for ProbeAsset {
    fn seek(&mut self, _pos: SeekFrom) -> core::result::Result<usize, crate::error::IoError> {
        self.seeks += 1;
        Ok(0)
    }
}

/// stream position / touch count of an asset, for "nothing consumed" comparisons
pub(crate) trait AssetFp {
    fn fp(&mut self) -> usize;
}

impl<T: AsRef<[u8]>> AssetFp for BufferCursor<T> {
    fn fp(&mut self) -> usize {
        match self.seek(SeekFrom::Current(0)) {
            Ok(p) => p,
            Err(_) => usize::MAX,
        }
    }
}

impl AssetFp for ProbeAsset {
    fn fp(&mut self) -> usize {
        self.reads * 4096 + self.seeks
    }
}

pub(crate) type PTap = Tap<ProbeAsset>;

fn any_mask() -> u8 {
    let k: u8 = kani::any();
    kani::assume(k < 8);
    1u8 << k
}

pub(crate) const K_STOP: u8 = 0;
pub(crate) const K_PLAY: u8 = 1;
pub(crate) const K_PILOT: u8 = 2;
pub(crate) const K_SYNC: u8 = 3;
pub(crate) const K_NEXT_BYTE: u8 = 4;
pub(crate) const K_NEXT_BIT: u8 = 5;
pub(crate) const K_BIT_HALF: u8 = 6;
pub(crate) const K_PAUSE: u8 = 7;

/// any TapeState of the given variant, payload unrestricted.  Harnesses pass `kind` as a
/// constant so that the solver encodes only the branch of the state machine that is taken.
fn state_of_kind(kind: u8) -> TapeState {
    match kind {
        K_STOP => TapeState::Stop,
        K_PLAY => TapeState::Play,
        K_PILOT => TapeState::Pilot { pulses_left: kani::any() },
        K_SYNC => TapeState::Sync,
        K_NEXT_BYTE => TapeState::NextByte,
        K_NEXT_BIT => TapeState::NextBit { mask: kani::any() },
        K_BIT_HALF => TapeState::BitHalf { half_bit_delay: kani::any(), mask: kani::any() },
        _ => TapeState::Pause,
    }
}

fn any_kind() -> u8 {
    let k: u8 = kani::any();
    kani::assume(k < 8);
    k
}

/// any TapeState value at all
fn any_raw_state() -> TapeState {
    state_of_kind(any_kind())
}

/// Representation invariant of a generator state (what `process_clocks` itself establishes):
/// pilot counters are 1..=8063, bit masks are one-hot, the second half of a bit has the length
/// of the bit being sent.
fn inv_shape(s: TapeState, byte: u8) -> bool {
    match s {
        TapeState::Pilot { pulses_left } => pulses_left >= 1 && pulses_left <= S_PULSES_HEADER,
        TapeState::NextBit { mask } => mask.count_ones() == 1,
        TapeState::BitHalf { half_bit_delay, mask } => {
            mask.count_ones() == 1 && half_bit_delay == spec_bit_len(byte, mask)
        }
        _ => true,
    }
}

/// a saved state (prev_state) was a valid generator state when it was saved; its BitHalf length
/// need not match the byte any more
fn inv_shape_saved(s: TapeState) -> bool {
    match s {
        TapeState::Pilot { pulses_left } => pulses_left >= 1 && pulses_left <= S_PULSES_HEADER,
        TapeState::NextBit { mask } => mask.count_ones() == 1,
        TapeState::BitHalf { half_bit_delay, mask } => {
            mask.count_ones() == 1 && (half_bit_delay == S_ZERO || half_bit_delay == S_ONE)
        }
        _ => true,
    }
}

fn cursor(buf: VBuf, pos: usize) -> BufferCursor<VBuf> {
    let mut c = BufferCursor::new(buf);
    let _ = c.seek(SeekFrom::Start(pos));
    c
}

fn any_vbuf(max_len: usize) -> VBuf {
    let b = VBuf { data: kani::any(), len: kani::any() };
    kani::assume(b.len <= max_len && b.len <= 24);
    b
}

/// A tape on `asset` in a state of variant `kind`; every other field arbitrary.
fn any_tap_with<A: LoadableAsset + SeekableAsset>(asset: A, kind: u8) -> Tap<A> {
    Tap {
        asset,
        state: state_of_kind(kind),
        prev_state: any_raw_state(),
        buffer: kani::any(),
        buffer_offset: kani::any(),
        block_bytes_read: kani::any(),
        current_block_size: kani::any(),
        tape_ended: kani::any(),
        curr_bit: kani::any(),
        curr_byte: kani::any(),
        delay: kani::any(),
    }
}

fn any_probe_tap(kind: u8) -> PTap {
    any_tap_with(ProbeAsset { reads: 0, seeks: 0 }, kind)
}

/// Everything observable of a tape (buffer through one witness index).
#[derive(Clone, Copy, PartialEq, Eq)]
pub(crate) struct Snap {
    pub state: TapeState,
    pub prev: TapeState,
    pub level: bool,
    pub byte: u8,
    pub delay: usize,
    pub pos: usize,
    pub bbr: usize,
    pub boff: usize,
    pub cbs: Option<usize>,
    pub ended: bool,
    pub bufw: u8,
}

pub(crate) fn snap<A: LoadableAsset + SeekableAsset + AssetFp>(t: &mut Tap<A>, w: usize) -> Snap {
    Snap {
        state: t.state,
        prev: t.prev_state,
        // the level as the ULA port sees it (TapeImpl::current_bit), not the private field
        level: t.current_bit(),
        byte: t.curr_byte,
        delay: t.delay,
        pos: t.asset.fp(),
        bbr: t.block_bytes_read,
        boff: t.buffer_offset,
        cbs: t.current_block_size,
        ended: t.tape_ended,
        bufw: t.buffer[w],
    }
}

/// same generator + stream state, ignoring `prev_state`
pub(crate) fn same_generator(a: &Snap, b: &Snap) -> bool {
    a.state == b.state
        && a.level == b.level
        && a.byte == b.byte
        && a.delay == b.delay
        && a.pos == b.pos
        && a.bbr == b.bbr
        && a.boff == b.boff
        && a.cbs == b.cbs
        && a.ended == b.ended
        && a.bufw == b.bufw
}

fn any_witness() -> usize {
    let w: usize = kani::any();
    kani::assume(w < BUFFER_SIZE);
    w
}

fn any_step() -> usize {
    let c: usize = kani::any();
    kani::assume(c >= 1 && c <= S_STEP);
    c
}

// =================================================================================================
// C11 (1) countdown
// =================================================================================================

fn countdown_case(kind: u8) {
    let mut t = any_probe_tap(kind);
    kani::assume(t.delay > 0);
    let w = any_witness();
    let c = any_step();
    let pre = snap(&mut t, w);
    let r = t.process_clocks(c);
    let post = snap(&mut t, w);
    kani::assert(r.is_ok(), "c11.countdown.ok");
    let expect = if pre.delay > c { pre.delay - c } else { 0 };
    kani::assert(post.delay == expect, "c11.countdown.delay_is_max0_delay_minus_c");
    kani::assert(post.level == pre.level, "c11.countdown.no_edge_before_nominal");
    let mut pre_d = pre;
    pre_d.delay = post.delay;
    kani::assert(pre_d == post, "c11.countdown.nothing_else_changes");
    kani::assert(post.pos == 0, "c11.countdown.asset_not_touched");
    kani::cover!(pre.delay > c, "pulse continues");
    kani::cover!(pre.delay == c, "pulse ends exactly");
    kani::cover!(pre.delay < c, "pulse overshoots");
}

// @harness
// @prop C11
// @tier quick
// @timeout 300
// @fn Tap::process_clocks
// @sym every field of the Tap (each of the 7 non-Stop state variants with any payload, prev_state, delay > 0 any usize, level, byte, all stream fields, buffer via witness index), step c in 1..=16
// @assert while a pulse is in progress (delay > 0) a step changes nothing but delay, which becomes max(0, delay - c): no edge before the nominal length has elapsed, asset neither read nor repositioned
// @bound single call per state variant; state-machine loop unreachable (unwind 2 only closes it)
// @outside steps of 0 or more than 16 T-states
#[kani::proof]
#[kani::unwind(2)]
fn c11_countdown() {
    countdown_case(K_PLAY);
    countdown_case(K_PILOT);
    countdown_case(K_SYNC);
    countdown_case(K_NEXT_BYTE);
    countdown_case(K_NEXT_BIT);
    countdown_case(K_BIT_HALF);
    countdown_case(K_PAUSE);
}

// =================================================================================================
// C11 (2) transitions that do not touch the asset
// =================================================================================================

/// specification: table entry that follows the pulse ending in state `s` (asset-free states)
fn spec_next_entry(s: TapeState, byte: u8) -> (usize, TapeState) {
    match s {
        TapeState::Pilot { pulses_left } => {
            if pulses_left > 1 {
                (S_PILOT, TapeState::Pilot { pulses_left: pulses_left - 1 })
            } else {
                (S_SYNC1, TapeState::Sync)
            }
        }
        TapeState::Sync => (S_SYNC2, TapeState::NextBit { mask: 0x80 }),
        TapeState::NextBit { mask } => {
            let l = spec_bit_len(byte, mask);
            (l, TapeState::BitHalf { half_bit_delay: l, mask })
        }
        TapeState::BitHalf { half_bit_delay, mask } => {
            if mask == 0x01 {
                (half_bit_delay, TapeState::NextByte)
            } else {
                (half_bit_delay, TapeState::NextBit { mask: mask >> 1 })
            }
        }
        _ => (S_PAUSE, TapeState::Play),
    }
}

fn transition_case(kind: u8) -> (Snap, Snap) {
    let mut t = any_probe_tap(kind);
    kani::assume(t.delay == 0);
    kani::assume(inv_shape(t.state, t.curr_byte));
    let w = any_witness();
    let c = any_step();
    let pre = snap(&mut t, w);
    let r = t.process_clocks(c);
    let post = snap(&mut t, w);
    kani::assert(r.is_ok(), "c11.trans.ok");
    kani::assert(post.level != pre.level, "c11.trans.edge");
    let (len, next) = spec_next_entry(pre.state, pre.byte);
    kani::assert(post.delay == len, "c11.trans.pulse_length");
    kani::assert(post.state == next, "c11.trans.next_entry");
    kani::assert(inv_shape(post.state, post.byte), "c11.trans.inv_preserved");
    let mut exp = pre;
    exp.level = post.level;
    exp.delay = post.delay;
    exp.state = post.state;
    kani::assert(exp == post, "c11.trans.nothing_else_changes");
    kani::assert(post.pos == 0, "c11.trans.asset_not_touched");
    (pre, post)
}

// @harness
// @prop C11
// @tier quick
// @timeout 300
// @fn Tap::process_clocks
// @sym state in {Pilot n, Sync, NextBit mask, BitHalf(len, mask), Pause} under the shape invariant, delay = 0, level, byte, prev_state, all stream fields arbitrary, step c in 1..=16
// @assert at the end of a pulse the next entry of the standard waveform starts: Pilot n -> edge, n-1 more pilot pulses of 2168 T or (n = 1) sync1 667 T; Sync -> edge, sync2 735 T, then bit 7 (mask 0x80); NextBit -> edge, 855 T if the bit is 0 else 1710 T; BitHalf -> edge, second pulse of the same length, then mask >> 1 or the next byte; Pause -> edge, 3 500 000 T, then the next block.  Byte, stream position, asset and prev_state untouched; shape invariant preserved
// @bound single call per variant; the state-machine loop runs once (unwind 2)
// @assume shape invariant inv_shape (pilot counter 1..=8063, one-hot masks, BitHalf length = length of the bit being sent); preserved by this harness and by c11_next_byte / c11_play_next_block
// @outside Play and NextByte (asset-touching: c11_next_byte, c11_play_next_block)
#[kani::proof]
#[kani::unwind(2)]
fn c11_transitions() {
    let (p, q) = transition_case(K_PILOT);
    kani::cover!(p.state == TapeState::Pilot { pulses_left: 1 } && q.state == TapeState::Sync, "last pilot pulse -> sync1");
    kani::cover!(p.state == TapeState::Pilot { pulses_left: S_PULSES_HEADER }, "first pilot flip");
    let (p, q) = transition_case(K_SYNC);
    kani::cover!(q.delay == S_SYNC2 && p.level, "sync1 -> sync2");
    let (p, q) = transition_case(K_NEXT_BIT);
    kani::cover!(matches!(p.state, TapeState::NextBit { mask: 0x80 }) && q.delay == S_ONE, "msb one");
    kani::cover!(matches!(p.state, TapeState::NextBit { mask: 0x01 }) && q.delay == S_ZERO, "lsb zero");
    let (p, _q) = transition_case(K_BIT_HALF);
    kani::cover!(matches!(p.state, TapeState::BitHalf { mask: 0x01, .. }), "last half bit -> next byte");
    kani::cover!(matches!(p.state, TapeState::BitHalf { mask: 0x10, half_bit_delay: S_ONE }), "mid byte");
    let (_p, q) = transition_case(K_PAUSE);
    kani::cover!(q.state == TapeState::Play && q.delay == S_PAUSE, "pause");
}

// @harness
// @prop C11
// @tier quick
// @expect vacuity
// @timeout 300
// @fn Tap::process_clocks
// @bound reachability twin of c11_transitions
#[kani::proof]
#[kani::unwind(2)]
fn c11_transitions_reach() {
    let _ = transition_case(K_BIT_HALF);
    kani::assert(false, "c11.reach");
}

// =================================================================================================
// C11 (3) lateness: no pulse shorter than nominal, none more than 32 T longer
// =================================================================================================

fn lateness_case(kind: u8) {
    let mut t = any_probe_tap(kind);
    kani::assume(inv_shape(t.state, t.curr_byte));
    let e: usize = kani::any();
    let l: usize = kani::any();
    kani::assume(l <= S_PAUSE && e <= S_PAUSE + 64);
    let d = t.delay;
    kani::assume(d <= S_PAUSE);
    kani::assume((d > 0 && e + d == l) || (d == 0 && l <= e && e <= l + (S_STEP - 1)));
    let c = any_step();
    let level0 = t.curr_bit;
    let r = t.process_clocks(c);
    kani::assert(r.is_ok(), "c11.late.ok");
    let mut e1 = e + c;
    let mut l1 = l;
    let edge = t.curr_bit != level0;
    if d == 0 {
        kani::assert(edge, "c11.late.edge_when_due");
    }
    if edge {
        kani::assert(e1 >= l, "c11.late.never_shorter_than_nominal");
        kani::assert(e1 <= l + 2 * S_STEP - 1, "c11.late.at_most_32T_longer");
        e1 = 0;
        l1 = t.delay;
        kani::assert(t.delay > 0, "c11.late.new_pulse_has_length");
    }
    let d1 = t.delay;
    kani::assert(
        (d1 > 0 && e1 + d1 == l1) || (d1 == 0 && l1 <= e1 && e1 <= l1 + (S_STEP - 1)),
        "c11.late.invariant_preserved",
    );
    kani::cover!(edge && e + c == l + 31, "latest possible edge");
    kani::cover!(edge && e + c == l + 1, "earliest possible edge (one T late)");
    kani::cover!(!edge && d1 == 0 && e1 == l1 + 15, "pulse end overshot by 15");
    kani::cover!(!edge && d1 > 0, "mid pulse");
}

// @harness
// @prop C11
// @tier quick
// @timeout 300
// @fn Tap::process_clocks
// @sym asset-free playing state (Pilot, Sync, NextBit, BitHalf, Pause) under the shape invariant, delay, ghost e = T-states since the last edge, ghost L = nominal length of the running pulse (= the delay loaded at its start, which c11_transitions / c11_next_byte / c11_play_next_block show to be the table length), step c in 1..=16
// @assert step invariant (delay > 0 and e + delay = L) or (delay = 0 and L <= e <= L+15) is preserved; an edge only happens at L <= e <= L+31 (never shorter than nominal, at most 32 T longer) and when delay = 0 the edge does happen in that very step; after the edge e = 0 and the invariant holds for the new pulse
// @bound single step from an arbitrary invariant state = induction over any number of steps and any partition of time into steps of 1..16 T
// @assume shape invariant; ghost invariant as stated (holds after every edge: e = 0, delay = L)
// @outside steps longer than 16 T (the machine issues at most 8 at a time); NextByte/Play steps (same argument; c11_next_byte / c11_play_next_block assert the edge in the same call)
#[kani::proof]
#[kani::unwind(2)]
fn c11_lateness_step() {
    lateness_case(K_PILOT);
    lateness_case(K_SYNC);
    lateness_case(K_NEXT_BIT);
    lateness_case(K_BIT_HALF);
    lateness_case(K_PAUSE);
}

// =================================================================================================
// C12 lemmas on the deck commands
// =================================================================================================

// @harness
// @prop C12
// @tier quick
// @timeout 300
// @fn Tap::process_clocks; Tap::current_bit; Tap::can_fast_load
// @sym stopped deck with every other field arbitrary (saved state, delay, level, byte, stream fields), step c any usize
// @assert while stopped, advancing time changes nothing at all: EAR level frozen, delay frozen, nothing consumed (asset neither read nor repositioned, block position and buffer unchanged), saved state kept
// @bound single call = any number of calls by induction (state unchanged)
#[kani::proof]
#[kani::unwind(2)]
fn c12_stopped_is_frozen() {
    let mut t = any_probe_tap(K_STOP);
    let w = any_witness();
    let c: usize = kani::any();
    let pre = snap(&mut t, w);
    let level = t.current_bit();
    let r = t.process_clocks(c);
    let post = snap(&mut t, w);
    kani::assert(r.is_ok(), "c12.stopped.ok");
    kani::assert(pre == post, "c12.stopped.nothing_changes_nothing_consumed");
    kani::assert(post.pos == 0, "c12.stopped.asset_not_touched");
    kani::assert(t.current_bit() == level, "c12.stopped.ear_frozen");
    kani::assert(t.can_fast_load(), "c12.stopped.fast_load_possible");
    kani::cover!(pre.delay > 0 && c > pre.delay, "time passes beyond the pending pulse");
    kani::cover!(matches!(pre.prev, TapeState::BitHalf { .. }) && pre.level, "stopped mid byte, level high");
}

fn stop_play_case(kind: u8) -> Snap {
    let mut t = any_probe_tap(kind);
    let w = any_witness();
    let g = snap(&mut t, w);
    t.stop();
    let s = snap(&mut t, w);
    kani::assert(s.state == TapeState::Stop, "c12.stop.stops");
    kani::assert(s.level == g.level, "c12.stop.ear_frozen");
    let adv: u8 = kani::any();
    kani::assume(adv <= 2);
    let mut i = 0;
    while i < adv {
        let r = t.process_clocks(kani::any());
        kani::assert(r.is_ok(), "c12.stop.advance_ok");
        i += 1;
    }
    let k: u8 = kani::any();
    kani::assume(k >= 1 && k <= 3);
    let mut j = 0;
    while j < k {
        t.play();
        j += 1;
    }
    let post = snap(&mut t, w);
    kani::assert(same_generator(&g, &post), "c12.resume.exactly_where_it_stopped");
    kani::assert(post.pos == 0, "c12.resume.asset_not_touched");
    kani::cover!(adv == 2 && k == 3, "two advances, three plays");
    g
}

// @harness
// @prop C12
// @tier quick
// @timeout 300
// @fn Tap::stop; Tap::play; Tap::process_clocks
// @sym playing deck in an arbitrary generator state G (each non-Stop variant with any payload, delay, level, byte, stream fields, arbitrary stale prev_state), k plays (1..=3), up to 2 time steps of any length while stopped
// @assert stop advance* play^k (single stop) restores exactly G: state, delay, level, byte, mask and stream position, without touching the asset; extra plays on a playing deck change nothing
// @bound one stop, at most 2 advances while stopped, at most 3 plays (unwind 4)
// @outside repeated stop: c12_stop_twice_* ; time passing between the plays is covered because play on a playing deck is shown to be the identity
#[kani::proof]
#[kani::unwind(4)]
fn c12_stop_play_resumes() {
    let g = stop_play_case(K_PLAY);
    kani::cover!(g.delay > 0, "stopped in the pause between blocks");
    let g = stop_play_case(K_PILOT);
    kani::cover!(g.delay == 1000, "stopped mid pilot");
    let _ = stop_play_case(K_SYNC);
    let _ = stop_play_case(K_NEXT_BYTE);
    let g = stop_play_case(K_NEXT_BIT);
    kani::cover!(matches!(g.state, TapeState::NextBit { mask: 0x08 }) && g.delay == 100, "stopped mid byte");
    let _ = stop_play_case(K_BIT_HALF);
    let _ = stop_play_case(K_PAUSE);
}

// @harness
// @prop C12
// @tier quick
// @timeout 300
// @fn Tap::play
// @sym deck that has never played or has been rewound (state Stop, no saved state), everything else arbitrary
// @assert play on a fresh/rewound deck starts the generator at "load next block" (state Play); delay, level and stream position untouched; a second play changes nothing
// @bound two calls
#[kani::proof]
fn c12_play_from_start() {
    let mut t = any_probe_tap(K_STOP);
    kani::assume(t.prev_state == TapeState::Stop);
    let w = any_witness();
    let pre = snap(&mut t, w);
    t.play();
    let post = snap(&mut t, w);
    let mut exp = pre;
    exp.state = TapeState::Play;
    kani::assert(post == exp, "c12.play.fresh_deck_starts_next_block");
    kani::assert(!t.can_fast_load(), "c12.play.no_fast_load_while_playing");
    t.play();
    kani::assert(snap(&mut t, w) == exp, "c12.play.idempotent");
    kani::cover!(pre.delay == 0 && !pre.level, "fresh tape");
}

// @harness
// @prop C11 C10
// @tier quick
// @timeout 300
// @fn Tap::can_fast_load
// @sym every field of the tape; generator state of every variant (payload arbitrary)
// @assert the loader trap may take a block from the tape only while the deck is stopped: in every state of a running deck - including `Play`, which the generator is in during the whole silence between two blocks - can_fast_load is false, so a ROM load request issued between blocks cannot swallow the block the EAR line is about to present ("every block of the TAP image in order"); on a stopped deck it is true
// @bound one call per state variant
#[kani::proof]
fn c11_running_deck_is_closed_to_the_loader_trap() {
    let k = any_kind();
    let t = any_probe_tap(k);
    kani::assert(t.can_fast_load() == (k == K_STOP), "c11.trap.fast_load_only_while_stopped");
    kani::cover!(k == K_PLAY, "between two blocks");
    kani::cover!(k == K_PAUSE, "pause pulse");
    kani::cover!(k == K_STOP, "stopped deck");
}

// =================================================================================================
// C11 (4) whole tiny tapes through the real API: bytes in order, flag and checksum included,
// every bit MSB first, pause, next block, end of tape
// =================================================================================================

/// TAP image with the given block lengths (concrete structure, arbitrary contents).
/// `extra` arbitrary bytes follow the last block (0 = well-formed image).
fn image(layout: &[usize], extra: usize) -> VBuf {
    let mut b = VBuf { data: kani::any(), len: 0 };
    let mut off = 0;
    let mut i = 0;
    while i < layout.len() {
        b.data[off] = layout[i] as u8;
        b.data[off + 1] = 0;
        off += 2 + layout[i];
        i += 1;
    }
    b.len = off + extra;
    b
}

fn fresh_tap(buf: VBuf) -> VTap {
    match Tap::from_asset(BufferCursor::new(buf)) {
        Ok(t) => t,
        Err(_) => unreachable!(),
    }
}

/// Something that contains a tape generator and can be interrupted by deck commands.
pub(crate) trait Deck {
    fn tap(&mut self) -> &mut VTap;
    /// deck commands issued at the interruption point of `expect_block` (default: none)
    fn interrupt(&mut self) {}
}

impl Deck for VTap {
    fn tap(&mut self) -> &mut VTap {
        self
    }
}

/// Let the running pulse elapse: ghost fast-forward to delay = 0.  c11_countdown shows that all
/// a step does during a pulse is to count delay down (to 0 at the latest after `delay` T-states),
/// for every partition of the time into steps.
fn run_out_pulse(t: &mut VTap) {
    t.delay = 0;
}

/// the next step must produce an edge and start a pulse of `len` T
fn expect_edge(t: &mut VTap, len: usize) {
    run_out_pulse(t);
    let lvl = t.curr_bit;
    let r = t.process_clocks(any_step());
    kani::assert(r.is_ok(), "c11.run.ok");
    kani::assert(t.curr_bit != lvl, "c11.run.edge");
    kani::assert(t.delay == len, "c11.run.pulse_length");
}

/// Drive a playing deck that is about to load the block at image offset `off` (length n >= 1)
/// through that whole block; returns with the pause running.  `at` = (byte index, bit number)
/// before whose first pulse ends `Deck::interrupt` is called.
pub(crate) fn expect_block<D: Deck>(d: &mut D, buf: &VBuf, off: usize, n: usize, at: Option<(usize, u8)>) {
    let t = d.tap();
    run_out_pulse(t);
    let r = t.process_clocks(any_step());
    let flag = buf.data[off + 2];
    kani::assert(r.is_ok(), "c11.run.block_loads");
    kani::assert(t.curr_bit && t.delay == S_PILOT, "c11.run.pilot_starts_high_2168");
    kani::assert(
        t.state == TapeState::Pilot { pulses_left: spec_pilot_pulses(flag) },
        "c11.run.8063_pulses_iff_flag_0_else_3223",
    );
    // fast-forward the pilot tone to its last pulse: c11_transitions shows Pilot n -> edge, 2168 T,
    // Pilot n-1 for every n > 1; an even number of edges is skipped for both counts
    t.state = TapeState::Pilot { pulses_left: 1 };
    expect_edge(t, S_SYNC1);
    expect_edge(t, S_SYNC2);
    let mut j = 0;
    while j < n {
        let b = buf.data[off + 2 + j];
        let mut bit = 8;
        while bit > 0 {
            bit -= 1;
            if at == Some((j, bit)) {
                d.interrupt();
            }
            let l = spec_bit_len(b, 1u8 << bit);
            expect_edge(d.tap(), l);
            expect_edge(d.tap(), l);
        }
        j += 1;
    }
    let t = d.tap();
    expect_edge(t, S_PAUSE);
    kani::assert(t.state == TapeState::Play, "c11.run.next_block_after_pause");
}

pub(crate) fn expect_end_of_tape(t: &mut VTap) {
    run_out_pulse(t);
    let r = t.process_clocks(any_step());
    kani::assert(r.is_ok(), "c11.run.end_ok");
    let s = snap(t, 0);
    kani::assert(s.state == TapeState::Stop, "c11.run.end_stops_deck");
    kani::assert(!s.level && s.delay == 0, "c11.run.end_level_low");
    kani::assert(s.pos == 0 && s.cbs.is_none() && s.bbr == 0 && !s.ended, "c11.run.end_back_at_start");
}

// @harness
// @prop C11
// @tier quick
// @timeout 600
// @fn Tap::from_asset; Tap::play; Tap::process_clocks; Tap::next_block; Tap::next_block_byte; Tap::rewind; BufferCursor::read; BufferCursor::seek; LoadableAsset::read_exact
// @sym contents of a one-block image (3 bytes: flag, data, checksum - all arbitrary), the size of every transition step (1..=16)
// @assert from from_asset + play: pilot (high, 2168 T, 8063 pulses iff flag = 0 else 3223), sync 667 + 735, then for flag, data and checksum byte in this order 8 bits MSB first as two equal pulses of 855 (0) / 1710 (1) T, every pulse started by an edge, then the 3 500 000 T pause, then - no block left - the deck stops with the level low and the position back at the start
// @bound 1 block x 3 bytes; pilot tone fast-forwarded from the first to the last pulse (induction in c11_transitions); pulse countdown fast-forwarded to delay = 0 (c11_countdown, c11_lateness_step); unwind 9
#[kani::proof]
#[kani::unwind(9)]
fn c11_run_one_block() {
    let buf = image(&[3], 0);
    let mut t = fresh_tap(buf);
    t.play();
    expect_block(&mut t, &buf, 0, 3, None);
    expect_end_of_tape(&mut t);
    kani::cover!(buf.data[2] == 0x00 && buf.data[3] == 0xA5 && buf.data[4] == 0xA5, "header-flag block with valid checksum");
    kani::cover!(buf.data[2] == 0xFF && buf.data[4] != buf.data[2] ^ buf.data[3], "data block with wrong checksum");
}

// @harness
// @prop C11
// @tier quick
// @timeout 600
// @fn Tap::from_asset; Tap::play; Tap::process_clocks; Tap::next_block; Tap::next_block_byte; Tap::rewind; BufferCursor::read; BufferCursor::seek; LoadableAsset::read_exact
// @sym contents of a two-block image (2 + 1 bytes, arbitrary), transition step sizes
// @assert both blocks appear in image order, each as pilot / sync / bytes MSB first / pause, the second block's pilot count chosen by ITS flag byte; then the deck stops at the start
// @bound 2 blocks (2 bytes, 1 byte); pilot fast-forwarded; unwind 9
#[kani::proof]
#[kani::unwind(9)]
fn c11_run_two_blocks() {
    let buf = image(&[2, 1], 0);
    let mut t = fresh_tap(buf);
    t.play();
    expect_block(&mut t, &buf, 0, 2, None);
    expect_block(&mut t, &buf, 4, 1, None);
    expect_end_of_tape(&mut t);
    kani::cover!(buf.data[2] == 0x00 && buf.data[6] == 0xFF, "header then data block");
    kani::cover!(buf.data[2] == 0x80 && buf.data[6] == 0x00, "data then header block");
}

// @harness
// @prop C11 C15
// @tier quick
// @timeout 600
// @fn Tap::from_asset; Tap::play; Tap::process_clocks; Tap::next_block; Tap::next_block_byte; Tap::rewind; BufferCursor::read; BufferCursor::seek; LoadableAsset::read_exact
// @sym contents of malformed images: (a) a zero-length block followed by a 1-byte block, (b) a block whose length field (5) exceeds the 2 bytes present, (c) one stray byte after a 1-byte block, (d) the empty image
// @assert never a panic; (a) the empty block (no flag byte, hence no waveform) yields Err once, the following block is then played normally; (b) Err once, then the deck stops at the start; (c) the stray byte is ignored: end of tape; (d) play on an empty image stops at the first step
// @bound the four layouts above; unwind 9
#[kani::proof]
#[kani::unwind(9)]
fn c11_run_malformed_images() {
    // (a)
    let buf = image(&[0, 1], 0);
    let mut t = fresh_tap(buf);
    t.play();
    let r = t.process_clocks(any_step());
    kani::assert(r.is_err() && t.state == TapeState::Play && t.delay == 0, "c11.malformed.empty_block_err_and_skipped");
    expect_block(&mut t, &buf, 2, 1, None);
    expect_end_of_tape(&mut t);
    // (b)
    let mut buf = image(&[5], 0);
    buf.len = 4;
    let mut t = fresh_tap(buf);
    t.play();
    let r = t.process_clocks(any_step());
    kani::assert(r.is_err(), "c11.malformed.truncated_block_err");
    expect_end_of_tape(&mut t);
    // (c)
    let buf = image(&[1], 1);
    let mut t = fresh_tap(buf);
    t.play();
    expect_block(&mut t, &buf, 0, 1, None);
    expect_end_of_tape(&mut t);
    // (d)
    let buf = image(&[], 0);
    let mut t = fresh_tap(buf);
    t.play();
    expect_end_of_tape(&mut t);
    kani::cover!(true, "all four images driven to the end");
}

// =================================================================================================
// C12 deck model: command words over {stop, play, rewind, advance c}
// =================================================================================================

/// Asset of a tape on which nothing more can be read (as at the end of the data, or a host
/// asset that fails): reads fail, seeks succeed and are remembered.
pub(crate) struct PosAsset {
    pub pos: usize,
}

impl LoadableAsset for PosAsset {
    fn read(&mut self, _buf: &mut [u8]) -> core::result::Result<usize, crate::error::IoError> {
        Err(crate::error::IoError::UnexpectedEof)
    }
}

impl SeekableAsset for PosAsset {
    fn seek(&mut self, pos: SeekFrom) -> core::result::Result<usize, crate::error::IoError> {
        if let SeekFrom::Start(p) = pos {
            self.pos = p;
        }
        Ok(self.pos)
    }
}

impl AssetFp for PosAsset {
    fn fp(&mut self) -> usize {
        self.pos
    }
}

type QTap = Tap<PosAsset>;

/// specification of "the start of the tape, about to play": level low, nothing pending,
/// position 0, no current block - the state of `from_asset` followed by `play`
fn to_start(g: &mut Snap) {
    g.state = TapeState::Play;
    g.level = false;
    g.byte = 0;
    g.delay = 0;
    g.pos = 0;
    g.bbr = 0;
    g.boff = 0;
    g.cbs = None;
    g.ended = false;
}

/// stream fields as `next_block` / `next_block_byte` keep them (shown inductive by c10_stream_inv_*)
fn inv_stream_fields<A: LoadableAsset + SeekableAsset>(t: &Tap<A>) -> bool {
    t.buffer_offset <= t.block_bytes_read
        && t.block_bytes_read - t.buffer_offset <= BUFFER_SIZE
        && match t.current_block_size {
            Some(n) => n <= 0xFFFF && t.block_bytes_read <= n,
            None => t.block_bytes_read == 0 && t.buffer_offset == 0,
        }
}

/// in the pause and when the next block is due the previous block has been sent completely
fn inv_block_done_in_pause<A: LoadableAsset + SeekableAsset>(t: &Tap<A>) -> bool {
    match t.state {
        TapeState::Play | TapeState::Pause => match t.current_block_size {
            Some(n) => t.block_bytes_read == n,
            None => true,
        },
        _ => true,
    }
}

const EXCL_NONE: u8 = 0;
/// a `stop` reaching a deck that is already stopped with a saved state
const EXCL_STOP_TWICE: u8 = 1;
/// rewind / end of tape while a saved state from an earlier stop exists
const EXCL_STALE_SAVED: u8 = 2;
/// rewind while the generator is in the middle of a block
const EXCL_REWIND_PLAYING: u8 = 3;

struct DeckModel {
    a: QTap,       // the deck under test: receives every command
    g: Snap,       // model: state of the waveform generator (frozen while the model deck is stopped)
    playing: bool, // model: is the deck playing
    w: usize,      // witness index into the 128-byte window
    region: u8,    // EXCL_NONE: follow only words outside all known-finding regions;
    //                otherwise: only words whose first known-finding region is this one
    hit: bool,     // the word has entered `region`
}

/// the word is about to enter known-finding region `r`
fn enter(m: &mut DeckModel, r: u8) {
    if !m.hit {
        // (an assume placed after the commands would not guard the checks inside them)
        kani::assume(m.region == r);
        m.hit = true;
    }
}

/// deck invariant: a playing deck is exactly in the model generator's state; a stopped deck is
/// stopped and holds the model generator's level, pending pulse, byte and stream position frozen
fn deck_inv(m: &mut DeckModel) {
    let s = snap(&mut m.a, m.w);
    if m.playing {
        kani::assert(s.state == m.g.state, "c12.words.playing_deck_is_in_generator_state");
        kani::assert(same_generator(&s, &m.g), "c12.words.playing_deck_equals_generator");
    } else {
        kani::assert(s.state == TapeState::Stop, "c12.words.deck_is_stopped_when_model_says_so");
        kani::assert(s.level == m.g.level, "c12.words.level_frozen_while_stopped");
        let mut f = s;
        f.state = m.g.state;
        kani::assert(same_generator(&f, &m.g), "c12.words.nothing_consumed_while_stopped");
    }
}

fn deck_step(m: &mut DeckModel, enabled: bool) {
    if !enabled {
        return;
    }
    let cmd: u8 = kani::any();
    kani::assume(cmd < 4);
    match cmd {
        0 => {
            if !m.playing && m.a.prev_state != TapeState::Stop {
                enter(m, EXCL_STOP_TWICE);
            }
            m.a.stop();
            m.playing = false;
        }
        1 => {
            m.a.play();
            m.playing = true;
        }
        2 => {
            if m.playing && m.a.state != TapeState::Play {
                enter(m, EXCL_REWIND_PLAYING);
            } else if m.a.prev_state != TapeState::Stop {
                enter(m, EXCL_STALE_SAVED);
            }
            let r = m.a.rewind();
            kani::assert(r.is_ok(), "c12.words.rewind_ok");
            // model: position back at the start; a playing deck goes on playing from there
            to_start(&mut m.g);
        }
        _ => {
            let c: usize = kani::any();
            let clean = m.a.prev_state == TapeState::Stop;
            let r = m.a.process_clocks(c);
            if m.playing {
                // The deck was in the generator's state (deck_inv after the previous command), so
                // this real step IS the generator's step (its waveform is the subject of C11).
                m.g = snap(&mut m.a, m.w);
                if m.g.state == TapeState::Stop {
                    // ran off the end: the deck stops by itself and is back at the start
                    if !clean {
                        enter(m, EXCL_STALE_SAVED);
                    }
                    m.playing = false;
                    kani::assert(
                        !m.g.level && m.g.delay == 0 && m.g.pos == 0 && m.g.cbs.is_none() && m.g.bbr == 0 && !m.g.ended,
                        "c12.words.runout_returns_to_start",
                    );
                    to_start(&mut m.g);
                }
            } else {
                kani::assert(r.is_ok(), "c12.words.stopped_advance_ok");
            }
        }
    }
    deck_inv(m);
}

/// Run a word of <= 4 commands from an arbitrary playing generator state (or the fresh deck),
/// checking the deck invariant after every command and after a final play.
fn deck_words(region: u8, max: u8) {
    let fresh: bool = kani::any();
    let mut a: QTap = any_tap_with(PosAsset { pos: kani::any() }, any_kind());
    kani::assume(a.asset.pos <= 0x20000);
    kani::assume(a.delay <= S_PAUSE);
    kani::assume(inv_shape(a.state, a.curr_byte));
    kani::assume(inv_stream_fields(&a) && inv_block_done_in_pause(&a));
    let playing;
    if fresh {
        // never played, or rewound: stopped at the start without a saved state
        kani::assume(a.state == TapeState::Stop && a.prev_state == TapeState::Stop);
        kani::assume(a.asset.pos == 0 && a.current_block_size.is_none() && !a.tape_ended);
        kani::assume(!a.curr_bit && a.curr_byte == 0 && a.delay == 0);
        playing = false;
    } else {
        // playing, anywhere in the waveform; prev_state holds whatever an earlier stop saved
        kani::assume(a.state != TapeState::Stop);
        kani::assume(inv_shape_saved(a.prev_state));
        playing = true;
    }
    let w = any_witness();
    let mut g = snap(&mut a, w);
    if fresh {
        g.state = TapeState::Play;
    }
    let mut m = DeckModel { a, g, playing, w, region, hit: false };
    let n: u8 = kani::any();
    kani::assume(n <= max);
    deck_step(&mut m, n >= 1);
    deck_step(&mut m, n >= 2);
    deck_step(&mut m, n >= 3);
    if max >= 4 {
        deck_step(&mut m, n >= 4);
    }
    kani::assume(m.hit == (region != EXCL_NONE));
    let was_playing = m.playing;
    // whatever happened: (another) play leaves the deck playing in the generator's state
    m.a.play();
    m.playing = true;
    deck_inv(&mut m);
    kani::cover!(n == max && !was_playing, "longest word, ends stopped");
    kani::cover!(n == max && was_playing && !fresh, "longest word, ends playing");
    kani::cover!(region != EXCL_NONE || (n == 3 && fresh && m.g.state == TapeState::Play), "fresh deck");
}

// @harness
// @prop C12
// @tier quick
// @timeout 900
// @fn Tap::stop; Tap::play; Tap::rewind; Tap::process_clocks; Tap::next_block; Tap::next_block_byte
// @sym initial deck: playing in ANY generator state (every variant and payload under the shape invariant, delay <= 3.5M, level, byte, stream fields, window, arbitrary leftover prev_state) or the fresh deck; a word of 0..=4 commands over {stop, play, rewind, advance c} with c any usize; the tape behind the generator yields no further data (reads fail)
// @assert deck specification, checked after every command and after a final play: the model keeps the waveform generator's state g (state, delay, level, byte, mask, stream position, window), which advances by the real step only while the model deck plays; stop freezes it, play resumes it, rewind and running off the end replace it by the start state (level low, nothing pending, position 0, next: block 1).  A playing deck must equal g exactly; a stopped deck must be stopped with g's level, pending pulse, byte and position frozen (nothing consumed); hence stop^j advance* play^k restores exactly the pre-stop state and the concatenated playing intervals equal uninterrupted play
// @bound words of <= 4 commands (+ the final play) from an arbitrary state; longer histories follow because the invariant checked after each command is the induction hypothesis (see also the single-step lemmas c12_stopped_is_frozen / c12_stop_play_resumes / c12_play_from_start / c12_rewind_and_runout_reach_start); unwind 3
// @assume shape invariant; stream-field invariant inv_stream_fields; block completely sent when in Pause/Play (inv_block_done_in_pause); words that enter a known-finding region are excluded here and checked in c12_words_kf1/2 (both fixed): (KF-C12-1) stop on a deck already stopped with a saved state, (KF-C12-2) rewind or end of tape while prev_state holds a saved state, (outside the claim) rewind while the deck is playing in the middle of a block - the statement constrains the next play after a rewind, and a block cut by a rewind cannot be reproduced anyway
// @outside successful loading of a following block inside a word (asset reads fail here; covered by c11_run_* and c12_api_*)
#[kani::proof]
#[kani::unwind(3)]
fn c12_words() {
    deck_words(EXCL_NONE, 4);
}

// @harness
// @prop C12
// @tier quick
// @expect pass
// @timeout 900
// @fn Tap::stop; Tap::play; Tap::rewind; Tap::process_clocks
// @sym as c12_words, restricted to words whose first known-finding region is a stop on an already stopped deck
// @assert as c12_words (region of a defect that has been fixed in /repo; formerly: the second stop overwrites the saved state with Stop, the next play starts the NEXT block and the rest of the current block is lost)
// @bound as c12_words with words of <= 3 commands
#[kani::proof]
#[kani::unwind(3)]
fn c12_words_kf1_stop_twice() {
    deck_words(EXCL_STOP_TWICE, 3);
}

// @harness
// @prop C12
// @tier quick
// @expect pass
// @timeout 900
// @fn Tap::stop; Tap::play; Tap::rewind; Tap::process_clocks
// @sym as c12_words, restricted to words whose first known-finding region is a rewind / end of tape while a saved state exists
// @assert as c12_words (region of a defect that has been fixed in /repo; formerly: prev_state survives rewind and the end of the tape, so the next play resumes an old mid-block state on the rewound stream instead of starting block 1)
// @bound as c12_words with words of <= 3 commands
#[kani::proof]
#[kani::unwind(3)]
fn c12_words_kf2_stale_saved_state() {
    deck_words(EXCL_STALE_SAVED, 3);
}


// =================================================================================================
// C12 lemmas for rewind / end of tape (inductive single steps, any state)
// =================================================================================================

fn is_start_state(s: &Snap) -> bool {
    !s.level && s.byte == 0 && s.delay == 0 && s.pos == 0 && s.cbs.is_none() && s.bbr == 0 && s.boff == 0 && !s.ended
}

// @harness
// @prop C12
// @tier quick
// @timeout 300
// @fn Tap::rewind; Tap::play; Tap::process_clocks; Tap::next_block
// @sym (a) stopped deck without a saved state, (b) deck playing in the pause between blocks (state Play, any delay), (c) deck whose pause has elapsed on a tape with no further block (end of tape); everything else arbitrary (level, byte, stream fields, window, asset position)
// @assert rewind - and running off the end, which also stops the deck - put the level low, clear the pending pulse and the current block and return the stream to position 0 without leaving a saved state; the next play (a no-op on the still playing deck of case b) then stands at "load block 1" (state Play, delay 0), i.e. exactly the state of a fresh deck after play, from which c11_play_first_block / c11_run_* show the clean pilot of block 1 with the full pulse count
// @bound single commands from arbitrary states; unwind 3
// @assume no saved state at the time of the rewind / the end of the tape (prev_state = Stop); the complement is the (fixed) finding KF-C12-2 (c12_words_kf2_*, c12_api_kf2_*); rewind while playing inside a block is outside the claim
#[kani::proof]
#[kani::unwind(3)]
fn c12_rewind_and_runout_reach_start() {
    let w = any_witness();
    // (a) stopped, no saved state
    let mut t: QTap = any_tap_with(PosAsset { pos: kani::any() }, K_STOP);
    kani::assume(t.prev_state == TapeState::Stop);
    let r = t.rewind();
    kani::assert(r.is_ok(), "c12.rewind.ok");
    let s = snap(&mut t, w);
    kani::assert(is_start_state(&s) && s.state == TapeState::Stop && s.prev == TapeState::Stop, "c12.rewind.stopped_deck_at_start");
    t.play();
    let s = snap(&mut t, w);
    kani::assert(is_start_state(&s) && s.state == TapeState::Play, "c12.rewind.play_starts_block_1");
    // (b) playing in the pause
    let mut t: QTap = any_tap_with(PosAsset { pos: kani::any() }, K_PLAY);
    kani::assume(t.prev_state == TapeState::Stop);
    let r = t.rewind();
    kani::assert(r.is_ok(), "c12.rewind.ok");
    t.play();
    let s = snap(&mut t, w);
    kani::assert(is_start_state(&s) && s.state == TapeState::Play && s.prev == TapeState::Stop, "c12.rewind.in_pause_restarts_block_1");
    // (c) end of tape
    let mut t: QTap = any_tap_with(PosAsset { pos: kani::any() }, K_PLAY);
    kani::assume(t.prev_state == TapeState::Stop && t.delay == 0);
    kani::assume(inv_stream_fields(&t) && inv_block_done_in_pause(&t));
    let r = t.process_clocks(any_step());
    kani::assert(r.is_ok(), "c12.runout.ok");
    let s = snap(&mut t, w);
    kani::assert(is_start_state(&s) && s.state == TapeState::Stop && s.prev == TapeState::Stop, "c12.runout.stops_at_start");
    kani::assert(t.can_fast_load(), "c12.runout.deck_stopped");
    t.play();
    let s = snap(&mut t, w);
    kani::assert(is_start_state(&s) && s.state == TapeState::Play, "c12.runout.play_starts_block_1");
    kani::cover!(true, "all three cases");
}

// =================================================================================================
// C12 / C11 through Emulator::{load_tape, play_tape, stop_tape, rewind_tape}, the ZXTape dispatch
// and ZXController::wait_internal
// =================================================================================================

use crate::emulator::verif_hooks as emu;
use crate::emulator::Emulator;
use crate::verif_hooks::{FbCtx, VHost};
use crate::zx::machine::ZXMachine;
use crate::zx::tape::ZXTape;
use rustzx_z80::Z80Bus;

#[derive(Clone, Copy, PartialEq, Eq)]
enum Cmds {
    StopWaitPlay,
    StopStopPlay,
    StopRewindPlay,
    Rewind,
}

struct EmuDeck {
    e: Emulator<VHost>,
    cmds: Cmds,
}

fn emu_deck(buf: VBuf, cmds: Cmds) -> EmuDeck {
    let mut e = emu::mk_emulator(ZXMachine::Sinclair48K, FbCtx { wx: 0, wy: 0 });
    let r = e.load_tape(crate::host::Tape::Tap(BufferCursor::new(buf)));
    kani::assert(r.is_ok(), "c12.api.load_tape_ok");
    EmuDeck { e, cmds }
}

fn tap_in(e: &mut Emulator<VHost>) -> &mut VTap {
    match &mut emu::controller(e).tape {
        ZXTape::Tap(t) => t,
        _ => unreachable!(),
    }
}

impl Deck for EmuDeck {
    fn tap(&mut self) -> &mut VTap {
        tap_in(&mut self.e)
    }

    fn interrupt(&mut self) {
        // part of the running pulse has elapsed: the deck is interrupted mid-pulse (ghost
        // fast-forward of the countdown, c11_countdown; a concrete value keeps the path concrete)
        self.tap().delay = 100;
        let before = snap(self.tap(), 0);
        match self.cmds {
            Cmds::StopWaitPlay | Cmds::StopStopPlay | Cmds::StopRewindPlay => {
                self.e.stop_tape();
                if self.cmds == Cmds::StopStopPlay {
                    self.e.stop_tape();
                }
                let level = emu::controller(&mut self.e).tape.current_bit();
                // time passes while stopped (through the ZXTape dispatch)
                let r = emu::controller(&mut self.e).tape.process_clocks(kani::any());
                kani::assert(r.is_ok(), "c12.api.ok");
                let r = emu::controller(&mut self.e).tape.process_clocks(kani::any());
                kani::assert(r.is_ok(), "c12.api.ok");
                kani::assert(emu::controller(&mut self.e).tape.current_bit() == level, "c12.api.ear_frozen_while_stopped");
                kani::assert(emu::controller(&mut self.e).tape.can_fast_load(), "c12.api.stopped");
                if self.cmds == Cmds::StopRewindPlay {
                    let r = self.e.rewind_tape();
                    kani::assert(r.is_ok(), "c12.api.rewind_ok");
                }
                self.e.play_tape();
                self.e.play_tape();
                if self.cmds == Cmds::StopWaitPlay {
                    let after = snap(self.tap(), 0);
                    kani::assert(same_generator(&before, &after), "c12.api.resumes_exactly_where_it_stopped");
                }
            }
            Cmds::Rewind => {
                let r = self.e.rewind_tape();
                kani::assert(r.is_ok(), "c12.api.rewind_ok");
            }
        }
    }
}

// @harness
// @prop C12 C11
// @tier quick
// @timeout 600
// @fn Emulator::load_tape; Emulator::play_tape; Emulator::stop_tape; Emulator::rewind_tape; ZXTape (enum dispatch of TapeImpl); Tap::from_asset; Tap::stop; Tap::play; Tap::rewind; Tap::process_clocks; Tap::next_block; Tap::next_block_byte; BufferCursor::read; BufferCursor::seek
// @sym contents of a two-block image (2 + 1 bytes), transition step sizes, the two time steps while stopped (any usize)
// @assert through the public API: a freshly loaded tape is stopped (level low, nothing happens) until play_tape; stop_tape in the middle of a byte (bit 3 of the second byte, mid-pulse) freezes the level for any elapsed time, play_tape (twice) resumes exactly there, and the waveform decoded over the concatenated playing intervals is still block 1 then block 2 of the image, each byte once, in order; during the pause after the last block, rewind_tape (no stop before: no saved state) makes the deck replay block 1 with the full pilot; then the tape runs out and the deck stops at the start
// @bound one history on one layout (2 bytes + 1 byte); pilot and pulse countdown fast-forwarded as in c11_run_*; unwind 9
#[kani::proof]
#[kani::unwind(9)]
fn c12_api_stop_resume_rewind() {
    let buf = image(&[2, 1], 0);
    let mut d = emu_deck(buf, Cmds::StopWaitPlay);
    // loaded but not playing: time passes, nothing moves
    let s0 = snap(d.tap(), 0);
    let r = emu::controller(&mut d.e).tape.process_clocks(kani::any());
    kani::assert(r.is_ok() && snap(d.tap(), 0) == s0 && !s0.level && s0.pos == 0, "c12.api.loaded_tape_is_stopped");
    d.e.play_tape();
    expect_block(&mut d, &buf, 0, 2, Some((1, 3)));
    expect_block(&mut d, &buf, 4, 1, None);
    // in the pause after the last block: rewind while the deck plays (clean: block 1 again)
    let r = d.e.rewind_tape();
    kani::assert(r.is_ok(), "c12.api.rewind_ok");
    expect_block(&mut d, &buf, 0, 2, None);
    expect_block(&mut d, &buf, 4, 1, None);
    expect_end_of_tape(d.tap());
    // the tape has run out: the deck is stopped; play starts block 1 again
    kani::assert(emu::controller(&mut d.e).tape.can_fast_load(), "c12.api.runout_stops_deck");
    kani::cover!(buf.data[2] == 0 && buf.data[3] == 0x5A && buf.data[6] == 0xFF, "header-flag block then data-flag block");
}

// @harness
// @prop C12
// @tier quick
// @expect pass
// @timeout 600
// @fn Emulator::play_tape; Emulator::stop_tape; Tap::stop; Tap::play; Tap::process_clocks
// @sym contents of a one-block image (2 bytes)
// @assert scenario play_tape, (block 1 up to bit 3 of its second byte), stop_tape, stop_tape, play_tape: the rest of the block must follow (region of a defect that has been fixed in /repo; formerly: rustzx starts looking for the next block instead)
// @bound one history; unwind 9
#[kani::proof]
#[kani::unwind(9)]
fn c12_api_kf1_stop_stop_play() {
    let buf = image(&[2], 0);
    let mut d = emu_deck(buf, Cmds::StopStopPlay);
    d.e.play_tape();
    expect_block(&mut d, &buf, 0, 2, Some((1, 3)));
    kani::cover!(true, "end");
}

// @harness
// @prop C12
// @tier quick
// @expect pass
// @timeout 600
// @fn Emulator::play_tape; Emulator::stop_tape; Emulator::rewind_tape; Tap::stop; Tap::play; Tap::rewind; Tap::process_clocks
// @sym contents of a one-block image (2 bytes)
// @assert scenario play_tape, (block 1 up to bit 3 of its second byte), stop_tape, rewind_tape, play_tape: block 1 must now be played from its pilot (region of a defect that has been fixed in /repo; formerly: rustzx resumes the saved mid-byte state on the rewound stream)
// @bound one history; unwind 9
#[kani::proof]
#[kani::unwind(9)]
fn c12_api_kf2_stop_rewind_play() {
    let buf = image(&[2], 0);
    let mut d = emu_deck(buf, Cmds::StopRewindPlay);
    d.e.play_tape();
    // run block 1 up to the interruption point, then expect the whole block again
    expect_block_until(&mut d, &buf, 0, (1, 3));
    expect_block(&mut d, &buf, 0, 2, None);
    kani::cover!(true, "end");
}


/// as `expect_block`, but returns right after `Deck::interrupt` at (byte, bit)
fn expect_block_until<D: Deck>(d: &mut D, buf: &VBuf, off: usize, at: (usize, u8)) {
    let t = d.tap();
    run_out_pulse(t);
    let r = t.process_clocks(any_step());
    kani::assert(r.is_ok(), "c11.run.block_loads");
    kani::assert(
        t.state == TapeState::Pilot { pulses_left: spec_pilot_pulses(buf.data[off + 2]) },
        "c11.run.8063_pulses_iff_flag_0_else_3223",
    );
    t.state = TapeState::Pilot { pulses_left: 1 };
    expect_edge(t, S_SYNC1);
    expect_edge(t, S_SYNC2);
    let mut j = 0;
    while j <= at.0 {
        let b = buf.data[off + 2 + j];
        let mut bit = 8;
        while bit > 0 {
            bit -= 1;
            if (j, bit) == at {
                d.interrupt();
                return;
            }
            let l = spec_bit_len(b, 1u8 << bit);
            expect_edge(d.tap(), l);
            expect_edge(d.tap(), l);
        }
        j += 1;
    }
}

fn noop_screen_clocks<FB: crate::host::FrameBuffer>(_s: &mut crate::zx::video::screen::ZXScreen<FB>, _clocks: usize) {}

// @harness
// @prop C11 C12
// @tier quick
// @timeout 600
// @fn ZXController::wait_internal; ZXTape::process_clocks (dispatch); Tap::process_clocks; ZXTape::default; Empty::*
// @sym tape inside a 48K controller in a symbolic asset-free state (each of Stop, Pilot, Sync, NextBit, BitHalf, Pause with arbitrary delay/level/byte), bus wait of c in 1..=16 T-states
// @assert wait_internal(c) feeds exactly c T-states to the tape: afterwards the tape equals a twin advanced by process_clocks(c), no emulation error is recorded; the controller's default tape (Empty) ignores time and every deck command, reads low, never fast-loads and yields no block
// @bound one wait per state variant; unwind 3
// @stub ZXScreen::process_clocks -> no-op (video is not the subject)
// @replay solver-only
#[kani::proof]
#[kani::unwind(3)]
#[kani::stub(crate::zx::video::screen::ZXScreen::process_clocks, noop_screen_clocks)]
fn c11_wait_internal_feeds_tape() {
    let mut c = crate::zx::controller::verif_hooks::mk_controller(ZXMachine::Sinclair48K, FbCtx { wx: 0, wy: 0 }, false, false);
    // default tape: Empty
    c.tape.play();
    c.tape.stop();
    kani::assert(c.tape.rewind().is_ok() && c.tape.process_clocks(kani::any()).is_ok(), "c12.empty.commands_ok");
    kani::assert(!c.tape.current_bit() && !c.tape.can_fast_load(), "c12.empty.silent_no_fast_load");
    kani::assert(matches!(c.tape.next_block(), Ok(false)) && matches!(c.tape.next_block_byte(), Ok(None)), "c12.empty.no_blocks");
    c.wait_internal(any_step());
    kani::assert(!crate::zx::controller::verif_hooks::has_error(&c), "c12.empty.no_error");
    wait_case(&mut c, K_STOP);
    wait_case(&mut c, K_PILOT);
    wait_case(&mut c, K_SYNC);
    wait_case(&mut c, K_NEXT_BIT);
    wait_case(&mut c, K_BIT_HALF);
    wait_case(&mut c, K_PAUSE);
    kani::cover!(true, "end");
}

fn wait_case(c: &mut crate::zx::controller::ZXController<VHost>, kind: u8) {
    let empty = VBuf { data: [0; 24], len: 0 };
    let t: VTap = any_tap_with(BufferCursor::new(empty), kind);
    kani::assume(inv_shape(t.state, t.curr_byte));
    let mut twin: VTap = Tap {
        asset: BufferCursor::new(empty),
        state: t.state,
        prev_state: t.prev_state,
        buffer: t.buffer,
        buffer_offset: t.buffer_offset,
        block_bytes_read: t.block_bytes_read,
        current_block_size: t.current_block_size,
        tape_ended: t.tape_ended,
        curr_bit: t.curr_bit,
        curr_byte: t.curr_byte,
        delay: t.delay,
    };
    c.tape = ZXTape::Tap(t);
    c.frame_clocks = 100;
    let step = any_step();
    c.wait_internal(step);
    let r = twin.process_clocks(step);
    kani::assert(r.is_ok(), "c11.wait.twin_ok");
    kani::assert(!crate::zx::controller::verif_hooks::has_error(c), "c11.wait.no_error");
    let w = any_witness();
    let got = match &mut c.tape {
        ZXTape::Tap(t) => snap(t, w),
        _ => unreachable!(),
    };
    kani::assert(got == snap(&mut twin, w), "c11.wait.tape_advanced_by_exactly_c");
    kani::assert(c.tape.current_bit() == twin.curr_bit, "c11.wait.ear_is_generator_level");
}

// =================================================================================================
// C10 (3) byte stream: next_block / next_block_byte hand out exactly the block's bytes
// =================================================================================================

/// A block of `l` arbitrary bytes at offset 2 of a 320-byte array (larger than VBuf) behind a
/// real `BufferCursor`, the tape standing right behind `next_block` (window filled with the first
/// min(l,128) bytes, cursor behind them).  The length field is not parsed here: bytes copied out
/// of an array of more than 64 elements are no constants for the solver's symbolic execution, a
/// block length that is not constant makes every copy a symbolic-size memcpy (measured: > 10 GB
/// for l = 0, 1, 2).  Parsing of the length field: c10_stream_inv_next_block (all lengths),
/// c11_run_* / c10_loader_* (real cursor, short blocks).
fn refill_case(l: usize) {
    let data: [u8; 320] = kani::any();
    let first = if l < BUFFER_SIZE { l } else { BUFFER_SIZE };
    let mut asset = BufferCursor::new(&data[..l + 2]);
    let mut buffer = [0u8; BUFFER_SIZE];
    let _ = asset.seek(SeekFrom::Start(2));
    let r = asset.read_exact(&mut buffer[0..first]);
    kani::assert(r.is_ok(), "c10.refill.setup");
    let mut t = Tap {
        asset,
        state: TapeState::Stop,
        prev_state: TapeState::Stop,
        buffer,
        buffer_offset: 0,
        block_bytes_read: 0,
        current_block_size: Some(l),
        tape_ended: false,
        curr_bit: false,
        curr_byte: 0,
        delay: 0,
    };
    let mut i = 0;
    while i < l {
        let r = t.next_block_byte();
        kani::assert(matches!(r, Ok(Some(x)) if x == data[2 + i]), "c10.refill.bytes_in_order");
        i += 1;
    }
    kani::assert(matches!(t.next_block_byte(), Ok(None)), "c10.refill.none_after_last_byte");
    kani::assert(matches!(t.next_block_byte(), Ok(None)), "c10.refill.none_is_sticky");
    kani::assert(t.asset.fp() == l + 2, "c10.refill.cursor_behind_block");
    // no further block: end of tape, repeatedly
    kani::assert(matches!(t.next_block(), Ok(false)), "c10.refill.end_of_tape");
    kani::assert(matches!(t.next_block(), Ok(false)), "c10.refill.end_is_sticky");
}

// @harness
// @prop C10 C15
// @tier quick
// @timeout 600
// @fn Tap::next_block_byte; Tap::next_block; BufferCursor::read; BufferCursor::seek; LoadableAsset::read_exact
// @sym contents of a block of 127, 128, 129 bytes behind a real BufferCursor (the 128-byte window exactly not filled / filled / exceeded by one)
// @assert next_block_byte hands out exactly the block's bytes in order across the window refill, then None (repeatedly); the cursor ends right behind the block; next_block then reports the end of the tape (repeatedly)
// @bound lengths 127, 128, 129; unwind 131; length field not parsed (see refill_case)
#[kani::proof]
#[kani::unwind(131)]
fn c10_stream_len_127_128_129() {
    refill_case(127);
    refill_case(128);
    refill_case(129);
    kani::cover!(true, "end");
}

// @harness
// @prop C10 C15
// @tier quick
// @timeout 900
// @fn Tap::next_block_byte; Tap::next_block; BufferCursor::read; BufferCursor::seek; LoadableAsset::read_exact
// @sym contents of a block of 255, 256, 257 bytes (second window boundary)
// @assert as c10_stream_len_127_128_129
// @bound lengths 255, 256, 257; unwind 259
#[kani::proof]
#[kani::unwind(259)]
fn c10_stream_len_255_256_257() {
    refill_case(255);
    refill_case(256);
    refill_case(257);
    kani::cover!(true, "end");
}

// @harness
// @prop C10 C15
// @tier thorough
// @timeout 1800
// @fn Tap::next_block_byte; Tap::next_block; BufferCursor::read; BufferCursor::seek; LoadableAsset::read_exact
// @sym contents of a block of 300 bytes (three windows)
// @assert as c10_stream_len_127_128_129
// @bound length 300; unwind 302
#[kani::proof]
#[kani::unwind(302)]
fn c10_stream_len_300() {
    refill_case(300);
    kani::cover!(true, "end");
}

/// Tiny blocks with their length fields, through the real cursor over a VBuf (<= 24 bytes, whose
/// elements the solver tracks individually): [block of l bytes][block of 1 byte].
fn small_stream_case(l: usize, take: usize) {
    let buf = image(&[l, 1], 0);
    let mut t = fresh_tap(buf);
    kani::assert(matches!(t.next_block_byte(), Ok(None)), "c10.stream.no_byte_before_first_block");
    kani::assert(matches!(t.next_block(), Ok(true)), "c10.stream.first_block_found");
    let mut i = 0;
    while i < take {
        let r = t.next_block_byte();
        kani::assert(matches!(r, Ok(Some(x)) if x == buf.data[2 + i]), "c10.stream.bytes_in_order");
        i += 1;
    }
    if take == l {
        kani::assert(matches!(t.next_block_byte(), Ok(None)), "c10.stream.none_after_last_byte");
        kani::assert(matches!(t.next_block_byte(), Ok(None)), "c10.stream.none_is_sticky");
    }
    // the following block starts right behind this one, whatever was left unread
    kani::assert(matches!(t.next_block(), Ok(true)), "c10.stream.second_block_found");
    let r = t.next_block_byte();
    kani::assert(matches!(r, Ok(Some(x)) if x == buf.data[l + 4]), "c10.stream.second_block_at_right_offset");
    kani::assert(matches!(t.next_block_byte(), Ok(None)), "c10.stream.second_block_has_one_byte");
    kani::assert(matches!(t.next_block(), Ok(false)), "c10.stream.end_of_tape");
    kani::assert(matches!(t.next_block_byte(), Ok(None)), "c10.stream.nothing_after_end");
    kani::assert(matches!(t.next_block(), Ok(false)), "c10.stream.end_is_sticky");
}

// @harness
// @prop C10 C15
// @tier quick
// @timeout 300
// @fn Tap::from_asset; Tap::next_block; Tap::next_block_byte; BufferCursor::read; LoadableAsset::read_exact
// @sym contents of a block of 0, 1, 2 or 5 bytes and of the following 1-byte block
// @assert next_block + next_block_byte* yields exactly the block's bytes in order, then None (repeatedly); the next block is found at the right offset whether the first one was read completely, partly or not at all; after it the tape ends (false, repeatedly)
// @bound lengths 0, 1, 2, 5; unwind 7
#[kani::proof]
#[kani::unwind(7)]
fn c10_stream_len_0_1_2() {
    small_stream_case(0, 0);
    small_stream_case(1, 1);
    small_stream_case(2, 2);
    small_stream_case(2, 0);
    small_stream_case(5, 5);
    small_stream_case(5, 2);
    kani::cover!(true, "end");
}

// ---- the same for every block length 0..=65535 and every position: one inductive step -----------

/// Asset of arbitrary length of which only one byte is tracked: position `wp` holds `wb`.
/// A read delivers arbitrary bytes in the first two places (block length fields are read with
/// 2-byte reads, so every length value is possible) and the tracked byte where it falls into the
/// read range; the other delivered bytes are irrelevant to the claims checked through the witness.
pub(crate) struct WitAsset {
    pub pos: usize,
    pub len: usize,
    pub wp: usize,
    pub wb: u8,
}

impl LoadableAsset for WitAsset {
    fn read(&mut self, buf: &mut [u8]) -> core::result::Result<usize, crate::error::IoError> {
        if self.pos >= self.len {
            return Err(crate::error::IoError::UnexpectedEof);
        }
        let n = buf.len().min(self.len - self.pos);
        if n >= 1 {
            buf[0] = kani::any();
        }
        if n >= 2 {
            buf[1] = kani::any();
        }
        if self.wp >= self.pos && self.wp - self.pos < n {
            buf[self.wp - self.pos] = self.wb;
        }
        self.pos += n;
        Ok(n)
    }
}

impl SeekableAsset for WitAsset {
    fn seek(&mut self, pos: SeekFrom) -> core::result::Result<usize, crate::error::IoError> {
        if let SeekFrom::Start(p) = pos {
            self.pos = p;
        }
        Ok(self.pos)
    }
}

const MAX_ASSET: usize = 0x40000;

/// Stream representation invariant for a current block whose data start at asset position `s`
/// and whose length is `n`: the window covers block offsets [boff, boff+128), the cursor stands
/// behind the window (or the block), and the window holds the asset's bytes - stated for the
/// tracked byte.
fn inv_stream(t: &Tap<WitAsset>, s: usize, n: usize) -> bool {
    let boff = t.buffer_offset;
    let bbr = t.block_bytes_read;
    let win_end = if n - boff.min(n) > BUFFER_SIZE { boff + BUFFER_SIZE } else { n };
    let a = &t.asset;
    t.current_block_size == Some(n)
        && !t.tape_ended
        && n <= 0xFFFF
        && boff % BUFFER_SIZE == 0
        && boff <= bbr
        && bbr <= n
        && bbr - boff <= BUFFER_SIZE
        && (boff < n || boff == 0)
        && a.pos == s + win_end
        && a.pos <= a.len
        && (!(a.wp >= s + boff && a.wp < s + win_end) || t.buffer[a.wp - s - boff] == a.wb)
}

fn any_wit_tap() -> (Tap<WitAsset>, usize, usize) {
    let a = WitAsset { pos: kani::any(), len: kani::any(), wp: kani::any(), wb: kani::any() };
    kani::assume(a.len <= MAX_ASSET && a.wp < a.len);
    let (s, n): (usize, usize) = (kani::any(), kani::any());
    kani::assume(s >= 2 && s <= MAX_ASSET && n <= 0xFFFF);
    let mut t: Tap<WitAsset> = any_tap_with(a, K_STOP);
    t.tape_ended = false;
    kani::assume(inv_stream(&t, s, n));
    (t, s, n)
}

// @harness
// @prop C10 C15
// @tier quick
// @timeout 600
// @fn Tap::next_block_byte; LoadableAsset::read_exact
// @sym block length n in 0..=65535, block start s, block position (bytes already read, window offset), window contents, asset length (the block may be truncated), one tracked asset byte (position wp, value wb)
// @assert one call of next_block_byte from any state satisfying the stream invariant: at the end of the block it returns None and changes nothing; otherwise it returns the byte at block offset k = bytes read so far - which is the asset's byte at s+k (checked when s+k is the tracked position) - advances by one and re-establishes the invariant, refilling the window at every multiple of 128; if the asset ends inside the block the refill reports Err; no panic, no overflow.  By induction: next_block_byte* hands out asset[s..s+n] in order, then None, for every block length
// @bound single step, all lengths; read_exact rounds <= 2 (unwind 3)
// @assume stream invariant inv_stream (established by c10_stream_inv_next_block, preserved here)
#[kani::proof]
#[kani::unwind(3)]
fn c10_stream_inv_next_byte() {
    let (mut t, s, n) = any_wit_tap();
    let k = t.block_bytes_read;
    let boff0 = t.buffer_offset;
    let pos0 = t.asset.pos;
    let r = t.next_block_byte();
    match r {
        Ok(None) => {
            kani::assert(k == n, "c10.inv.none_only_at_block_end");
            kani::assert(t.block_bytes_read == k && t.buffer_offset == boff0 && t.asset.pos == pos0, "c10.inv.none_changes_nothing");
        }
        Ok(Some(x)) => {
            kani::assert(k < n, "c10.inv.byte_only_inside_block");
            kani::assert(t.block_bytes_read == k + 1, "c10.inv.advances_by_one");
            if s + k == t.asset.wp {
                kani::assert(x == t.asset.wb, "c10.inv.byte_is_asset_byte_at_block_offset");
            }
            kani::assert(inv_stream(&t, s, n), "c10.inv.preserved");
        }
        Err(_) => {
            // only a refill can fail, and only when the asset is shorter than the block
            kani::assert(k < n && k == boff0 + BUFFER_SIZE && t.asset.len < s + n, "c10.inv.err_only_for_truncated_block");
        }
    }
    kani::cover!(matches!(r, Ok(Some(_))) && k == 128 && n == 129, "refill for the last byte of a 129-byte block");
    kani::cover!(matches!(r, Ok(Some(_))) && k == 65534 && n == 65535, "last byte of the longest block");
    kani::cover!(matches!(r, Ok(None)) && n == 256 && k == 256, "end of a 256-byte block");
    kani::cover!(matches!(r, Ok(Some(_))) && s + k == t.asset.wp && k == 300, "tracked byte in the third window");
    kani::cover!(r.is_err(), "truncated block");
}

// @harness
// @prop C10 C15
// @tier quick
// @timeout 600
// @fn Tap::next_block; Tap::next_block_byte; LoadableAsset::read_exact
// @sym as c10_stream_inv_next_byte, with the current block completely read (or no current block: fresh / rewound tape); the next two asset bytes (length field of the following block) arbitrary
// @assert next_block from the end of a block: with fewer than 2 bytes left the tape has ended (false, and again false, bytes None); otherwise the 16-bit little-endian length n' is taken, the new block's data start 2 bytes further, the window holds its first min(n',128) bytes (tracked byte checked) and the stream invariant holds for (s+n+2, n'); a block cut short by the end of the asset reports Err; no panic, no overflow.  Together with c10_stream_inv_next_byte (the skip loop of next_block is next_block_byte*): every next_block finds exactly the next block
// @bound single call from an exhausted block; unwind 3
// @assume stream invariant inv_stream with bytes read = n
#[kani::proof]
#[kani::unwind(3)]
fn c10_stream_inv_next_block() {
    let fresh: bool = kani::any();
    let (mut t, s, n) = any_wit_tap();
    let h; // position of the next length field
    if fresh {
        t.current_block_size = None;
        t.block_bytes_read = 0;
        t.buffer_offset = 0;
        t.asset.pos = 0;
        h = 0;
    } else {
        kani::assume(t.block_bytes_read == n);
        h = s + n;
    }
    let left = t.asset.len - h;
    let r = t.next_block();
    match r {
        Ok(false) => {
            kani::assert(left < 2, "c10.inv.end_only_without_length_field");
            kani::assert(matches!(t.next_block_byte(), Ok(None)), "c10.inv.no_bytes_after_end");
            kani::assert(matches!(t.next_block(), Ok(false)), "c10.inv.end_is_sticky");
        }
        Ok(true) => {
            kani::assert(left >= 2, "c10.inv.block_needs_length_field");
            let n2 = match t.current_block_size {
                Some(x) => x,
                None => usize::MAX,
            };
            kani::assert(n2 <= 0xFFFF && t.block_bytes_read == 0 && t.buffer_offset == 0, "c10.inv.new_block_at_offset_0");
            kani::assert(inv_stream(&t, h + 2, n2), "c10.inv.established_for_next_block");
        }
        Err(_) => {
            kani::assert(left >= 2, "c10.inv.err_only_for_truncated_block");
        }
    }
    kani::cover!(matches!(r, Ok(true)) && t.current_block_size == Some(0), "zero-length block");
    kani::cover!(matches!(r, Ok(true)) && t.current_block_size == Some(65535), "longest block");
    kani::cover!(matches!(r, Ok(true)) && !fresh && n == 300 && t.asset.wp == h + 2 + 5, "tracked byte in the new window");
    kani::cover!(matches!(r, Ok(false)) && left == 1, "stray byte at the end");
    kani::cover!(r.is_err(), "truncated block");
    kani::cover!(matches!(r, Ok(true)) && fresh, "first block of a fresh tape");
}

// =================================================================================================
// C11 (4) for every block length and position: the asset-touching transitions, inductively
// =================================================================================================

// @harness
// @prop C11 C15
// @tier quick
// @timeout 600
// @fn Tap::process_clocks; Tap::next_block_byte; LoadableAsset::read_exact
// @sym generator at the end of the last bit of a byte (state NextByte, delay 0), level and old byte arbitrary; current block of any length n in 0..=65535 at any position k (stream invariant), asset possibly truncated; one tracked asset byte; step c in 1..=16
// @assert in the same call (edge asserted): if bytes remain, the NEXT byte of the block - the asset's byte at block offset k, checked on the tracked byte - becomes the byte being sent, starting with bit 7: first half pulse of 855/1710 T by its most significant bit, state BitHalf(mask 0x80); the stream advances by exactly one byte and the stream invariant is kept, across window refills; after the last byte (k = n) the pause of 3 500 000 T starts and the next block is due (state Play), the stream untouched; a truncated block yields Err; no panic / overflow
// @bound single step = induction over every byte of every block length; unwind 3
// @assume stream invariant inv_stream
#[kani::proof]
#[kani::unwind(3)]
fn c11_next_byte_any_block() {
    let (mut t, s, n) = any_wit_tap();
    t.state = TapeState::NextByte;
    t.delay = 0;
    let k = t.block_bytes_read;
    let lvl = t.curr_bit;
    let old = t.curr_byte;
    let r = t.process_clocks(any_step());
    if r.is_ok() {
        kani::assert(t.curr_bit != lvl, "c11.byte.edge_in_same_call");
        if k < n {
            let b = t.curr_byte;
            if s + k == t.asset.wp {
                kani::assert(b == t.asset.wb, "c11.byte.bytes_in_order");
            }
            let l = spec_bit_len(b, 0x80);
            kani::assert(t.state == TapeState::BitHalf { half_bit_delay: l, mask: 0x80 } && t.delay == l, "c11.byte.msb_first");
            kani::assert(t.block_bytes_read == k + 1 && inv_stream(&t, s, n), "c11.byte.stream_advances_by_one");
        } else {
            kani::assert(t.state == TapeState::Play && t.delay == S_PAUSE, "c11.byte.pause_after_last_byte");
            kani::assert(t.curr_byte == old && t.block_bytes_read == k && inv_stream(&t, s, n), "c11.byte.stream_untouched_in_pause");
        }
    } else {
        kani::assert(k < n && t.asset.len < s + n, "c11.byte.err_only_for_truncated_block");
    }
    kani::cover!(r.is_ok() && k == 0 && n == 19 && t.delay == S_ONE, "flag byte of a header block, msb set");
    kani::cover!(r.is_ok() && k == 128 && n == 6914, "first byte of the second window of a screen-sized block");
    kani::cover!(r.is_ok() && k + 1 == n && n == 65535 && s + k == t.asset.wp, "checksum byte of the longest block, tracked");
    kani::cover!(r.is_ok() && k == n && n == 0, "pause after an empty block");
    kani::cover!(r.is_err(), "truncated block");
}

// @harness
// @prop C11 C15
// @tier quick
// @timeout 600
// @fn Tap::process_clocks; Tap::next_block; Tap::next_block_byte; Tap::rewind; LoadableAsset::read_exact
// @sym generator with the pause elapsed (state Play, delay 0), level, old byte and prev_state arbitrary; previous block of any length completely sent (or fresh / rewound tape); following asset bytes arbitrary (any length field, possibly truncated); one tracked asset byte; step c in 1..=16
// @assert the next block of the image starts: level high, 2168 T, pilot counter 8063 iff the block's first byte (tracked) is 0x00 else 3223, that flag byte is the byte that will be sent first after the sync pulses, the stream stands at the block's second byte and the stream invariant holds for the new block; with fewer than 2 bytes left the deck stops with the level low and the stream back at position 0; an empty (length 0) or truncated block yields Err and never a panic
// @bound single step from any exhausted block, all block lengths; unwind 3
// @assume stream invariant inv_stream with all bytes sent (the only way into Play, c11_next_byte_any_block)
// @outside first pilot pulse: may merge with the pause level (no edge asserted), as the property allows
#[kani::proof]
#[kani::unwind(3)]
fn c11_play_any_block() {
    let fresh: bool = kani::any();
    let (mut t, s, n) = any_wit_tap();
    let h;
    if fresh {
        t.current_block_size = None;
        t.block_bytes_read = 0;
        t.buffer_offset = 0;
        t.asset.pos = 0;
        h = 0;
    } else {
        kani::assume(t.block_bytes_read == n);
        h = s + n;
    }
    t.state = TapeState::Play;
    t.delay = 0;
    let left = t.asset.len - h;
    let prev = t.prev_state;
    let r = t.process_clocks(any_step());
    if r.is_ok() {
        if left < 2 {
            kani::assert(t.state == TapeState::Stop && !t.curr_bit && t.delay == 0, "c11.play.end_stops_deck_level_low");
            kani::assert(
                t.asset.pos == 0 && t.current_block_size.is_none() && t.block_bytes_read == 0 && t.buffer_offset == 0 && !t.tape_ended,
                "c11.play.end_position_at_start",
            );
        } else {
            let n2 = match t.current_block_size {
                Some(x) => x,
                None => 0,
            };
            let flag = t.curr_byte;
            kani::assert(n2 >= 1 && inv_stream(&t, h + 2, n2) && t.block_bytes_read == 1, "c11.play.stream_at_second_byte_of_next_block");
            if t.asset.wp == h + 2 {
                kani::assert(flag == t.asset.wb, "c11.play.flag_byte_is_first_byte_of_block");
            }
            kani::assert(t.curr_bit && t.delay == S_PILOT, "c11.play.pilot_starts_high_2168");
            kani::assert(t.state == TapeState::Pilot { pulses_left: spec_pilot_pulses(flag) }, "c11.play.8063_pulses_iff_flag_0_else_3223");
            kani::assert(t.prev_state == prev, "c11.play.saved_state_untouched");
        }
    } else {
        kani::assert(left >= 2 && t.state == TapeState::Play, "c11.play.err_only_for_empty_or_truncated_block");
    }
    kani::cover!(r.is_ok() && left >= 2 && t.curr_byte == 0 && t.current_block_size == Some(19), "header block");
    kani::cover!(r.is_ok() && left >= 2 && t.curr_byte == 0xFF && t.current_block_size == Some(65535) && !fresh, "longest data block after another block");
    kani::cover!(r.is_ok() && left == 1, "stray byte: end of tape");
    kani::cover!(r.is_err() && t.current_block_size == Some(0), "empty block: Err");
    kani::cover!(r.is_ok() && fresh && left >= 2, "first block of a fresh tape");
}

// ---- lead helpers ---------------------------------------------------------------------------------

/// A loaded, stopped tape whose EAR level is `level` (for the port-read harness of C07).
pub(crate) fn stopped_tape_with_level(level: bool) -> Tap<crate::host::BufferCursor<crate::verif_hooks::VBuf>> {
    let mut t = match Tap::from_asset(crate::host::BufferCursor::new(crate::verif_hooks::VBuf { data: [0; 24], len: 0 })) {
        Ok(t) => t,
        Err(_) => unreachable!(),
    };
    t.curr_bit = level;
    t
}

// ---- lead: C16 - the tape reader must not depend on how the host asset chunks its reads ----------

/// Tape asset that returns short reads: one byte at a time when `boundary == 0`, otherwise as much as
/// asked for but never across file offset `boundary` (both literal per case: with symbolic read sizes
/// the destination offsets in the tape buffer become symbolic and the query needs > 12 GB).
pub(crate) struct ChunkyTape {
    pub data: [u8; 8],
    pub len: usize,
    pub pos: usize,
    pub boundary: usize,
}

impl LoadableAsset for ChunkyTape {
    fn read(&mut self, buf: &mut [u8]) -> core::result::Result<usize, crate::error::IoError> {
        if self.pos >= self.len {
            // same end-of-file convention as the in-memory cursor
            return Err(crate::error::IoError::UnexpectedEof);
        }
        if buf.is_empty() {
            return Ok(0);
        }
        let avail = self.len - self.pos;
        let mut n = if buf.len() < avail { buf.len() } else { avail };
        if self.boundary == 0 {
            n = 1;
        } else if self.pos < self.boundary && self.pos + n > self.boundary {
            n = self.boundary - self.pos;
        }
        let mut i = 0;
        while i < 8 {
            if i < n {
                buf[i] = self.data[self.pos + i];
            }
            i += 1;
        }
        self.pos += n;
        Ok(n)
    }
}

impl SeekableAsset for ChunkyTape {
    fn seek(&mut self, pos: SeekFrom) -> core::result::Result<usize, crate::error::IoError> {
        match pos {
            SeekFrom::Start(p) => self.pos = p,
            SeekFrom::End(d) => self.pos = (self.len as isize + d) as usize,
            SeekFrom::Current(d) => self.pos = (self.pos as isize + d) as usize,
        }
        Ok(self.pos)
    }
}

// @harness
// @prop C16 C10
// @tier quick
// @timeout 900
// @fn Tap::from_asset; Tap::next_block; Tap::next_block_byte; LoadableAsset::read_exact (as used by the tape reader)
// @sym contents of a two-block tape image (block lengths 2 and 1: layout literal, bytes symbolic) and the read chunking of the host asset: one byte per read, or full reads that never cross file offset k for every k = 1..6 (so every possible split point, including inside both length words)
// @assert whatever the read chunking, the first block is found and delivers exactly its two bytes in order (a mis-framed reader is caught here before any later, mis-sized read is attempted)
// @bound 7-byte image, first block only (unwind 10)
#[kani::proof]
#[kani::unwind(10)]
fn c16_tape_first_block_does_not_depend_on_read_chunking() {
    let sel: u8 = kani::any();
    kani::assume(sel < 4);
    match sel {
        0 => tape_chunk_first_block(0),
        1 => tape_chunk_first_block(1),
        2 => tape_chunk_first_block(2),
        _ => tape_chunk_first_block(3),
    }
}

// @harness
// @prop C16 C10
// @tier quick
// @timeout 900
// @fn Tap::from_asset; Tap::next_block; Tap::next_block_byte; LoadableAsset::read_exact (as used by the tape reader)
// @sym contents of a two-block tape image (block lengths 2 and 1: layout literal, bytes symbolic) and the read chunking of the host asset: one byte per read, or full reads that never cross file offset k for every k = 1..6 (so every possible split point, including inside both length words)
// @assert whatever the read chunking, the tape reader delivers exactly the image's blocks: block 1 = its two bytes in order, block 2 = its byte, then end of tape - the same as with the in-memory cursor (C10's stream harnesses)
// @bound 7-byte image, two blocks (unwind 10)
#[kani::proof]
#[kani::unwind(10)]
fn c16_tape_blocks_do_not_depend_on_read_chunking() {
    let sel: u8 = kani::any();
    kani::assume(sel < 7);
    match sel {
        0 => tape_chunk_case(0), // one byte per read
        1 => tape_chunk_case(1), // split inside the first length word
        2 => tape_chunk_case(2),
        3 => tape_chunk_case(3), // split inside block 1
        4 => tape_chunk_case(4),
        5 => tape_chunk_case(5), // split inside the second length word
        _ => tape_chunk_case(6),
    }
}

fn chunky_tap(boundary: usize, b0: u8, b1: u8, c0: u8) -> Tap<ChunkyTape> {
    let asset = ChunkyTape { data: [2, 0, b0, b1, 1, 0, c0, 0], len: 7, pos: 0, boundary };
    match Tap::from_asset(asset) {
        Ok(t) => t,
        Err(_) => unreachable!(),
    }
}

fn tape_chunk_first_block(boundary: usize) {
    let (b0, b1, c0): (u8, u8, u8) = (kani::any(), kani::any(), kani::any());
    let mut t = chunky_tap(boundary, b0, b1, c0);
    kani::assert(matches!(t.next_block(), Ok(true)), "c16.tape_chunks.first_block_found");
    kani::assert(matches!(t.next_block_byte(), Ok(Some(x)) if x == b0), "c16.tape_chunks.block1_byte0");
    kani::assert(matches!(t.next_block_byte(), Ok(Some(x)) if x == b1), "c16.tape_chunks.block1_byte1");
    kani::assert(matches!(t.next_block_byte(), Ok(None)), "c16.tape_chunks.block1_ends");
    kani::cover!(t.asset.pos >= 4, "first block consumed");
}

fn tape_chunk_case(boundary: usize) {
    let (b0, b1, c0): (u8, u8, u8) = (kani::any(), kani::any(), kani::any());
    let mut t = chunky_tap(boundary, b0, b1, c0);
    kani::assert(matches!(t.next_block(), Ok(true)), "c16.tape_chunks.first_block_found");
    kani::assert(matches!(t.next_block_byte(), Ok(Some(x)) if x == b0), "c16.tape_chunks.block1_byte0");
    kani::assert(matches!(t.next_block_byte(), Ok(Some(x)) if x == b1), "c16.tape_chunks.block1_byte1");
    kani::assert(matches!(t.next_block_byte(), Ok(None)), "c16.tape_chunks.block1_ends");
    kani::assert(matches!(t.next_block(), Ok(true)), "c16.tape_chunks.second_block_found");
    kani::assert(matches!(t.next_block_byte(), Ok(Some(x)) if x == c0), "c16.tape_chunks.block2_byte0");
    kani::assert(matches!(t.next_block_byte(), Ok(None)), "c16.tape_chunks.block2_ends");
    kani::assert(matches!(t.next_block(), Ok(false)), "c16.tape_chunks.end_of_tape");
    kani::cover!(t.asset.pos == 7, "whole image consumed");
}

// ---- lead: long blocks through a synthetic asset ----------------------------------------------------
// A tape image computed from its position instead of stored in an array: bytes read out of an array of
// more than 64 elements are not constants for CBMC, so a length field parsed from such an array turns
// every later copy into a symbolic-size memcpy (> 10 GB).  Here header bytes are literals, data bytes
// are `seed ^ position`, and the byte(s) of the second block are symbolic fields.

pub(crate) struct SynthTape {
    pub pos: usize,
    pub len: usize,      // bytes present in the image
    pub len1: u8,        // length of block 1 (its header is at 0..2, data at 2..2+len1)
    pub len2: u8,        // claimed length of block 2 (header right behind block 1)
    pub seed: u8,
    pub x: u8,           // first data byte of block 2
}

impl SynthTape {
    fn byte_at(&self, p: usize) -> u8 {
        let h2 = 2 + self.len1 as usize;
        if p == 0 {
            self.len1
        } else if p == 1 || p == h2 + 1 {
            0
        } else if p < h2 {
            self.seed ^ (p as u8)
        } else if p == h2 {
            self.len2
        } else {
            self.x
        }
    }
}

impl LoadableAsset for SynthTape {
    fn read(&mut self, buf: &mut [u8]) -> core::result::Result<usize, crate::error::IoError> {
        if self.pos >= self.len {
            return Err(crate::error::IoError::UnexpectedEof);
        }
        let avail = self.len - self.pos;
        let n = if buf.len() < avail { buf.len() } else { avail };
        let mut i = 0;
        while i < n {
            buf[i] = self.byte_at(self.pos + i);
            i += 1;
        }
        self.pos += n;
        Ok(n)
    }
}

impl SeekableAsset for SynthTape {
    fn seek(&mut self, pos: SeekFrom) -> core::result::Result<usize, crate::error::IoError> {
        match pos {
            SeekFrom::Start(p) => self.pos = p,
            SeekFrom::End(d) => self.pos = (self.len as isize + d) as usize,
            SeekFrom::Current(d) => self.pos = (self.pos as isize + d) as usize,
        }
        Ok(self.pos)
    }
}

// @harness
// @prop C15 C10
// @tier quick
// @timeout 900
// @fn Tap::next_block; Tap::next_block_byte; Tap::process_clocks; Tap::play; LoadableAsset::read_exact
// @sym contents of a 129-byte block (longer than the 128-byte read buffer, so the buffer has been refilled once) and the data byte of a following block that is TRUNCATED (claims 2 bytes, 1 present)
// @assert consuming the long block delivers its bytes in order; stepping to the truncated block returns Err (not a panic); after that error every further use of the tape - asking for a byte, stepping again, pressing play and letting time pass - returns Ok or Err without panic, arithmetic overflow or out-of-bounds access
// @bound one 129-byte block + one truncated block (unwind 135)
#[kani::proof]
#[kani::unwind(135)]
fn c15_tape_usable_after_error_behind_a_long_block() {
    let seed: u8 = kani::any();
    let asset = SynthTape { pos: 0, len: 2 + 129 + 2 + 1, len1: 129, len2: 2, seed, x: kani::any() };
    let mut t = match Tap::from_asset(asset) {
        Ok(t) => t,
        Err(_) => unreachable!(),
    };
    kani::assert(matches!(t.next_block(), Ok(true)), "c15.tape_err.long_block_found");
    let mut i = 0usize;
    let mut ok = true;
    while i < 129 {
        ok &= matches!(t.next_block_byte(), Ok(Some(b)) if b == seed ^ ((2 + i) as u8));
        i += 1;
    }
    kani::assert(ok, "c15.tape_err.long_block_bytes");
    kani::assert(t.next_block().is_err(), "c15.tape_err.truncated_block_is_an_error");
    // the deck is still there: none of these may panic (Kani's implicit checks are the assertion)
    let r1 = t.next_block_byte();
    let r2 = t.next_block();
    t.play();
    let r3 = t.process_clocks(1);
    let r4 = t.process_clocks(3_500_000);
    let r5 = t.process_clocks(8);
    kani::cover!(r1.is_ok() || r1.is_err(), "byte request after the error returned");
    kani::cover!(r2.is_ok() || r2.is_err(), "step after the error returned");
    kani::cover!((r3.is_ok() || r3.is_err()) && (r4.is_ok() || r4.is_err()) && (r5.is_ok() || r5.is_err()), "playing after the error returned");
}

// @harness
// @prop C10
// @tier quick
// @timeout 900
// @fn Tap::next_block (skipping the unread rest of the previous block); Tap::next_block_byte; LoadableAsset::read_exact
// @sym the byte of the block that follows a 130-byte block (longer than the 128-byte read buffer; its contents are literal); how many bytes of the first block a request consumed before the next request arrives: 0, 1, 127, 128, 129 or all 130 (literal cases, incl. exactly one buffer)
// @assert every request consumes exactly the next block: after a request that stopped anywhere inside the long block (also exactly at the 128-byte buffer boundary), the next request finds the FOLLOWING block - its byte, then its end, then the end of the tape
// @bound 130-byte block + 1-byte block (unwind 135)
#[kani::proof]
#[kani::unwind(135)]
fn c10_partial_request_is_followed_by_the_next_block() {
    let sel: u8 = kani::any();
    kani::assume(sel < 6);
    match sel {
        0 => partial_then_next(0),
        1 => partial_then_next(1),
        2 => partial_then_next(127),
        3 => partial_then_next(128),
        4 => partial_then_next(129),
        _ => partial_then_next(130),
    }
}

fn partial_then_next(consumed: usize) {
    // the data bytes of the long block are literal (0xA5 ^ position): a mis-framing reader then parses a
    // CONSTANT wrong length instead of a symbolic one, which keeps the query decidable on broken code too
    let seed: u8 = 0xA5;
    let x: u8 = kani::any();
    let asset = SynthTape { pos: 0, len: 2 + 130 + 2 + 1, len1: 130, len2: 1, seed, x };
    let mut t = match Tap::from_asset(asset) {
        Ok(t) => t,
        Err(_) => unreachable!(),
    };
    kani::assert(matches!(t.next_block(), Ok(true)), "c10.partial.first_block_found");
    let mut i = 0usize;
    while i < 130 {
        if i < consumed {
            kani::assert(matches!(t.next_block_byte(), Ok(Some(b)) if b == seed ^ ((2 + i) as u8)), "c10.partial.bytes_in_order");
        }
        i += 1;
    }
    kani::assert(matches!(t.next_block(), Ok(true)), "c10.partial.next_block_found");
    kani::assert(matches!(t.next_block_byte(), Ok(Some(b)) if b == x), "c10.partial.next_block_is_the_following_block");
    kani::assert(matches!(t.next_block_byte(), Ok(None)), "c10.partial.next_block_ends");
    kani::assert(matches!(t.next_block(), Ok(false)), "c10.partial.end_of_tape");
    kani::cover!(x == 0x5A, "following block delivered");
}

// ---- lead helpers for the controller-level tape-time harness ---------------------------------------

/// A playing tape in the middle of a long pulse (pilot, `delay` T-states left).
pub(crate) fn playing_tape_with_delay(delay: usize) -> Tap<crate::host::BufferCursor<crate::verif_hooks::VBuf>> {
    let mut t = stopped_tape_with_level(false);
    t.state = TapeState::Pilot { pulses_left: 100 };
    t.delay = delay;
    t
}

pub(crate) fn delay_left(t: &Tap<crate::host::BufferCursor<crate::verif_hooks::VBuf>>) -> usize {
    t.delay
}
