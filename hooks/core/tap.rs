//! Kani harnesses compiled as a child module of rustzx-core/src/zx/tape/tap.rs (cfg(kani) only).
