//! Kani harnesses compiled as a child module of aym/src/backends/precise.rs (cfg(kani) only).
//! Property C18, integer generator part: register decode, tone/noise/envelope counters, mixer gate,
//! stereo panning arguments, and the chip-clock/8 tick rate of the resampler.  The float DSP
//! (interpolator, FIR decimator, DC filter) is outside the claim.
#![allow(dead_code)]
use super::*;

fn mk(rate: usize) -> AymPrecise {
    AymPrecise::new(false, 1_773_400.0, rate)
}

// ---- specification: register file -> generator parameters (AY-3-8910 data sheet) --------------

fn spec_tone_period(r: &[u8; 14], ch: usize) -> u16 {
    let p = (r[2 * ch] as u16) | (((r[2 * ch + 1] & 0x0F) as u16) << 8);
    if p == 0 {
        1
    } else {
        p
    }
}
fn spec_noise_period(r: &[u8; 14]) -> u16 {
    let p = (r[6] & 0x1F) as u16;
    if p == 0 {
        1
    } else {
        p
    }
}
fn spec_env_period(r: &[u8; 14]) -> u16 {
    let p = (r[11] as u16) | ((r[12] as u16) << 8);
    if p == 0 {
        1
    } else {
        p
    }
}

/// representation invariant: the decoded fields agree with the register file
fn decoded_ok(ay: &AymPrecise, fresh: bool) -> bool {
    let r = &ay.registers;
    let mut ok = (ay.noise_period == spec_noise_period(r) || (ay.noise_period == 0 && fresh)) && ay.envelope_period == spec_env_period(r) && ay.envelope_shape == (r[13] & 0x0F) as usize;
    let mut ch = 0;
    while ch < 3 {
        let c = &ay.channels[ch];
        ok &= c.tone_period == spec_tone_period(r, ch);
        ok &= c.tone_off_bit == ((r[7] >> ch) & 1) as usize;
        ok &= c.noise_off_bit == ((r[7] >> (3 + ch)) & 1) as usize;
        ok &= c.envelope_enabled == (r[8 + ch] & 0x10 != 0);
        ok &= c.volume == (r[8 + ch] & 0x0F) as usize;
        ch += 1;
    }
    ok
}

/// force the decoded fields to agree with an arbitrary register file
fn any_decoded_state(ay: &mut AymPrecise) {
    let r: [u8; 14] = kani::any();
    ay.registers = r;
    ay.noise_period = spec_noise_period(&r);
    ay.envelope_period = spec_env_period(&r);
    ay.envelope_shape = (r[13] & 0x0F) as usize;
    let mut ch = 0;
    while ch < 3 {
        ay.channels[ch].tone_period = spec_tone_period(&r, ch);
        ay.channels[ch].tone_off_bit = ((r[7] >> ch) & 1) as usize;
        ay.channels[ch].noise_off_bit = ((r[7] >> (3 + ch)) & 1) as usize;
        ay.channels[ch].envelope_enabled = r[8 + ch] & 0x10 != 0;
        ay.channels[ch].volume = (r[8 + ch] & 0x0F) as usize;
        ch += 1;
    }
}

fn shape_starts_high(shape: usize) -> bool {
    // 00xx and 10xx start with a decay from the top; 01xx and 11xx with an attack from zero
    shape & 0x04 == 0
}

// @harness
// @prop C18
// @tier quick
// @timeout 600
// @fn AymPrecise::write_register; set_tone; set_noise; set_mixer; set_volume; set_envelope; set_envelope_shape; reset_segment; AymPrecise::new
// @sym complete register file R0-R13 (with consistent decoded state), one register write (any address 0..255, any value)
// @assert after any write the generator parameters are the data-sheet decode of the register file: 12-bit tone periods (0 acting as 1), 5-bit noise period (0 as 1), 16-bit envelope period (0 as 1), mixer bits gate tone (bits 0-2) and noise (bits 3-5) per channel, 4-bit volume, bit 4 of R8-R10 selects the envelope; writing R13 restarts the envelope at the top (decay shapes) or at zero (attack shapes); writes to addresses >= 14 (I/O ports R14/R15 and beyond) change nothing in the generator; fresh chip = all registers zero decoded
// @bound one write from an arbitrary consistent state (inductive over register histories)
#[kani::proof]
#[kani::unwind(16)]
fn c18_register_decode() {
    let mut ay = mk(44100);
    // before R6 is first written the noise period of a fresh chip is left unconstrained (the statement
    // defines noise periods 1..31 only)
    kani::assert(decoded_ok(&ay, true), "c18.decode.reset_state_consistent");
    any_decoded_state(&mut ay);
    let env0 = (ay.envelope, ay.envelope_counter, ay.envelope_segment);
    let tone0 = (ay.channels[0].tone, ay.channels[0].tone_counter, ay.noise, ay.noise_counter);
    let before = ay.registers;
    let addr: u8 = kani::any();
    let value: u8 = kani::any();
    ay.write_register(addr, value);
    if addr < 14 {
        kani::assert(ay.registers[addr as usize] == value, "c18.decode.register_stored");
    } else {
        let mut same = true;
        let mut i = 0;
        while i < 14 {
            same &= ay.registers[i] == before[i];
            i += 1;
        }
        kani::assert(same, "c18.decode.io_registers_do_not_reach_generator");
    }
    kani::assert(decoded_ok(&ay, false), "c18.decode.fields_follow_registers");
    if addr == 13 {
        kani::assert(ay.envelope_counter == 0 && ay.envelope_segment == 0, "c18.decode.r13_restarts_envelope");
        kani::assert(ay.envelope == if shape_starts_high((value & 0x0F) as usize) { 31 } else { 0 }, "c18.decode.r13_start_level");
    } else {
        kani::assert((ay.envelope, ay.envelope_counter, ay.envelope_segment) == env0, "c18.decode.envelope_phase_kept");
    }
    kani::assert((ay.channels[0].tone, ay.channels[0].tone_counter, ay.noise, ay.noise_counter) == tone0, "c18.decode.counters_kept");
    kani::cover!(addr == 1 && value == 0xFF && ay.channels[0].tone_period == 0x0FFF, "12-bit tone period");
    kani::cover!(addr == 0 && ay.channels[0].tone_period == 1 && value == 0, "tone period 0 acts as 1");
    kani::cover!(addr == 13 && value == 0x0E, "envelope shape write");
    kani::cover!(addr == 15, "I/O register");
}

// @harness
// @prop C18
// @tier quick
// @timeout 600
// @fn AymPrecise::update_tone; AymPrecise::update_noise
// @sym channel, tone period 1..4095, tone counter < period, tone level; noise period 1..31, noise counter < 2*period, 17-bit shift register
// @assert per generator tick (chip clock / 8): the tone output toggles exactly when the counter completes `period` ticks (square wave of f_clk/(16*TP)), otherwise only the counter advances; the noise register shifts once every 2*NP ticks (clock f_clk/(16*NP)) as a 17-bit LFSR with taps 0 and 3, output = bit 0, never becomes zero; counters stay below their period (invariant)
// @bound one tick from an arbitrary in-range state (k-induction over ticks)
#[kani::proof]
fn c18_tone_and_noise_tick() {
    let mut ay = mk(44100);
    let ch: usize = kani::any();
    kani::assume(ch < 3);
    let period: u16 = kani::any();
    kani::assume(period >= 1 && period <= 0x0FFF);
    let counter: u16 = kani::any();
    kani::assume(counter < period);
    let level: usize = kani::any();
    kani::assume(level <= 1);
    ay.channels[ch].tone_period = period;
    ay.channels[ch].tone_counter = counter;
    ay.channels[ch].tone = level;
    let out = ay.update_tone(ch);
    if counter + 1 == period {
        kani::assert(ay.channels[ch].tone == level ^ 1 && ay.channels[ch].tone_counter == 0, "c18.tone.toggles_every_period_ticks");
    } else {
        kani::assert(ay.channels[ch].tone == level && ay.channels[ch].tone_counter == counter + 1, "c18.tone.holds_between_toggles");
    }
    kani::assert(out == ay.channels[ch].tone && out <= 1, "c18.tone.output_is_level");
    kani::assert(ay.channels[ch].tone_counter < period, "c18.tone.counter_invariant");
    // noise
    let np: u16 = kani::any();
    kani::assume(np >= 1 && np <= 31);
    let nc: u16 = kani::any();
    kani::assume(nc < 2 * np);
    let lfsr: usize = kani::any();
    kani::assume(lfsr >= 1 && lfsr < (1 << 17));
    ay.noise_period = np;
    ay.noise_counter = nc;
    ay.noise = lfsr;
    let nout = ay.update_noise();
    if nc + 1 == 2 * np {
        let fb = (lfsr ^ (lfsr >> 3)) & 1;
        kani::assert(ay.noise == (lfsr >> 1) | (fb << 16) && ay.noise_counter == 0, "c18.noise.lfsr_17bit_taps_0_3_every_2np_ticks");
    } else {
        kani::assert(ay.noise == lfsr && ay.noise_counter == nc + 1, "c18.noise.holds_between_shifts");
    }
    kani::assert(nout == ay.noise & 1, "c18.noise.output_bit0");
    kani::assert(ay.noise >= 1 && ay.noise < (1 << 17) && ay.noise_counter < 2 * np, "c18.noise.invariant");
    kani::cover!(counter + 1 == period && period == 0x0FFF, "longest tone period completes");
    kani::cover!(nc + 1 == 2 * np && np == 31, "longest noise period completes");
}

/// documented envelope level (32-step resolution) k steps after the shape was written
fn spec_envelope_level(shape: usize, k: usize) -> usize {
    let phase = k / 32;
    let pos = k % 32;
    let down = 31 - pos;
    let first_down = shape_starts_high(shape);
    if phase == 0 {
        return if first_down { down } else { pos };
    }
    match shape {
        0..=3 | 9 => 0,       // \___
        4..=7 | 15 => 0,      // /___
        8 => down,            // \\\\
        10 => if phase % 2 == 1 { pos } else { down },   // \/\/
        11 => 31,             // \~~~
        12 => pos,            // ////
        13 => 31,             // /~~~
        _ => if phase % 2 == 1 { down } else { pos },    // 14: /\/\
    }
}

// @harness
// @prop C18
// @tier quick
// @timeout 900
// @fn AymPrecise::update_envelope; slide_up; slide_down; hold_top; hold_bottom; reset_segment; set_envelope_shape; ENVELOPES; ENVELOPE_RESET_TO_MAX
// @sym envelope shape 0..15, envelope period 1..65535 with arbitrary counter below it, number of period expiries k <= 66
// @assert after R13 is written the level follows the documented pattern of each of the 16 shape codes (decay / attack first, then hold low, hold high, repeat or alternate), one 1/32 step per envelope-period expiry, for 66 consecutive expiries (two full ramps and the turn-arounds); between expiries nothing moves
// @bound 66 expiries (unwind 68) - the patterns are periodic with period <= 64 after the first ramp
#[kani::proof]
#[kani::unwind(68)]
fn c18_envelope_shapes() {
    let mut ay = mk(44100);
    let shape: usize = kani::any();
    kani::assume(shape < 16);
    ay.write_register(13, shape as u8);
    kani::assert(ay.envelope == spec_envelope_level(shape, 0), "c18.env.start_level");
    // a tick that does not complete the period moves nothing
    let ep: u16 = kani::any();
    kani::assume(ep >= 2);
    let cnt: u16 = kani::any();
    kani::assume(cnt < ep - 1);
    ay.envelope_period = ep;
    ay.envelope_counter = cnt;
    let lvl = ay.update_envelope();
    kani::assert(lvl == spec_envelope_level(shape, 0) && ay.envelope_counter == cnt + 1, "c18.env.holds_between_expiries");
    // now every tick is an expiry
    ay.envelope_period = 1;
    ay.envelope_counter = 0;
    let k: usize = kani::any();
    kani::assume(k >= 1 && k <= 66);
    let mut i = 0;
    let mut ok = true;
    while i < 66 {
        if i < k {
            let l = ay.update_envelope();
            ok &= l == spec_envelope_level(shape, i + 1);
        }
        i += 1;
    }
    kani::assert(ok, "c18.env.documented_pattern");
    kani::assert(ay.envelope < 32, "c18.env.level_is_5_bits");
    kani::cover!(shape == 10 && k == 66, "triangle shape through two turn-arounds");
    kani::cover!(shape == 13 && k == 40 && ay.envelope == 31, "attack then hold high");
    kani::cover!(shape == 15 && k == 33 && ay.envelope == 0, "attack then drop");
}

// @harness
// @prop C18
// @tier quick
// @timeout 900
// @fn AymPrecise::update_mixer; update_tone; update_noise; update_envelope; AY_DAC_TABLE; YM_DAC_TABLE
// @sym chip type, per-channel tone level/gates/volume/envelope flag, noise register, envelope level, tone counters far from toggling
// @assert the DAC index of every channel is ((tone | tone_off) & (noise | noise_off)) * (envelope level if bit 4 else 2*volume+1), always < 32 (no panic); with all gates open and pans (1,0) the left sum is the sum of the three DAC values; both DAC tables grow strictly with the 4-bit volume and weakly with the 5-bit envelope level, from 0 to 1
// @bound one mixer tick from an arbitrary state; float sums only over the three table entries
#[kani::proof]
#[kani::unwind(5)]
fn c18_mixer_gate_and_dac() {
    let mut ay = mk(44100);
    if kani::any() {
        ay.dac_table = &YM_DAC_TABLE;
    }
    let mut idx = [0usize; 3];
    let env: usize = kani::any();
    kani::assume(env < 32);
    ay.envelope = env;
    ay.envelope_period = 0xFFFF;
    ay.envelope_counter = 0;
    ay.noise_period = 31;
    ay.noise_counter = 0;
    let lfsr: usize = kani::any();
    kani::assume(lfsr >= 1 && lfsr < (1 << 17));
    ay.noise = lfsr;
    let mut ch = 0;
    while ch < 3 {
        let c = &mut ay.channels[ch];
        c.tone_period = 0x0FFF;
        c.tone_counter = 0;
        c.tone = kani::any::<bool>() as usize;
        c.tone_off_bit = kani::any::<bool>() as usize;
        c.noise_off_bit = kani::any::<bool>() as usize;
        c.envelope_enabled = kani::any();
        let v: usize = kani::any();
        kani::assume(v < 16);
        c.volume = v;
        c.pan_left = 1.0;
        c.pan_right = 0.0;
        let gate = (c.tone | c.tone_off_bit) & ((lfsr & 1) | c.noise_off_bit);
        idx[ch] = gate * if c.envelope_enabled { env } else { 2 * v + 1 };
        ch += 1;
    }
    ay.update_mixer();
    let t = ay.dac_table;
    kani::assert(idx[0] < 32 && idx[1] < 32 && idx[2] < 32, "c18.mixer.index_in_table");
    kani::assert(ay.left == ((0.0 + t[idx[0]] * 1.0) + t[idx[1]] * 1.0) + t[idx[2]] * 1.0, "c18.mixer.sum_of_gated_dac_levels");
    kani::assert(ay.right == 0.0, "c18.mixer.pan");
    // amplitude grows strictly with the 4-bit volume, weakly with the envelope level
    let v: usize = kani::any();
    kani::assume(v < 15);
    kani::assert(t[2 * v + 1] < t[2 * (v + 1) + 1], "c18.dac.strictly_increasing_in_volume");
    let e: usize = kani::any();
    kani::assume(e < 31);
    kani::assert(t[e] <= t[e + 1] && t[0] == 0.0 && t[31] == 1.0, "c18.dac.monotone_in_envelope_level");
    kani::cover!(idx[0] == 31 && idx[1] == 0 && idx[2] == 15, "max, gated-off and mid channel");
    kani::cover!(ay.channels[1].envelope_enabled && idx[1] == env && env == 7, "envelope drives amplitude");
}

fn sqrt_identity(x: f64) -> f64 {
    x
}

// @harness
// @prop C18
// @tier quick
// @timeout 600
// @fn <AymPrecise as AymBackend>::new; AymPrecise::set_pan
// @sym stereo mode (all 7)
// @assert channels are panned per the stereo table of the library documentation: Mono = all centre; ABC = A left, B centre, C right; ACB, BAC, BCA, CAB, CBA accordingly; equal-power law arguments: left gain = sqrt(1-p), right gain = sqrt(p) with p = 0 (left), 0.5 (both), 1 (right)
// @bound all 7 modes x 3 channels
// @stub libm::sqrt -> identity (the real one lowers to an SIMD intrinsic Kani does not support); the harness therefore compares the ARGUMENTS of the square roots
// @replay solver-only
#[kani::proof]
#[kani::unwind(5)]
#[kani::stub(libm::sqrt, sqrt_identity)]
fn c18_stereo_panning() {
    let sel: u8 = kani::any();
    kani::assume(sel < 7);
    // position per channel: 0 = left, 1 = both, 2 = right (documentation table in aym/src/lib.rs)
    let (mode, want) = match sel {
        0 => (AyMode::Mono, [1u8, 1, 1]),
        1 => (AyMode::ABC, [0, 1, 2]),
        2 => (AyMode::ACB, [0, 2, 1]),
        3 => (AyMode::BAC, [1, 0, 2]),
        4 => (AyMode::BCA, [2, 0, 1]),
        5 => (AyMode::CAB, [1, 2, 0]),
        _ => (AyMode::CBA, [2, 1, 0]),
    };
    let ay = <AymPrecise as AymBackend>::new(SoundChip::AY, mode, 1_773_400, 44100);
    let mut ch = 0;
    while ch < 3 {
        let p = match want[ch] {
            0 => 0.0,
            1 => 0.5,
            _ => 1.0,
        };
        kani::assert(ay.channels[ch].pan_right == p && ay.channels[ch].pan_left == 1.0 - p, "c18.pan.stereo_table");
        ch += 1;
    }
    kani::cover!(sel == 4, "BCA");
}

// ---- resampler tick rate ------------------------------------------------------------------------
static mut MIXER_TICKS: usize = 0;

fn counting_update_mixer(ay: &mut AymPrecise) {
    unsafe {
        MIXER_TICKS += 1;
    }
    ay.left = 0.0;
    ay.right = 0.0;
}

fn cheap_decimate(_x: &mut [f64]) -> f64 {
    0.0
}

fn resampler_body(rate: usize) {
    let mut ay = mk(rate);
    let clock = 1_773_400usize;
    // generator ticks per output sample = f_clk / 8 / rate
    let x0: f64 = kani::any();
    kani::assume(x0 >= 0.0 && x0 < 1.0);
    ay.x = x0;
    let fi: usize = kani::any();
    kani::assume(fi < FIR_SIZE / DECIMATE_FACTOR - 1);
    ay.fir_index = fi;
    unsafe {
        MIXER_TICKS = 0;
    }
    ay.process();
    let n = unsafe { MIXER_TICKS };
    // exact ticks per sample is clock/(8*rate); n must be one of its two integer neighbours
    let lo = clock / (8 * rate);
    kani::assert(n >= lo && n <= lo + 1, "c18.resampler.generator_runs_at_clock_over_8");
    kani::assert(ay.x >= 0.0 && ay.x < 1.0, "c18.resampler.phase_stays_in_unit_interval");
    kani::cover!(n == lo, "floor");
    kani::cover!(n == lo + 1, "ceil");
}

// @harness
// @prop C18
// @tier quick
// @timeout 900
// @fn AymPrecise::process (resampler loop: x += step, interpolator shift, FIR write positions); AymPrecise::new (step)
// @sym resampler phase x in [0,1), FIR ring index; sample rate fixed to 8000 Hz, chip clock 1773400 Hz
// @assert per output sample the tone/noise/envelope generators advance floor or ceil of f_clk/(8*rate) ticks (so tone frequency is f_clk/(16*TP) at this sample rate) and the resampler phase stays in [0,1) (inductive), which keeps the interpolation polynomial and hence every sample bounded; no out-of-bounds FIR access
// @bound one output sample from an arbitrary phase; sample rate 8000 Hz (rates enumerated: f64 division by a symbolic rate does not bit-blast)
// @stub AymPrecise::update_mixer -> tick counter with constant output; decimate -> 0.0 (the 192-tap float FIR is outside the claim)
// @replay solver-only
#[kani::proof]
#[kani::unwind(10)]
#[kani::stub(AymPrecise::update_mixer, counting_update_mixer)]
#[kani::stub(decimate, cheap_decimate)]
fn c18_resampler_tick_rate_8000() {
    resampler_body(8000);
}

// @harness
// @prop C18
// @tier thorough
// @timeout 900
// @fn AymPrecise::process (resampler loop: x += step, interpolator shift, FIR write positions); AymPrecise::new (step)
// @sym resampler phase x in [0,1), FIR ring index; sample rate fixed to 11025 Hz, chip clock 1773400 Hz
// @assert per output sample the tone/noise/envelope generators advance floor or ceil of f_clk/(8*rate) ticks (so tone frequency is f_clk/(16*TP) at this sample rate) and the resampler phase stays in [0,1) (inductive), which keeps the interpolation polynomial and hence every sample bounded; no out-of-bounds FIR access
// @bound one output sample from an arbitrary phase; sample rate 11025 Hz (rates enumerated: f64 division by a symbolic rate does not bit-blast)
// @stub AymPrecise::update_mixer -> tick counter with constant output; decimate -> 0.0 (the 192-tap float FIR is outside the claim)
// @replay solver-only
#[kani::proof]
#[kani::unwind(10)]
#[kani::stub(AymPrecise::update_mixer, counting_update_mixer)]
#[kani::stub(decimate, cheap_decimate)]
fn c18_resampler_tick_rate_11025() {
    resampler_body(11025);
}

// @harness
// @prop C18
// @tier thorough
// @timeout 900
// @fn AymPrecise::process (resampler loop: x += step, interpolator shift, FIR write positions); AymPrecise::new (step)
// @sym resampler phase x in [0,1), FIR ring index; sample rate fixed to 16000 Hz, chip clock 1773400 Hz
// @assert per output sample the tone/noise/envelope generators advance floor or ceil of f_clk/(8*rate) ticks (so tone frequency is f_clk/(16*TP) at this sample rate) and the resampler phase stays in [0,1) (inductive), which keeps the interpolation polynomial and hence every sample bounded; no out-of-bounds FIR access
// @bound one output sample from an arbitrary phase; sample rate 16000 Hz (rates enumerated: f64 division by a symbolic rate does not bit-blast)
// @stub AymPrecise::update_mixer -> tick counter with constant output; decimate -> 0.0 (the 192-tap float FIR is outside the claim)
// @replay solver-only
#[kani::proof]
#[kani::unwind(10)]
#[kani::stub(AymPrecise::update_mixer, counting_update_mixer)]
#[kani::stub(decimate, cheap_decimate)]
fn c18_resampler_tick_rate_16000() {
    resampler_body(16000);
}

// @harness
// @prop C18
// @tier quick
// @timeout 900
// @fn AymPrecise::process (resampler loop: x += step, interpolator shift, FIR write positions); AymPrecise::new (step)
// @sym resampler phase x in [0,1), FIR ring index; sample rate fixed to 22050 Hz, chip clock 1773400 Hz
// @assert per output sample the tone/noise/envelope generators advance floor or ceil of f_clk/(8*rate) ticks (so tone frequency is f_clk/(16*TP) at this sample rate) and the resampler phase stays in [0,1) (inductive), which keeps the interpolation polynomial and hence every sample bounded; no out-of-bounds FIR access
// @bound one output sample from an arbitrary phase; sample rate 22050 Hz (rates enumerated: f64 division by a symbolic rate does not bit-blast)
// @stub AymPrecise::update_mixer -> tick counter with constant output; decimate -> 0.0 (the 192-tap float FIR is outside the claim)
// @replay solver-only
#[kani::proof]
#[kani::unwind(10)]
#[kani::stub(AymPrecise::update_mixer, counting_update_mixer)]
#[kani::stub(decimate, cheap_decimate)]
fn c18_resampler_tick_rate_22050() {
    resampler_body(22050);
}

// @harness
// @prop C18
// @tier thorough
// @timeout 900
// @fn AymPrecise::process (resampler loop: x += step, interpolator shift, FIR write positions); AymPrecise::new (step)
// @sym resampler phase x in [0,1), FIR ring index; sample rate fixed to 32000 Hz, chip clock 1773400 Hz
// @assert per output sample the tone/noise/envelope generators advance floor or ceil of f_clk/(8*rate) ticks (so tone frequency is f_clk/(16*TP) at this sample rate) and the resampler phase stays in [0,1) (inductive), which keeps the interpolation polynomial and hence every sample bounded; no out-of-bounds FIR access
// @bound one output sample from an arbitrary phase; sample rate 32000 Hz (rates enumerated: f64 division by a symbolic rate does not bit-blast)
// @stub AymPrecise::update_mixer -> tick counter with constant output; decimate -> 0.0 (the 192-tap float FIR is outside the claim)
// @replay solver-only
#[kani::proof]
#[kani::unwind(10)]
#[kani::stub(AymPrecise::update_mixer, counting_update_mixer)]
#[kani::stub(decimate, cheap_decimate)]
fn c18_resampler_tick_rate_32000() {
    resampler_body(32000);
}

// @harness
// @prop C18
// @tier quick
// @timeout 900
// @fn AymPrecise::process (resampler loop: x += step, interpolator shift, FIR write positions); AymPrecise::new (step)
// @sym resampler phase x in [0,1), FIR ring index; sample rate fixed to 44100 Hz, chip clock 1773400 Hz
// @assert per output sample the tone/noise/envelope generators advance floor or ceil of f_clk/(8*rate) ticks (so tone frequency is f_clk/(16*TP) at this sample rate) and the resampler phase stays in [0,1) (inductive), which keeps the interpolation polynomial and hence every sample bounded; no out-of-bounds FIR access
// @bound one output sample from an arbitrary phase; sample rate 44100 Hz (rates enumerated: f64 division by a symbolic rate does not bit-blast)
// @stub AymPrecise::update_mixer -> tick counter with constant output; decimate -> 0.0 (the 192-tap float FIR is outside the claim)
// @replay solver-only
#[kani::proof]
#[kani::unwind(10)]
#[kani::stub(AymPrecise::update_mixer, counting_update_mixer)]
#[kani::stub(decimate, cheap_decimate)]
fn c18_resampler_tick_rate_44100() {
    resampler_body(44100);
}

// @harness
// @prop C18
// @tier thorough
// @timeout 900
// @fn AymPrecise::process (resampler loop: x += step, interpolator shift, FIR write positions); AymPrecise::new (step)
// @sym resampler phase x in [0,1), FIR ring index; sample rate fixed to 48000 Hz, chip clock 1773400 Hz
// @assert per output sample the tone/noise/envelope generators advance floor or ceil of f_clk/(8*rate) ticks (so tone frequency is f_clk/(16*TP) at this sample rate) and the resampler phase stays in [0,1) (inductive), which keeps the interpolation polynomial and hence every sample bounded; no out-of-bounds FIR access
// @bound one output sample from an arbitrary phase; sample rate 48000 Hz (rates enumerated: f64 division by a symbolic rate does not bit-blast)
// @stub AymPrecise::update_mixer -> tick counter with constant output; decimate -> 0.0 (the 192-tap float FIR is outside the claim)
// @replay solver-only
#[kani::proof]
#[kani::unwind(10)]
#[kani::stub(AymPrecise::update_mixer, counting_update_mixer)]
#[kani::stub(decimate, cheap_decimate)]
fn c18_resampler_tick_rate_48000() {
    resampler_body(48000);
}

// @harness
// @prop C18
// @tier thorough
// @timeout 900
// @fn AymPrecise::process (resampler loop: x += step, interpolator shift, FIR write positions); AymPrecise::new (step)
// @sym resampler phase x in [0,1), FIR ring index; sample rate fixed to 96000 Hz, chip clock 1773400 Hz
// @assert per output sample the tone/noise/envelope generators advance floor or ceil of f_clk/(8*rate) ticks (so tone frequency is f_clk/(16*TP) at this sample rate) and the resampler phase stays in [0,1) (inductive), which keeps the interpolation polynomial and hence every sample bounded; no out-of-bounds FIR access
// @bound one output sample from an arbitrary phase; sample rate 96000 Hz (rates enumerated: f64 division by a symbolic rate does not bit-blast)
// @stub AymPrecise::update_mixer -> tick counter with constant output; decimate -> 0.0 (the 192-tap float FIR is outside the claim)
// @replay solver-only
#[kani::proof]
#[kani::unwind(10)]
#[kani::stub(AymPrecise::update_mixer, counting_update_mixer)]
#[kani::stub(decimate, cheap_decimate)]
fn c18_resampler_tick_rate_96000() {
    resampler_body(96000);
}

// @harness
// @prop C18
// @tier thorough
// @timeout 900
// @fn AymPrecise::process (resampler loop: x += step, interpolator shift, FIR write positions); AymPrecise::new (step)
// @sym resampler phase x in [0,1), FIR ring index; sample rate fixed to 192000 Hz, chip clock 1773400 Hz
// @assert per output sample the tone/noise/envelope generators advance floor or ceil of f_clk/(8*rate) ticks (so tone frequency is f_clk/(16*TP) at this sample rate) and the resampler phase stays in [0,1) (inductive), which keeps the interpolation polynomial and hence every sample bounded; no out-of-bounds FIR access
// @bound one output sample from an arbitrary phase; sample rate 192000 Hz (rates enumerated: f64 division by a symbolic rate does not bit-blast)
// @stub AymPrecise::update_mixer -> tick counter with constant output; decimate -> 0.0 (the 192-tap float FIR is outside the claim)
// @replay solver-only
#[kani::proof]
#[kani::unwind(10)]
#[kani::stub(AymPrecise::update_mixer, counting_update_mixer)]
#[kani::stub(decimate, cheap_decimate)]
fn c18_resampler_tick_rate_192000() {
    resampler_body(192000);
}

// @harness
// @prop C18
// @tier quick
// @timeout 900
// @fn AymPrecise::process (resampler loop: x += step, interpolator shift, FIR write positions); AymPrecise::new (step)
// @sym resampler phase x in [0,1), FIR ring index; sample rate fixed to 384000 Hz, chip clock 1773400 Hz
// @assert per output sample the tone/noise/envelope generators advance floor or ceil of f_clk/(8*rate) ticks (so tone frequency is f_clk/(16*TP) at this sample rate) and the resampler phase stays in [0,1) (inductive), which keeps the interpolation polynomial and hence every sample bounded; no out-of-bounds FIR access
// @bound one output sample from an arbitrary phase; sample rate 384000 Hz (rates enumerated: f64 division by a symbolic rate does not bit-blast)
// @stub AymPrecise::update_mixer -> tick counter with constant output; decimate -> 0.0 (the 192-tap float FIR is outside the claim)
// @replay solver-only
#[kani::proof]
#[kani::unwind(10)]
#[kani::stub(AymPrecise::update_mixer, counting_update_mixer)]
#[kani::stub(decimate, cheap_decimate)]
fn c18_resampler_tick_rate_384000() {
    resampler_body(384000);
}
