//! Kani harnesses compiled as a child module of aym/src/backends/precise.rs (cfg(kani) only).
