//! Kani harnesses compiled as a child module of vtx/src/player.rs (cfg(kani) only).
//! Property C20: VTX playback is frame-accurate and independent of play() chunking.
#![allow(dead_code)]
use super::*;
use aym::{AyMode, StereoSample};

const LOG_CAP: usize = 48;

/// Recording sound-chip back end: logs (sample index at which the write happened, register, value)
/// and returns the running sample index as the sample (left = n, right = n + 0.5).
pub(crate) struct RecAy {
    pub n_samples: u32,
    pub log: [(u32, u8, u8); LOG_CAP],
    pub log_len: usize,
    pub overflow: bool,
}

impl AymBackend for RecAy {
    type SoundSample = f64;

    fn new(_chip: aym::SoundChip, _mode: AyMode, _frequency: usize, _sample_rate: usize) -> Self {
        RecAy { n_samples: 0, log: [(0, 0, 0); LOG_CAP], log_len: 0, overflow: false }
    }

    fn write_register(&mut self, address: u8, value: u8) {
        if self.log_len < LOG_CAP {
            self.log[self.log_len] = (self.n_samples, address, value);
            self.log_len += 1;
        } else {
            self.overflow = true;
        }
    }

    fn next_sample(&mut self) -> StereoSample<f64> {
        let s = StereoSample { left: self.n_samples as f64, right: self.n_samples as f64 + 0.5 };
        self.n_samples += 1;
        s
    }
}

fn mk_vtx(frames: usize, data: &[u8; 42], player_frequency: u8) -> Vtx {
    // `frames` is a literal at every call site: the copy has a constant length
    let v = data[..frames * 14].to_vec();
    Vtx {
        chip: SoundChip::AY,
        stereo: Stereo::ABC,
        frequency: 1_773_400,
        player_frequency,
        loop_start_frame: 0,
        year: 0,
        title: String::new(),
        author: String::new(),
        from: String::new(),
        tracker: String::new(),
        comment: String::new(),
        frame_data: v,
    }
}

/// (frames, data, rate, pf, spf): `frames` and `pf` literal per case, samples per frame 1..3 symbolic via
/// rate = spf*pf + extra (so that floor(rate/pf) == spf also for rates that are not multiples)
fn setup(frames: usize, pf: u8) -> (usize, [u8; 42], usize, u8, usize) {
    let data: [u8; 42] = kani::any();
    let spf: usize = kani::any();
    kani::assume(spf >= 1 && spf <= 3);
    let extra: usize = kani::any();
    kani::assume(extra < pf as usize);
    let rate = spf * pf as usize + extra;
    (frames, data, rate, pf, spf)
}

// @harness
// @prop C20
// @tier quick
// @timeout 1200
// @fn Player::new; Player::play (mono path, S = f64); Player::update_ay; Vtx::frame_registers
// @sym (frame count, player frequency) from the class {(1,50),(2,1),(3,50),(3,2)} as literals, all register bytes, sample rate = spf*pf + (0..pf-1) with spf 1..3 symbolic, request length 0..10
// @assert mono playback: frame k's fourteen register values are written exactly at output sample k*floor(rate/player_frequency), registers 0..13 in order, R13 skipped iff its value is 0xFF; total samples produced is frames*spf, after which play() returns 0; sample i of the stream is the chip's i-th sample
// @bound <= 3 frames x <= 3 samples per frame, request <= 10 samples (unwind 16)
#[kani::proof]
#[kani::unwind(16)]
fn c20_mono_schedule() {
    let sel: u8 = kani::any();
    kani::assume(sel < 4);
    match sel {
        0 => mono_case(1, 50),
        1 => mono_case(2, 1),
        2 => mono_case(3, 50),
        _ => mono_case(3, 2),
    }
}

fn mono_case(frames_lit: usize, pf_lit: u8) {
    let (frames, data, rate, pf, spf) = setup(frames_lit, pf_lit);
    let mut p = Player::<RecAy>::new(mk_vtx(frames, &data, pf), rate, false);
    kani::assert(p.samples_per_frame == spf, "c20.spf_is_floor_rate_over_player_frequency");
    let n: usize = kani::any();
    kani::assume(n <= 10);
    let mut buf = [-1.0f64; 10];
    let got = p.play(&mut buf[..n]);
    let total = frames * spf;
    kani::assert(got == if n < total { n } else { total }, "c20.mono.sample_count");
    let mut i = 0;
    while i < 10 {
        if i < got {
            kani::assert(buf[i] == i as f64, "c20.mono.stream_is_chip_stream");
        } else {
            kani::assert(buf[i] == -1.0, "c20.mono.rest_of_buffer_untouched");
        }
        i += 1;
    }
    // register schedule: a symbolic log entry must be the write of a frame at its first sample
    kani::assert(!p.ay.overflow, "c20.log_fits");
    let j: usize = kani::any();
    kani::assume(j < p.ay.log_len);
    let (at, reg, val) = p.ay.log[j];
    let k = at as usize / spf;
    kani::assert(at as usize % spf == 0 && k < frames && reg < 14, "c20.mono.writes_only_at_frame_starts");
    kani::assert(val == data[k * 14 + reg as usize], "c20.mono.value_is_frame_k_register");
    kani::assert(!(reg == 13 && val == 0xFF), "c20.mono.r13_ff_means_untouched");
    // completeness: frames started so far each wrote 14 (or 13) registers
    let started = if got == 0 { 0 } else { (got - 1) / spf + 1 };
    let mut want = 0;
    let mut f = 0;
    while f < 3 {
        if f < started {
            want += if data[f * 14 + 13] == 0xFF { 13 } else { 14 };
        }
        f += 1;
    }
    // a request that ends exactly on a frame boundary does not start the next frame
    kani::assert(p.ay.log_len == want, "c20.mono.fourteen_values_per_started_frame");
    if got < n {
        let mut more = [0f64; 2];
        kani::assert(p.play(&mut more) == 0, "c20.mono.end_is_sticky");
    }
    kani::cover!(frames == 3 && spf == 3 && n == 10 && got == 9, "whole 3x3 track then end");
    kani::cover!(started == 2 && data[13] == 0xFF && data[27] != 0xFF, "R13 skipped in frame 0 only");
    kani::cover!(rate % pf as usize != 0, "rate not a multiple of the player frequency");
}

// @harness
// @prop C20
// @tier quick
// @timeout 1500
// @fn Player::play (mono and stereo paths); Player::update_ay
// @sym track as in c20_mono_schedule, mono/stereo, request length n <= 8 elements, split point a <= n (odd splits in stereo included)
// @assert the sample stream and the register-write schedule are identical whether the caller asks for n elements at once or for a then n-a: outputs concatenate (in stereo an odd-length request leaves its trailing element untouched and loses nothing), returned counts add up, logs equal
// @bound <= 3 frames x <= 3 samples/frame, n <= 8 (unwind 16)
#[kani::proof]
#[kani::unwind(16)]
fn c20_chunking_independence() {
    let sel: u8 = kani::any();
    kani::assume(sel < 3);
    match sel {
        0 => chunk_case(1, 50),
        1 => chunk_case(2, 2),
        _ => chunk_case(3, 1),
    }
}

fn chunk_case(frames_lit: usize, pf_lit: u8) {
    let (frames, data, rate, pf, _spf) = setup(frames_lit, pf_lit);
    let stereo: bool = kani::any();
    let mut p1 = Player::<RecAy>::new(mk_vtx(frames, &data, pf), rate, stereo);
    let mut p2 = Player::<RecAy>::new(mk_vtx(frames, &data, pf), rate, stereo);
    let n: usize = kani::any();
    let a: usize = kani::any();
    kani::assume(n <= 8 && a <= n);
    // in stereo a caller must hand over whole (left,right) pairs to make progress: split on a pair
    // boundary or not - both are allowed by the API; an odd `a` just leaves one element unused
    let mut whole = [-1.0f64; 8];
    let g = p1.play(&mut whole[..n]);
    let mut part = [-1.0f64; 8];
    let g1 = p2.play(&mut part[..a]);
    // second call continues where the first one stopped writing
    let g2 = p2.play(&mut part[g1..n]);
    kani::assert(g1 + g2 == g, "c20.chunk.counts_add_up");
    let mut i = 0;
    while i < 8 {
        if i < g1 + g2 {
            kani::assert(part[i] == whole[i], "c20.chunk.same_stream");
        }
        i += 1;
    }
    // same register schedule up to what was played
    let j: usize = kani::any();
    kani::assume(j < p2.ay.log_len);
    kani::assert(j < p1.ay.log_len || g1 + g2 < g, "c20.chunk.no_extra_writes");
    if j < p1.ay.log_len {
        kani::assert(p1.ay.log[j] == p2.ay.log[j], "c20.chunk.same_register_schedule");
    }
    kani::cover!(stereo && a % 2 == 1 && g2 > 0, "odd split in stereo");
    kani::cover!(!stereo && a == 1 && n == 8 && g == 8, "length-1 first chunk");
    kani::cover!(g < n, "track ends inside the request");
}
