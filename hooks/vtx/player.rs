//! Kani harnesses compiled as a child module of vtx/src/player.rs (cfg(kani) only).
