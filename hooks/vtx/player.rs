//! Kani harnesses compiled as a child module of vtx/src/player.rs (cfg(kani) only).
//! Property C20: VTX playback is frame-accurate and independent of play() chunking.
#![allow(dead_code)]
use super::*;
use aym::{AyMode, StereoSample};

const LOG_CAP: usize = 48;

/// Recording sound-chip back end: logs (sample index at which the write happened, register, value)
/// and returns the running sample index as the sample (left = n, right = n + 0.5).
pub(crate) struct RecAy {
    pub n_samples: u32,
    pub log: [(u32, u8, u8); LOG_CAP],
    pub log_len: usize,
    pub overflow: bool,
}

impl AymBackend for RecAy {
    type SoundSample = f64;

    fn new(_chip: aym::SoundChip, _mode: AyMode, _frequency: usize, _sample_rate: usize) -> Self {
        RecAy { n_samples: 0, log: [(0, 0, 0); LOG_CAP], log_len: 0, overflow: false }
    }

    fn write_register(&mut self, address: u8, value: u8) {
        if self.log_len < LOG_CAP {
            self.log[self.log_len] = (self.n_samples, address, value);
            self.log_len += 1;
        } else {
            self.overflow = true;
        }
    }

    fn next_sample(&mut self) -> StereoSample<f64> {
        let s = StereoSample { left: self.n_samples as f64, right: self.n_samples as f64 + 0.5 };
        self.n_samples += 1;
        s
    }
}

fn mk_vtx(frames: usize, data: &[u8; 42], player_frequency: u8) -> Vtx {
    // `frames` is a literal at every call site: the copy has a constant length
    let v = data[..frames * 14].to_vec();
    Vtx {
        chip: SoundChip::AY,
        stereo: Stereo::ABC,
        frequency: 1_773_400,
        player_frequency,
        loop_start_frame: 0,
        year: 0,
        title: String::new(),
        author: String::new(),
        from: String::new(),
        tracker: String::new(),
        comment: String::new(),
        frame_data: v,
    }
}

/// All structure (frame count, player frequency, samples per frame, request length) is literal at the
/// call sites - with a symbolic request length the 14-register loops and the log index became symbolic
/// and a single query needed > 14 GB.  The register bytes stay fully symbolic.
fn mono_case(frames: usize, pf: u8, spf: usize, extra: usize, n: usize) {
    let data: [u8; 42] = kani::any();
    let rate = spf * pf as usize + extra;
    let mut p = Player::<RecAy>::new(mk_vtx(frames, &data, pf), rate, false);
    kani::assert(p.samples_per_frame == spf, "c20.spf_is_floor_rate_over_player_frequency");
    let mut buf = [-1.0f64; 10];
    let got = p.play(&mut buf[..n]);
    let total = frames * spf;
    kani::assert(got == if n < total { n } else { total }, "c20.mono.sample_count");
    let mut i = 0;
    while i < 10 {
        if i < got {
            kani::assert(buf[i] == i as f64, "c20.mono.stream_is_chip_stream");
        } else {
            kani::assert(buf[i] == -1.0, "c20.mono.rest_of_buffer_untouched");
        }
        i += 1;
    }
    kani::assert(!p.ay.overflow, "c20.log_fits");
    // walk the log against the schedule: frame k at sample k*spf, registers 0..13 in order, R13 skipped iff 0xFF
    let started = if got == 0 { 0 } else { (got - 1) / spf + 1 };
    let mut j = 0usize;
    let mut f = 0;
    while f < 3 {
        if f < started {
            let mut r = 0;
            while r < 14 {
                let v = data[f * 14 + r];
                if !(r == 13 && v == 0xFF) {
                    kani::assert(j < p.ay.log_len, "c20.mono.fourteen_values_per_started_frame");
                    if j < p.ay.log_len {
                        kani::assert(p.ay.log[j] == ((f * spf) as u32, r as u8, v), "c20.mono.frame_k_registers_at_sample_k_times_spf");
                    }
                    j += 1;
                }
                r += 1;
            }
        }
        f += 1;
    }
    kani::assert(p.ay.log_len == j, "c20.mono.no_other_register_writes");
    if got < n {
        let mut more = [0f64; 2];
        kani::assert(p.play(&mut more) == 0, "c20.mono.end_is_sticky");
    }
    kani::cover!(data[13] == 0xFF && (frames < 2 || data[27] != 0xFF), "R13 skipped in frame 0 only");
}

// @harness
// @prop C20
// @tier quick
// @timeout 1200
// @fn Player::new; Player::play (mono path, S = f64); Player::update_ay; Vtx::frame_registers
// @sym all register bytes of up to 3 frames; structure from literal cases (frames, player frequency, samples/frame, rate remainder, request length): (1,50,1,0,3) (2,1,3,0,10) (3,50,3,49,10) (3,2,2,1,5) (2,50,2,7,4) (3,1,1,0,2) (2,3,2,0,5) (2,60,1,0,3) (1,60,3,59,4)
// @assert mono playback: frame k's fourteen register values are written exactly at output sample k*floor(rate/player_frequency), registers 0..13 in order, R13 skipped iff its value is 0xFF, nothing else is written; total samples produced is frames*spf, after which play() returns 0 and keeps returning 0; sample i of the stream is the chip's i-th sample; the rest of the buffer is untouched
// @bound <= 3 frames x <= 3 samples per frame, request <= 10 samples (unwind 16); structure enumerated, register data symbolic
#[kani::proof]
#[kani::unwind(16)]
fn c20_mono_schedule() {
    mono_case(1, 50, 1, 0, 3);
    mono_case(2, 1, 3, 0, 10);
    mono_case(3, 50, 3, 49, 10);
    mono_case(3, 2, 2, 1, 5);
    mono_case(2, 50, 2, 7, 4);
    mono_case(3, 1, 1, 0, 2);
    // player frequencies that do not divide a second evenly (60 Hz NTSC-style tracks, 3 Hz)
    mono_case(2, 3, 2, 0, 5);
    mono_case(2, 60, 1, 0, 3);
    mono_case(1, 60, 3, 59, 4);
}

fn chunk_case(frames: usize, pf: u8, spf: usize, stereo: bool, n: usize, a: usize) {
    let data: [u8; 42] = kani::any();
    let rate = spf * pf as usize;
    let mut p1 = Player::<RecAy>::new(mk_vtx(frames, &data, pf), rate, stereo);
    let mut p2 = Player::<RecAy>::new(mk_vtx(frames, &data, pf), rate, stereo);
    let mut whole = [-1.0f64; 8];
    let g = p1.play(&mut whole[..n]);
    let mut part = [-1.0f64; 8];
    let g1 = p2.play(&mut part[..a]);
    // the caller continues where the first call stopped writing
    let g2 = p2.play(&mut part[g1..n]);
    kani::assert(g1 + g2 == g, "c20.chunk.counts_add_up");
    let mut i = 0;
    while i < 8 {
        kani::assert(part[i] == whole[i], "c20.chunk.same_stream");
        i += 1;
    }
    kani::assert(p1.ay.log_len == p2.ay.log_len, "c20.chunk.same_number_of_register_writes");
    let mut j = 0;
    while j < LOG_CAP {
        if j < p1.ay.log_len {
            kani::assert(p1.ay.log[j] == p2.ay.log[j], "c20.chunk.same_register_schedule");
        }
        j += 1;
    }
    kani::cover!(g > 0, "something was played");
}

// @harness
// @prop C20
// @tier quick
// @timeout 1500
// @fn Player::play (mono and stereo paths); Player::update_ay
// @sym all register bytes; structure from literal cases (frames, player frequency, samples/frame, stereo, request length n, split point a): mono (2,50,3,n=7,a=1) (3,1,2,n=8,a=5) (2,2,1,n=3,a=0); stereo (2,50,2,n=8,a=3 odd) (3,50,1,n=7 odd,a=2) (2,1,3,n=8,a=7 odd) (3,2,1,n=8,a=6)
// @assert the sample stream and the register-write schedule are identical whether the caller asks for n elements at once or for a then the rest: outputs concatenate (in stereo an odd-length request leaves its trailing element untouched and loses nothing), returned counts add up, register logs equal
// @bound <= 3 frames x <= 3 samples/frame, n <= 8 (unwind 50 for the log comparison); structure enumerated, register data symbolic
#[kani::proof]
#[kani::unwind(50)]
fn c20_chunking_independence() {
    chunk_case(2, 50, 3, false, 7, 1);
    chunk_case(3, 1, 2, false, 8, 5);
    chunk_case(2, 2, 1, false, 3, 0);
    chunk_case(2, 50, 2, true, 8, 3);
    chunk_case(3, 50, 1, true, 7, 2);
    chunk_case(2, 1, 3, true, 8, 7);
    chunk_case(3, 2, 1, true, 8, 6);
}

// @harness
// @prop C20
// @tier thorough
// @timeout 3000
// @fn Player::play (mono and stereo paths); Player::update_ay; Player::new
// @sym all register bytes; a second, larger set of literal structures: mono (3,50,3,n=10 whole track +1) and every split point a = 0..=8 of an 8-element stereo request over (3 frames, spf 1) and of a mono request over (2 frames, spf 3)
// @assert as c20_mono_schedule / c20_chunking_independence
// @bound <= 3 frames x <= 3 samples/frame; all split points of two request shapes (unwind 50)
#[kani::proof]
#[kani::unwind(50)]
fn c20_all_split_points() {
    mono_case(3, 50, 3, 0, 10);
    chunk_case(3, 50, 1, true, 8, 0);
    chunk_case(3, 50, 1, true, 8, 1);
    chunk_case(3, 50, 1, true, 8, 2);
    chunk_case(3, 50, 1, true, 8, 3);
    chunk_case(3, 50, 1, true, 8, 4);
    chunk_case(3, 50, 1, true, 8, 5);
    chunk_case(3, 50, 1, true, 8, 6);
    chunk_case(3, 50, 1, true, 8, 7);
    chunk_case(3, 50, 1, true, 8, 8);
    chunk_case(2, 50, 3, false, 8, 0);
    chunk_case(2, 50, 3, false, 8, 1);
    chunk_case(2, 50, 3, false, 8, 2);
    chunk_case(2, 50, 3, false, 8, 3);
    chunk_case(2, 50, 3, false, 8, 4);
    chunk_case(2, 50, 3, false, 8, 5);
    chunk_case(2, 50, 3, false, 8, 6);
    chunk_case(2, 50, 3, false, 8, 7);
    chunk_case(2, 50, 3, false, 8, 8);
}
