//! Kani harnesses compiled as a child module of vtx/src/lib.rs (cfg(kani) only).
//! Property C15 for VTX files: header and strings scan are total on arbitrary bytes.
#![allow(dead_code)]
use super::*;
use std::io::{Read, Seek, SeekFrom};

/// In-memory reader that counts how often it is asked for data after the end of the file.
/// highest file position any read reached (for 'rejected on the header alone' claims)
pub(crate) static mut MAX_POS: usize = 0;

pub(crate) struct CountingReader {
    pub data: [u8; 24],
    pub len: usize,
    pub pos: usize,
    pub eof_reads: u32,
}

/// environment model of the quick header harness: once the loader has rewound the asset (it does so only
/// to re-read a strings block it has accepted) every further read fails - a failing asset is one of the
/// inputs C15 quantifies over, and it keeps the text-field and decompressor code out of the query
pub(crate) static mut FAIL_READS_AFTER_REWIND: bool = false;
static mut REWOUND: bool = false;

impl Read for CountingReader {
    fn read(&mut self, buf: &mut [u8]) -> std::io::Result<usize> {
        if unsafe { FAIL_READS_AFTER_REWIND && REWOUND } {
            return Err(std::io::ErrorKind::Other.into());
        }
        if self.pos >= self.len {
            self.eof_reads += 1;
            // a loader that keeps polling a finished file never terminates
            kani::assert(self.eof_reads <= 3, "c15.vtx.no_endless_polling_at_eof");
            return Ok(0);
        }
        let n = if buf.len() < self.len - self.pos { buf.len() } else { self.len - self.pos };
        let mut i = 0;
        while i < n {
            buf[i] = self.data[self.pos + i];
            i += 1;
        }
        self.pos += n;
        unsafe {
            if self.pos > MAX_POS {
                MAX_POS = self.pos;
            }
        }
        Ok(n)
    }
}

impl Seek for CountingReader {
    fn seek(&mut self, pos: SeekFrom) -> std::io::Result<u64> {
        let p = match pos {
            SeekFrom::Start(p) => p as i64,
            SeekFrom::End(d) => self.len as i64 + d,
            SeekFrom::Current(d) => self.pos as i64 + d,
        };
        // contract: negative positions are an error; the harness never needs them
        kani::assume(p >= 0);
        if let SeekFrom::Start(_) = pos {
            unsafe {
                REWOUND = true;
            }
        }
        self.pos = p as usize;
        Ok(p as u64)
    }
}

fn no_format(_args: core::fmt::Arguments<'_>) -> String {
    String::new()
}

// (c15_vtx_header_and_strings_total, which left the strings bytes symbolic, was removed: it no longer finished
// within 6000 s; see DESIGN section 12)

// @harness
// @prop C15
// @tier quick
// @timeout 600
// @fn Vtx::load (identifier, stereo byte, header fields; the file ends where the strings block would start)
// @sym every byte of a 16-byte VTX file (header only)
// @assert for any header bytes the loader returns Err without panic or arithmetic overflow, does not keep polling the reader at the end of the file (an endless loop on a truncated file), and rejects player frequency 0 on the header alone
// @bound one file length (16 bytes, unwind 26); strings blocks are the thorough harnesses c15_vtx_strings_tail_*
// @stub alloc::fmt::format -> empty string (error message formatting is not the subject)
// @replay solver-only
#[kani::proof]
#[kani::unwind(26)]
#[kani::stub(alloc::fmt::format, no_format)]
fn c15_vtx_header_only_file() {
    unsafe {
        FAIL_READS_AFTER_REWIND = true;
        REWOUND = false;
    }
    vtx_literal_tail_case(16, [0, 0, 0]);
}

// @harness
// @prop C15
// @tier thorough
// @timeout 3000
// @fn Vtx::load (header fields, strings-block scan)
// @sym every byte of the 16-byte VTX header; the file ends after the literal strings bytes "AB"
// @assert as c15_vtx_header_only_file, with the strings scan running over a tail that holds fewer than five terminators: Err, no panic, no overflow (including `strings_block_size - 1`), no polling after the end of the file
// @bound one literal tail (unwind 26); symbolic strings bytes, longer strings blocks and the LH5 body are outside
// @stub alloc::fmt::format -> empty string
// @assume environment: reads issued after the loader has rewound the asset to the strings block fail (a failing asset is within C15's quantifier)
// @replay solver-only
#[kani::proof]
#[kani::unwind(26)]
#[kani::stub(alloc::fmt::format, no_format)]
fn c15_vtx_strings_tail_ab() {
    unsafe {
        FAIL_READS_AFTER_REWIND = true;
        REWOUND = false;
    }
    vtx_literal_tail_case(18, [b'A', b'B', 0]);
}

// @harness
// @prop C15
// @tier thorough
// @timeout 3000
// @fn Vtx::load (header fields, strings-block scan)
// @sym every byte of the 16-byte VTX header; the file ends after the literal strings bytes "A\\0B"
// @assert as c15_vtx_header_only_file, with the strings scan running over a tail that holds fewer than five terminators: Err, no panic, no overflow (including `strings_block_size - 1`), no polling after the end of the file
// @bound one literal tail (unwind 26); symbolic strings bytes, longer strings blocks and the LH5 body are outside
// @stub alloc::fmt::format -> empty string
// @assume environment: reads issued after the loader has rewound the asset to the strings block fail (a failing asset is within C15's quantifier)
// @replay solver-only
#[kani::proof]
#[kani::unwind(26)]
#[kani::stub(alloc::fmt::format, no_format)]
fn c15_vtx_strings_tail_a0b() {
    unsafe {
        FAIL_READS_AFTER_REWIND = true;
        REWOUND = false;
    }
    vtx_literal_tail_case(19, [b'A', 0, b'B']);
}

// @harness
// @prop C15
// @tier thorough
// @timeout 3000
// @fn Vtx::load (header fields, strings-block scan)
// @sym every byte of the 16-byte VTX header; the file ends after the literal strings bytes three terminators
// @assert as c15_vtx_header_only_file, with the strings scan running over a tail that holds fewer than five terminators: Err, no panic, no overflow (including `strings_block_size - 1`), no polling after the end of the file
// @bound one literal tail (unwind 26); symbolic strings bytes, longer strings blocks and the LH5 body are outside
// @stub alloc::fmt::format -> empty string
// @assume environment: reads issued after the loader has rewound the asset to the strings block fail (a failing asset is within C15's quantifier)
// @replay solver-only
#[kani::proof]
#[kani::unwind(26)]
#[kani::stub(alloc::fmt::format, no_format)]
fn c15_vtx_strings_tail_000() {
    unsafe {
        FAIL_READS_AFTER_REWIND = true;
        REWOUND = false;
    }
    vtx_literal_tail_case(19, [0, 0, 0]);
}

/// header bytes symbolic, strings bytes literal: the number of terminators found is then a constant for the
/// solver (with symbolic strings bytes the code behind the "five terminators" test is encoded although files
/// this short cannot reach it - that is the thorough twin, which does not finish)
fn vtx_literal_tail_case(len: usize, tail: [u8; 3]) {
    let mut data: [u8; 24] = kani::any();
    data[16] = tail[0];
    data[17] = tail[1];
    data[18] = tail[2];
    unsafe {
        MAX_POS = 0;
    }
    let r = Vtx::load(CountingReader { data, len, pos: 0, eof_reads: 0 });
    let ok = r.is_ok();
    core::mem::forget(r);
    kani::assert(!ok, "c15.vtx.truncated_file_is_rejected");
    if data[9] == 0 {
        kani::assert(unsafe { MAX_POS } <= 16, "c15.vtx.zero_player_frequency_rejected_on_header");
    }
    kani::cover!(data[0] == b'a' && data[1] == b'y' && data[2] == 1 && data[9] == 50, "valid header, file cut short behind it");
    kani::cover!(data[0] == b'y' && data[1] == b'm' && data[2] == 6 && data[9] == 0, "YM identifier, CBA stereo, player frequency 0");
}

// @harness
// @prop C15 C20
// @tier quick
// @timeout 900
// @fn Player::new; Player::play; Vtx::frame_registers; Vtx::frames_count
// @assume player frequency >= 1: a file with 0 is rejected by Vtx::load (asserted in c15_vtx_header_and_strings_total)
// @sym every header field a file can carry (player frequency 1..255, chip frequency, stereo mode), frame data length from {0, 13, 14, 29} bytes (literals; also lengths that are not a multiple of 14), sample rate 0..400, request length <= 4
// @assert constructing a player for any loadable track and asking it for samples never panics (no division by zero, no out-of-bounds frame access) and returns at most the requested number of samples
// @bound <= 2 frames, <= 4 samples requested
#[kani::proof]
#[kani::unwind(32)]
fn c15_vtx_player_total_on_any_header() {
    let sel: u8 = kani::any();
    kani::assume(sel < 4);
    match sel {
        0 => player_total_case(0),
        1 => player_total_case(13),
        2 => player_total_case(14),
        _ => player_total_case(29),
    }
}

fn player_total_case(n: usize) {
    let bytes: [u8; 29] = kani::any();
    let frame_data = bytes[..n].to_vec();
    let vtx = Vtx {
        chip: if kani::any() { SoundChip::AY } else { SoundChip::YM },
        stereo: Stereo::ABC,
        frequency: kani::any(),
        player_frequency: kani::any(),
        loop_start_frame: kani::any(),
        year: 0,
        title: String::new(),
        author: String::new(),
        from: String::new(),
        tracker: String::new(),
        comment: String::new(),
        frame_data,
    };
    kani::assert(vtx.frames_count() == n / 14, "c15.vtx.frame_count");
    kani::assert(vtx.frame_registers(2).is_none(), "c15.vtx.frame_index_checked");
    let pf = vtx.player_frequency;
    // Vtx::load rejects pf == 0 (c15_vtx_header_and_strings_total)
    kani::assume(pf != 0);
    let rate: usize = kani::any();
    kani::assume(rate <= 400);
    let mut p = player::Player::<player::verif_hooks::RecAy>::new(vtx, rate, kani::any());
    let mut buf = [0f64; 4];
    let got = p.play(&mut buf);
    kani::assert(got <= 4, "c15.vtx.play_bounded_by_request");
    kani::cover!(pf == 1 && rate == 3, "lowest player frequency");
    kani::cover!(rate < pf as usize && got == 4 && n == 29, "more frames per second than samples");
}
