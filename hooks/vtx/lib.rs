//! Kani harnesses compiled as a child module of vtx/src/lib.rs (cfg(kani) only).
