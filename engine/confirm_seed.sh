#!/bin/bash
# confirm_seed.sh <worktree> <id>   (worktree has the change applied and the demo test(s) in place)
# Confirms independently: demo fails with the change, passes without it, suite passes with it.
# Writes <worktree>/seeded/confirm.json and copies the deliverables to /verif/seeded/<id>/.
WT=$1; ID=$2
cd "$WT" || exit 2
export CARGO_NET_OFFLINE=true CARGO_TARGET_DIR=$WT/target
DEMOS=$(git status --short -uall | grep '^??' | awk '{print $2}' | grep -E 'tests/seeded_demo[a-z_]*\.rs$')
run_demo() {
  for d in $DEMOS; do
    pkg=$(echo $d | cut -d/ -f1); t=$(basename $d .rs)
    cargo test -j 4 --offline -p $pkg --test $t 2>&1 | tail -n 30
  done
}
with=$(run_demo); echo "$with" | grep -q "test result: FAILED" && W=fails || W=passes
git diff > /tmp/confirm.$ID.patch; git apply -R /tmp/confirm.$ID.patch
without=$(run_demo); echo "$without" | grep -q "test result: ok" && ! echo "$without" | grep -q "test result: FAILED" && WO=passes || WO=fails
git apply /tmp/confirm.$ID.patch
mkdir -p /tmp/seeded_demo.$ID; for d in $DEMOS; do mv $d /tmp/seeded_demo.$ID/$(echo $d | tr / _); done
suite=$(cargo test -j 6 --offline --workspace --no-fail-fast 2>&1 | grep -E "^test " | grep -v seeded)
for d in $DEMOS; do mv /tmp/seeded_demo.$ID/$(echo $d | tr / _) $d; done
np=$(echo "$suite" | grep -c " ok$"); nf=$(echo "$suite" | grep -c "FAILED")
echo "{\"id\":\"$ID\",\"demo_with_change\":\"$W\",\"demo_without_change\":\"$WO\",\"suite_passed\":$np,\"suite_failed\":$nf,\"demos\":\"$(echo $DEMOS | tr '\n' ' ')\"}" | tee seeded/confirm.json
mkdir -p /verif/seeded/$ID && cp seeded/*.diff seeded/*.rs seeded/meta.json seeded/confirm.json /verif/seeded/$ID/
