#!/bin/bash
# confirm_seed.sh <worktree> <id>   (worktree has the change applied and the demo test in place)
# Confirms independently: demo fails with the change, passes without it, suite passes with it.
# Writes <worktree>/seeded/confirm.json and copies the deliverables to /verif/seeded/<id>/.
WT=$1; ID=$2
cd "$WT" || exit 2
export CARGO_NET_OFFLINE=true CARGO_TARGET_DIR=$WT/target
DEMO_TEST=$(ls rustzx-test/tests/seeded_demo.rs 2>/dev/null)
run_demo() {
  if [ -n "$DEMO_TEST" ]; then cargo test -j 4 --offline -p rustzx-test --test seeded_demo 2>&1 | tail -n 30
  else cargo test -j 4 --offline --workspace seeded 2>&1 | tail -n 30; fi
}
with=$(run_demo); echo "$with" | grep -q "test result: FAILED" && W=fails || W=passes
git diff > /tmp/confirm.$ID.patch; git apply -R /tmp/confirm.$ID.patch
without=$(run_demo); echo "$without" | grep -q "test result: ok" && ! echo "$without" | grep -q "test result: FAILED" && WO=passes || WO=fails
git apply /tmp/confirm.$ID.patch
[ -n "$DEMO_TEST" ] && mv "$DEMO_TEST" /tmp/seeded_demo.$ID.rs
suite=$(cargo test -j 6 --offline --workspace --no-fail-fast 2>&1 | grep -E "^test " | grep -v seeded)
[ -n "$DEMO_TEST" ] && mv /tmp/seeded_demo.$ID.rs "$DEMO_TEST"
np=$(echo "$suite" | grep -c " ok$"); nf=$(echo "$suite" | grep -c "FAILED")
echo "{\"id\":\"$ID\",\"demo_with_change\":\"$W\",\"demo_without_change\":\"$WO\",\"suite_passed\":$np,\"suite_failed\":$nf}" | tee seeded/confirm.json
mkdir -p /verif/seeded/$ID && cp seeded/patch.diff seeded/demo.rs seeded/meta.json seeded/confirm.json /verif/seeded/$ID/
