// RESULT 2026-09-26: appended to hooks/vtx/lib.rs and run alone -> no verdict within 340 s (INCONCLUSIVE); the literal-block / symbolic-read-size
// variant had no verdict within 800 s.  Kept only as a record; see DESIGN section 10 (C15-4).
// CANDIDATE (not compiled, not registered): append to hooks/vtx/lib.rs to try it.
// Shape: every read inside the strings block delivers ONE byte (the maximal short-read schedule, literal
// positions), the 8 strings bytes are symbolic; oracle = reference count of terminators.

pub(crate) struct OneByteReader {
    pub data: [u8; 24],
    pub pos: usize,
    pub rewound: bool,
    pub rewind_target: u64,
    pub asked_after_rewind: usize,
}

impl Read for OneByteReader {
    fn read(&mut self, buf: &mut [u8]) -> std::io::Result<usize> {
        if self.rewound {
            if self.asked_after_rewind == usize::MAX {
                self.asked_after_rewind = buf.len();
            }
            return Err(std::io::ErrorKind::Other.into());
        }
        if self.pos >= 24 {
            return Ok(0);
        }
        let mut n = if buf.len() < 24 - self.pos { buf.len() } else { 24 - self.pos };
        if self.pos >= 16 && n > 1 {
            n = 1;
        }
        let mut i = 0;
        while i < n {
            buf[i] = self.data[self.pos + i];
            i += 1;
        }
        self.pos += n;
        Ok(n)
    }
}

impl Seek for OneByteReader {
    fn seek(&mut self, pos: SeekFrom) -> std::io::Result<u64> {
        match pos {
            SeekFrom::Start(p) => {
                self.rewound = true;
                self.rewind_target = p;
                self.pos = p as usize;
                Ok(p)
            }
            SeekFrom::Current(0) => Ok(self.pos as u64),
            _ => Err(std::io::ErrorKind::Other.into()),
        }
    }
}

// @harness
// @prop C15
// @tier quick
// @timeout 340
// @fn Vtx::load (first pass over the strings block: terminator count and strings_block_size)
// @sym the 8 bytes of the strings block; loop frame, chip frequency, year
// @assert when the asset delivers the strings block one byte per read, the loader counts exactly the terminators that are in the file: fewer than five -> Err without a rewind; otherwise it rewinds to offset 16 and asks for exactly the bytes in front of the fifth terminator; never a panic or overflow
// @bound strings block of 8 bytes, one byte per read (unwind 26)
// @stub alloc::fmt::format -> empty string
// @assume environment: reads issued after the rewind fail; the header is delivered in full reads
// @replay solver-only
#[kani::proof]
#[kani::unwind(26)]
#[kani::stub(alloc::fmt::format, no_format)]
fn c15_vtx_strings_scan_one_byte_reads() {
    let mut data: [u8; 24] = kani::any();
    data[0] = b'a';
    data[1] = b'y';
    data[2] = 1;
    data[9] = 50;
    data[12] = 14;
    data[13] = 0;
    data[14] = 0;
    data[15] = 0;
    let mut nuls = 0usize;
    let mut fifth = usize::MAX;
    let mut i = 16;
    while i < 24 {
        if data[i] == 0 {
            nuls += 1;
            if nuls == 5 {
                fifth = i - 16;
            }
        }
        i += 1;
    }
    let mut rd = OneByteReader { data, pos: 0, rewound: false, rewind_target: 0, asked_after_rewind: usize::MAX };
    let r = Vtx::load(&mut rd);
    let ok = r.is_ok();
    core::mem::forget(r);
    kani::assert(!ok, "c15.vtx.failing_or_truncated_asset_is_an_error");
    if nuls < 5 {
        kani::assert(!rd.rewound, "c15.vtx.no_rewind_without_five_terminators");
    } else {
        kani::assert(rd.rewound && rd.rewind_target == 16, "c15.vtx.rewinds_to_the_strings_block");
        kani::assert(rd.asked_after_rewind == fifth, "c15.vtx.block_size_matches_the_file");
    }
    kani::cover!(nuls >= 5 && fifth == 7, "fifth terminator is the last byte");
    kani::cover!(nuls == 4, "one terminator short");
}
