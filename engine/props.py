"""Per-property manifest texts (level, trusted base).  Harness lists come from the annotations."""

HOOK_COMMITS = ['83a615d', '70f6a25', '2ebdcd0']

COMMON_NOTE = ('Trusted: Kani 0.68 MIR->goto translation and CBMC 6.11/CaDiCaL; the specification functions written in the '
               'harness files from the property statement; the stubs and assumptions listed in the evidence file. '
               'Every verdict is "holds for all values within the stated bounds", nothing is claimed outside them.')

PROPS = {
    'C09': {
        'text': ('Bounded model checking of the real ZXBorder code: beam arithmetic for every T-state of the frame, both machines and a '
                 'symbolic witness pixel; the fill loop against its range semantics (<= 8 px quick); one whole frame of <= 3 symbolic '
                 'border writes from the frame-start invariant (inductive over frames), colour of a symbolic witness pixel compared '
                 'with the latest-write-before-beam specification within 16 px.'),
        'note': COMMON_NOTE + ' fill_to is replaced by its range summary in the frame-protocol query (justified by the fill-range query).',
    },
}
