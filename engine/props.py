"""Per-property manifest texts (level, trusted base).  Harness lists come from the annotations."""

HOOK_COMMITS = ['83a615d', '70f6a25', '2ebdcd0', '9a2449a']

# properties whose checks have been run to completion on the unchanged tree (exit 0) and are claimed in MANIFEST.json
READY = ['C01', 'C02', 'C03', 'C04', 'C05', 'C06', 'C07', 'C08', 'C09', 'C10', 'C11', 'C12', 'C13', 'C14', 'C15', 'C16', 'C17', 'C18', 'C19', 'C20']

COMMON_NOTE = ('Trusted: Kani 0.68 MIR->goto translation and CBMC 6.11/CaDiCaL; the specification functions written in the '
               'harness files from the property statement; the stubs and assumptions listed per harness in the evidence file. '
               'Every verdict is "holds for all values within the stated bounds", nothing is claimed outside them. ')

TECH = 'bounded model checking of the real Rust code with Kani/CBMC (SAT): symbolic inputs and pre-states, one solver query per harness'

PROPS = {
    'C01': {
        'text': ('Differential bounded model checking of the real Z80::emulate against an independent reference Z80 transducer: '
                 'symbolic opcode bytes of every page, every register incl. F/Q/MEMPTR, every byte the bus returns; one instruction '
                 'per query from an arbitrary CPU state, full post-state and ordered bus-event list compared (inductive for sequences).'),
        'note': COMMON_NOTE + 'The reference model hooks/z80/refz80.rs is the oracle; it is validated natively against ZEXALL.',
        'technique': TECH + '; differential against a reference Z80 model',
    },
    'C02': {
        'text': ('Bounded model checking of three consecutive real emulate() calls from an arbitrary CPU state with symbolic INT/NMI '
                 'levels at every boundary, compared with the reference model extended by the interrupt acceptance rules of the statement.'),
        'note': COMMON_NOTE + 'NMI directly after EI/DI or inside a prefix chain is outside the claim.',
        'technique': TECH + '; differential against a reference Z80 model with interrupt rules',
    },
    'C03': {
        'text': ('Same solver queries as C01/C02: every bus event carries kind, address and T-states and is compared with the documented '
                 'machine-cycle list of the reference model; per-instruction totals asserted against a second documented table.'),
        'note': COMMON_NOTE + 'Position of the 7-T acknowledge cycle relative to the stack writes at interrupt entry is not compared.',
        'technique': TECH + '; differential against documented machine-cycle tables',
    },
    'C04': {
        'text': ('Bounded model checking of the real ZXController bus primitives: one memory cycle / internal T-state run / port read / '
                 'port write from every frame T-state, every address or port, both machines and every reachable paging latch, elapsed '
                 'time compared with the closed contention formula and the four ULA port patterns of the statement.'),
        'note': COMMON_NOTE + 'Whole-instruction timing = the documented bus cycles (the C01/C03 page harnesses of the real CPU, which also run under this check) composed with the per-cycle ULA delays checked here; the composition itself is an argument, not a query. Screen rendering is stubbed out.',
    },
    'C05': {
        'text': ('Bounded model checking of the real timing constants (builder chain), the INT line predicate for every frame T-state, one '
                 'clock step from any time (conservation invariant, inductive) and the real Emulator::emulate_frames loop with the CPU '
                 'abstracted to symbolic instruction lengths (<= 4 steps quick / 6 thorough).'),
        'note': COMMON_NOTE + '"Interrupted exactly once per frame" for arbitrary programs follows from these plus the interrupt-sampling harnesses of the real CPU (c02_step_*/c02_seq_*, which also run under this check); it is not run as a whole frame.',
    },
    'C06': {
        'text': ('Bounded model checking of the real paging path: any 3 port writes (symbolic ports and data) against a ghost latch, '
                 'window aliasing with a symbolic read address after a write through every window/bank, ROM image selection with a witness byte.'),
        'note': COMMON_NOTE + 'RAM stores are made at literal indices (offset class {0,0x1AFF,0x3FFF}, bank at 0xC000 enumerated) because CBMC cannot afford 128K-array stores at symbolic indices.',
    },
    'C07': {
        'text': ('Bounded model checking of the real read_io/write_io for every 16-bit port, both machines, Kempston joystick / mouse / '
                 'host extender present or not (extender predicate symbolic), against the partial-decode predicates of the statement; '
                 'floating bus checked against the fetch window with a display-memory witness; AY ports in the sound,ay build.'),
        'note': COMMON_NOTE + 'Ports selecting two devices are excluded as the statement says; floating-bus position tolerance +-4 T.',
    },
    'C08': {
        'text': ('Bounded model checking of the real screen code with a symbolic witness pixel: address layout bijection, decode of bitmap/attribute/'
                 'BRIGHT/FLASH/bank for the witness pixel, render schedule relative to the beam (inductive step), frame end and flash counter, '
                 'and every write path (CPU write through any window, poke, snapshot refresh loop) reaching the display copy.'),
        'note': COMMON_NOTE + 'Whole-frame equality is by the witness pixel being arbitrary; RAM array stores are cut in the write-path queries.',
    },
    'C09': {
        'text': ('Bounded model checking of the real ZXBorder code: beam arithmetic for every T-state of the frame, both machines and a '
                 'symbolic witness pixel; the fill loop against its range semantics (<= 8 px); one whole frame of <= 3 symbolic '
                 'border writes from the frame-start invariant (inductive over frames), colour of a symbolic witness pixel compared '
                 'with the latest-write-before-beam specification within 16 px.'),
        'note': COMMON_NOTE + 'fill_to is replaced by its range summary in the frame-protocol query (justified by the fill-range query).',
    },
    'C10': {
        'text': ('Bounded model checking of the real fast_load_tap / Tap block reader against an executable model of the ROM LD-BYTES routine '
                 'on symbolic tapes (<= 10 bytes) and request parameters; byte-stream harnesses at the 128-byte buffer boundaries.'),
        'note': COMMON_NOTE + 'The LD-BYTES model is transcribed from the ROM listing; blocks longer than the stated bounds are outside.',
    },
    'C11': {
        'text': ('Bounded model checking of one real Tap::process_clocks call from an arbitrary generator state (pulse table, countdown, '
                 'lateness invariant) and of asset-touching transitions on tiny symbolic tapes.'),
        'note': COMMON_NOTE + 'The real-time ROM loader corollary is outside.',
    },
    'C12': {
        'text': ('Bounded model checking of the real deck commands: command words of <= 4 over {stop, play, rewind, advance} from an '
                 'arbitrary generator state against the cassette-deck specification.'),
        'note': COMMON_NOTE,
    },
    'C13': {
        'text': ('Bounded model checking of real sna::save followed by sna::load through a sparse witness recorder/asset: every register, '
                 'paging latch and a witness RAM byte (bank enumerated) symbolic; receiver in an arbitrary dirty state.'),
        'note': COMMON_NOTE + 'RAM offsets are from a concrete class; page transfers are summarised by the sparse asset.',
    },
    'C14': {
        'text': ('Bounded model checking of the real SNA/SZX/SCR loaders against independent format encoders: one header / chunk per query, '
                 'receiver pre-state arbitrary, model mismatch cases.'),
        'note': COMMON_NOTE + 'zlib-compressed SZX pages (miniz_oxide inflate) are outside the claim.',
    },
    'C15': {
        'text': ('Bounded model checking of the real loader units on arbitrary bytes (<= 40 symbolic bytes per unit, symbolic sizes) with a '
                 'fault-injecting asset: Kani\'s panic/overflow/index checks and unwinding assertions are the property.'),
        'note': COMMON_NOTE + 'inflate/LH5/gzip bodies and inputs longer than the bounds are outside.',
    },
    'C16': {
        'text': ('Two-run product (self-composition) queries over the real frame loop and bus step: different host slicing, stopwatch '
                 'readings, host-only state and read chunking must give equal emulated state.'),
        'note': COMMON_NOTE + 'CPU abstracted to symbolic instruction lengths in the frame-loop product.',
    },
    'C17': {
        'text': ('Bounded model checking of one symbolic input event from an arbitrary consistent state (abstraction function from held-control '
                 'sets to the three key matrices, joystick byte and mouse ports): inductive for every event history; ULA read AND-combination in C07\'s read query.'),
        'note': COMMON_NOTE + 'Known finding KF-C17-1 (Sinclair joystick 2 down) is excluded from the main query and witnessed by its own failing query.',
    },
    'C18': {
        'text': ('Bounded model checking of the real AY register decode, tone/noise/envelope counters (one tick from arbitrary state; 66 envelope '
                 'expiries for all 16 shapes), mixer gate and DAC tables, stereo pan arguments, the resampler tick rate at enumerated sample rates, '
                 'and port read-back through the real controller ports.'),
        'note': COMMON_NOTE + 'The float DSP chain (cubic interpolator, 192-tap FIR, DC filter) is outside: output in Hz / RMS is not decided.',
    },
    'C19': {
        'text': ('Bounded model checking of the real mixer step and frame end (queue arithmetic, sample level = volume x speaker/MIC level) at '
                 'small rates, the sample-cursor float arithmetic at enumerated real sample rates with symbolic frame time, and the port write '
                 'latching the beeper bits.'),
        'note': COMMON_NOTE + 'Rates not in the list and the AY contribution to amplitude are outside.',
    },
    'C20': {
        'text': ('Bounded model checking of the real vtx Player with a recording sound-chip back end: register-write schedule, total length and '
                 'play() chunking independence for <= 3 frames x <= 3 samples, mono and stereo.'),
        'note': COMMON_NOTE + 'The register-major to frame-major transposition in Vtx::load sits behind the LH5 decoder and is outside.',
    },
}
