"""Kani/CBMC query runner, output parser, evidence writer and replay for /verif."""
import concurrent.futures as cf
import hashlib
import json
import os
import random
import re
import resource
import shutil
import signal
import subprocess
import sys
import time

VERIF = os.path.dirname(os.path.dirname(os.path.abspath(__file__)))
REPO = os.environ.get('VERIF_REPO', '/repo')
PARTIAL = False
HOOK_PREFIX = '/verif/hooks/'          # path prefix written in /repo's cfg(kani) hook lines

# hook file (relative to hooks/) -> (cargo package, module path of the hook module)
HOOK_MODULES = {
    'core/root.rs': ('rustzx-core', 'verif_hooks'),
    'core/emulator.rs': ('rustzx-core', 'emulator::verif_hooks'),
    'core/sna.rs': ('rustzx-core', 'emulator::snapshot::sna::verif_hooks'),
    'core/szx.rs': ('rustzx-core', 'emulator::snapshot::szx::verif_hooks'),
    'core/scr.rs': ('rustzx-core', 'emulator::screenshot::scr::verif_hooks'),
    'core/fastload.rs': ('rustzx-core', 'emulator::fastload::tap::verif_hooks'),
    'core/io.rs': ('rustzx-core', 'host::io::verif_hooks'),
    'core/controller.rs': ('rustzx-core', 'zx::controller::verif_hooks'),
    'core/memory.rs': ('rustzx-core', 'zx::memory::verif_hooks'),
    'core/keys.rs': ('rustzx-core', 'zx::keys::verif_hooks'),
    'core/kempston_joy.rs': ('rustzx-core', 'zx::joy::kempston::verif_hooks'),
    'core/sinclair.rs': ('rustzx-core', 'zx::joy::sinclair::verif_hooks'),
    'core/kempston_mouse.rs': ('rustzx-core', 'zx::mouse::kempston::verif_hooks'),
    'core/machine.rs': ('rustzx-core', 'zx::machine::verif_hooks'),
    'core/tap.rs': ('rustzx-core', 'zx::tape::tap::verif_hooks'),
    'core/screen.rs': ('rustzx-core', 'zx::video::screen::verif_hooks'),
    'core/border.rs': ('rustzx-core', 'zx::video::border::verif_hooks'),
    'core/mixer.rs': ('rustzx-core', 'zx::sound::mixer::verif_hooks'),
    'core/ay.rs': ('rustzx-core', 'zx::sound::ay::verif_hooks'),
    'core/beeper.rs': ('rustzx-core', 'zx::sound::beeper::verif_hooks'),
    'core/utils_screen.rs': ('rustzx-core', 'utils::screen::verif_hooks'),
    'aym/precise.rs': ('aym', 'backends::precise::verif_hooks'),
    'z80/cpu.rs': ('rustzx-z80', 'cpu::verif_hooks'),
    'z80/registers.rs': ('rustzx-z80', 'registers::verif_hooks'),
    'vtx/lib.rs': ('vtx', 'verif_hooks'),
    'vtx/player.rs': ('vtx', 'player::verif_hooks'),
}

ANN = re.compile(r'^\s*//[/!]?\s*@(\w+)\s*(.*)$')
FN = re.compile(r'^\s*(?:pub\s+)?fn\s+(\w+)\s*\(')
MOD = re.compile(r'^\s*(?:pub(?:\([a-z]+\))?\s+)?mod\s+(\w+)\s*\{')


class Harness:
    def __init__(self, name, file, ann):
        self.name = name
        self.file = file
        self.ann = ann
        rel = os.path.relpath(file, os.path.join(VERIF, 'hooks'))
        self.package, modpath = HOOK_MODULES[rel]
        sub = ann.get('_mod', '')
        self.full = modpath + ('::' + sub if sub else '') + '::' + name
        self.props = ' '.join(ann.get('prop', [])).replace(',', ' ').split()
        self.tier = (ann.get('tier') or ['quick'])[0].strip()
        self.features = ','.join(sorted(f for f in ' '.join(ann.get('features', [])).replace(',', ' ').split()))
        self.expect = (ann.get('expect') or ['pass'])[0].strip()
        self.timeout = int((ann.get('timeout') or ['600'])[0])
        self.replay = (ann.get('replay') or ['native'])[0].strip()
        # extra cargo-kani flags for this harness (`// @kani_args ...`); the reach-check flag is global already
        self.kani_args = ' '.join(a for a in ' '.join(ann.get('kani_args', [])).split() if a != '--no-assertion-reach-checks')

    def meta(self):
        keys = ['fn', 'sym', 'bound', 'stub', 'assume', 'outside', 'assert']
        return {k: [v for v in self.ann.get(k, [])] for k in keys if self.ann.get(k)}


def scan_harnesses():
    out = []
    hooks = os.path.join(VERIF, 'hooks')
    for root, _, files in os.walk(hooks):
        for f in sorted(files):
            if not f.endswith('.rs'):
                continue
            path = os.path.join(root, f)
            rel = os.path.relpath(path, hooks)
            if rel not in HOOK_MODULES:
                continue
            ann, active = {}, False
            modstack = []   # (name, depth) for inline modules
            depth = 0
            for line in open(path):
                m = ANN.match(line)
                if m:
                    if m.group(1) == 'harness':
                        ann, active = {}, True
                    elif active:
                        ann.setdefault(m.group(1), []).append(m.group(2).strip())
                    continue
                mm = MOD.match(line)
                if mm:
                    modstack.append((mm.group(1), depth))
                fm = FN.match(line)
                if fm and active:
                    ann['_mod'] = '::'.join(n for n, _ in modstack)
                    out.append(Harness(fm.group(1), path, ann))
                    ann, active = {}, False
                depth += line.count('{') - line.count('}')
                while modstack and depth <= modstack[-1][1]:
                    modstack.pop()
    return out


# --------------------------------------------------------------------------- scratch / build

def sh(cmd, cwd=None, env=None, timeout=None, limit_gb=None, log=None):
    """Run a shell command in its own process group, return (rc, output, seconds, timed_out)."""
    def pre():
        os.setsid()
        resource.setrlimit(resource.RLIMIT_STACK, (resource.RLIM_INFINITY, resource.RLIM_INFINITY))
        if limit_gb:
            b = int(limit_gb * (1 << 30))
            resource.setrlimit(resource.RLIMIT_AS, (b, b))
    e = dict(os.environ)
    e.update({'CARGO_NET_OFFLINE': 'true', 'CARGO_TERM_COLOR': 'never'})
    if env:
        e.update(env)
    t0 = time.time()
    p = subprocess.Popen(cmd, shell=isinstance(cmd, str), cwd=cwd, env=e, stdout=subprocess.PIPE,
                         stderr=subprocess.STDOUT, preexec_fn=pre, text=True, errors='replace')
    timed_out = False
    try:
        out, _ = p.communicate(timeout=timeout)
    except subprocess.TimeoutExpired:
        timed_out = True
        try:
            os.killpg(p.pid, signal.SIGKILL)
        except ProcessLookupError:
            pass
        out, _ = p.communicate()
    dt = time.time() - t0
    if log:
        with open(log, 'w') as fh:
            fh.write(out)
    return p.returncode, out, dt, timed_out


class Scratch:
    def __init__(self, tag, keep=False):
        base = os.environ.get('VERIF_SCRATCH_BASE', '/tmp')
        self.dir = os.path.join(base, 'rzxv.%s.%d' % (tag, os.getpid()))
        self.keep = keep
        shutil.rmtree(self.dir, ignore_errors=True)
        os.makedirs(self.dir)
        self.repo = os.path.join(self.dir, 'repo')
        self.hooks = os.path.join(self.dir, 'hooks')
        self.logs = os.path.join(self.dir, 'logs')
        os.makedirs(self.logs)

    def prepare(self):
        rc, out, _, _ = sh(['rsync', '-a', '--exclude', 'target', '--exclude', '.git', REPO + '/', self.repo + '/'])
        if rc != 0:
            raise RuntimeError('rsync failed: ' + out)
        shutil.copytree(os.path.join(VERIF, 'hooks'), self.hooks)
        # point the cfg(kani) hook lines of the copy at the copied hooks
        n = 0
        for root, _, files in os.walk(self.repo):
            for f in files:
                if f.endswith('.rs'):
                    p = os.path.join(root, f)
                    s = open(p, errors='replace').read()
                    if HOOK_PREFIX in s:
                        open(p, 'w').write(s.replace(HOOK_PREFIX, self.hooks + '/'))
                        n += 1
        self.hook_sites = n
        # Kani's toolchain cannot build the locked proc-macro2 1.0.53 (build tooling only; copy only)
        rc, out, _, _ = sh('cargo update -p proc-macro2 --precise 1.0.95 --offline', cwd=self.repo)
        if rc != 0:
            raise RuntimeError('lock bump failed: ' + out)

    def tgt(self, package, features):
        key = package + ('-' + features.replace(',', '_') if features else '')
        return os.path.join(self.dir, 'tgt-' + key)

    def cleanup(self):
        if not self.keep:
            shutil.rmtree(self.dir, ignore_errors=True)


def kani_cmd(h, tgt, extra=''):
    feat = ('--features ' + h.features) if h.features else ''
    return ('cargo kani -p %s %s --harness %s --exact -Z stubbing --no-assertion-reach-checks --output-format terse --target-dir %s %s %s'
            % (h.package, feat, h.full, tgt, (os.environ.get('VERIF_KANI_EXTRA', '') + ' ' + h.kani_args).strip(), extra))


def build_group(scr, package, features, harnesses=()):
    feat = ('--features ' + features) if features else ''
    tgt = scr.tgt(package, features)
    # code generation only for the harnesses of this check: generating all ~350 harnesses of the crate
    # costs 4-5 minutes, the selected ones a few seconds; the per-query runs reuse this build
    filt = ' '.join('--harness %s' % h.full for h in harnesses)
    if filt:
        filt += ' --exact'
    cmd = 'cargo kani -p %s %s --only-codegen -Z stubbing --target-dir %s %s' % (package, feat, tgt, filt)
    log = os.path.join(scr.logs, 'build-%s-%s.log' % (package, features.replace(',', '_')))
    rc, out, dt, to = sh(cmd, cwd=scr.repo, timeout=1200, log=log)
    return rc == 0 and not to, out, dt


# --------------------------------------------------------------------------- output parsing

RE_SUMMARY = re.compile(r'\*\* (\d+) of (\d+) failed(?: \((.*?)\))?')
RE_COVER = re.compile(r'\*\* (\d+) of (\d+) cover properties satisfied(?: \((.*?)\))?')
RE_FAILED = re.compile(r'^Failed Checks: (.*)$')
RE_FILE = re.compile(r'^\s*File: "(.*?)", line (\d+), in (.*)$')
RE_TIME = re.compile(r'Verification Time: ([0-9.]+)s')


def parse_kani(out):
    r = {'status': None, 'checks_total': 0, 'checks_failed': 0, 'covers_total': 0, 'covers_sat': 0,
         'failed': [], 'unwind_fail': False, 'solver_s': None, 'note': ''}
    lines = out.splitlines()
    for i, l in enumerate(lines):
        m = RE_SUMMARY.search(l)
        if m:
            r['checks_failed'], r['checks_total'] = int(m.group(1)), int(m.group(2))
            r['note'] = m.group(3) or ''
        m = RE_COVER.search(l)
        if m:
            r['covers_sat'], r['covers_total'] = int(m.group(1)), int(m.group(2))
        m = RE_FAILED.match(l)
        if m:
            desc = m.group(1).strip()
            loc = ''
            if i + 1 < len(lines):
                fm = RE_FILE.match(lines[i + 1])
                if fm:
                    loc = '%s:%s in %s' % (fm.group(1), fm.group(2), fm.group(3))
            if desc.startswith('unwinding assertion') or 'recursion unwinding assertion' in desc:
                r['unwind_fail'] = True
            else:
                r['failed'].append({'desc': desc, 'loc': loc})
        m = RE_TIME.search(l)
        if m:
            r['solver_s'] = float(m.group(1))
        if 'VERIFICATION:- SUCCESSFUL' in l:
            r['status'] = 'SUCCESSFUL'
        elif 'VERIFICATION:- FAILED' in l:
            r['status'] = 'FAILED'
    if 'unwinding failures' in out:
        r['unwind_fail'] = r['unwind_fail'] or True
    m = re.search(r'(CBMC appears to have run out of memory|CBMC failed with status \d+|CBMC failed|CBMC crashed|std::bad_alloc|Status: ERROR|Killed)', out)
    if m:
        r['error'] = m.group(1)
    return r


# --------------------------------------------------------------------------- one query

def run_query(scr, h, mem_gb, timeout_scale=1.0):
    tgt = scr.tgt(h.package, h.features)
    log = os.path.join(scr.logs, h.name + '.log')
    rc, out, dt, to = sh(kani_cmd(h, tgt), cwd=scr.repo, timeout=h.timeout * timeout_scale,
                         limit_gb=mem_gb, log=log)
    r = parse_kani(out)
    r.update({'harness': h.name, 'full': h.full, 'wall_s': round(dt, 2), 'timed_out': to, 'rc': rc, 'expect': h.expect})
    # classification
    if to:
        r['verdict'] = 'inconclusive'
        r['why'] = 'timeout after %ds' % int(h.timeout * timeout_scale)
    elif r['status'] is None or r.get('error') and r['status'] != 'SUCCESSFUL':
        r['verdict'] = 'inconclusive'
        r['why'] = 'no verdict (rc=%s): %s' % (rc, r.get('error') or ' | '.join(out.strip().splitlines()[-3:])[-300:])
    elif r['status'] == 'SUCCESSFUL':
        if r['covers_total'] == 0 or r['covers_sat'] != r['covers_total']:
            r['verdict'] = 'inconclusive'
            r['why'] = 'vacuity: %d of %d cover witnesses satisfied' % (r['covers_sat'], r['covers_total'])
        else:
            r['verdict'] = 'holds'
    else:  # FAILED
        if r['failed']:
            r['verdict'] = 'fails'
        elif r['unwind_fail']:
            r['verdict'] = 'inconclusive'
            r['why'] = 'unwinding assertion failed (bound too small for this code)'
        else:
            r['verdict'] = 'inconclusive'
            r['why'] = 'FAILED without a failed check'
    return r


# --------------------------------------------------------------------------- concrete playback / native replay

RE_TEST = re.compile(r'(#\[test\]\s*fn\s+(kani_concrete_playback_\w+)\s*\(\)\s*\{.*?\n\})', re.S)


def extract_playback(scr, h, mem_gb):
    tgt = scr.tgt(h.package, h.features)
    log = os.path.join(scr.logs, h.name + '.playback.log')
    cmd = kani_cmd(h, tgt, '-Z concrete-playback --concrete-playback=print').replace('--output-format terse', '')
    rc, out, dt, to = sh(cmd, cwd=scr.repo, timeout=max(1800, h.timeout * 8), limit_gb=mem_gb, log=log)
    # Kani prints one playback test per FAILED check and one per SATISFIED cover (in no fixed order):
    # keep them all; the replay runs every one of them and reproduces if any of them panics.
    ms = RE_TEST.findall(out)
    if not ms:
        return None, None, dt
    uniq = {}
    for src, name in ms:
        uniq.setdefault(name, src)      # identical value vectors get identical names
    return '\n\n'.join(uniq.values()), 'kani_concrete_playback_' + h.name + '_', dt


def native_replay(scr, h, test_src, test_name, profile_release=False):
    """Append the generated unit test to the (copied) hook file and run it with `cargo kani playback`.
    Returns ('reproduced'|'passed'|'error', output)."""
    rel = os.path.relpath(h.file, os.path.join(VERIF, 'hooks'))
    hook = os.path.join(scr.hooks, rel)
    orig = open(hook).read()
    sub = h.ann.get('_mod', '')
    # the generated test uses Vec / vec!, which are not in scope in no_std crates
    test_src = re.sub(r'(fn\s+kani_concrete_playback_\w+\s*\(\)\s*\{)',
                      r'\1\n    extern crate std;\n    #[allow(unused_imports)]\n    use std::{vec, vec::Vec};', test_src)
    try:
        if sub:
            # harness lives in an inline module that closes at the end of the file: put the test inside it
            cut = orig.rstrip().rfind('}')
            open(hook, 'w').write(orig[:cut] + '\n' + test_src + '\n}\n')
        else:
            open(hook, 'w').write(orig + '\n' + test_src + '\n')
        feat = ('--features ' + h.features) if h.features else ''
        rel_flag = '--release' if profile_release else ''
        # test_name is the common prefix of all generated tests of this harness (no --exact)
        cmd = ('cargo kani playback -Z concrete-playback -p %s %s %s -- %s --nocapture'
               % (h.package, feat, rel_flag, h.full.rsplit('::', 1)[0] + '::' + test_name))
        log = os.path.join(scr.logs, h.name + ('.replay-release.log' if profile_release else '.replay.log'))
        rc, out, dt, to = sh(cmd, cwd=scr.repo, timeout=1800, log=log)
    finally:
        open(hook, 'w').write(orig)
    if to:
        return 'error', 'native replay timed out'
    if re.search(r'test result: FAILED|panicked at', out) and re.search(r'running [1-9]\d* tests?', out):
        return 'reproduced', out
    if re.search(r'test result: ok\. [1-9]\d* passed', out):
        return 'passed', out
    return 'error', out


# --------------------------------------------------------------------------- known findings

def load_known():
    p = os.path.join(VERIF, 'known_findings.json')
    if not os.path.exists(p):
        return []
    return json.load(open(p)).get('findings', [])


# --------------------------------------------------------------------------- check

def check(prop, tier, jobs, keep, only=None, thorough_only=False):
    global PARTIAL
    PARTIAL = bool(only) or thorough_only
    t0 = time.time()
    seed = int(os.environ.get('VERIF_SEED', '0') or 0)
    allh = scan_harnesses()
    sel = [h for h in allh if prop in h.props and (tier == 'thorough' or h.tier == 'quick')]
    if thorough_only:
        sel = [h for h in sel if h.tier == 'thorough']
    if only:
        sel = [h for h in sel if any(o in h.name for o in only)]
    if not sel:
        print('no harness registered for %s' % prop)
        return 2
    random.Random(seed).shuffle(sel)
    # long queries first so the pool drains evenly
    sel.sort(key=lambda h: -h.timeout)
    known = {k['id']: k for k in load_known() if k.get('property') == prop}
    mem_gb = float(os.environ.get('VERIF_MEM_GB', '14' if tier == 'quick' else '28'))
    scr = Scratch(prop, keep)
    results, build_info = [], []
    rcode = 0
    messages = []
    try:
        scr.prepare()
        groups = sorted(set((h.package, h.features) for h in sel))
        ok_groups = {}
        with cf.ThreadPoolExecutor(max_workers=min(4, len(groups))) as ex:
            futs = {ex.submit(build_group, scr, p, f, [h for h in sel if (h.package, h.features) == (p, f)]): (p, f)
                    for p, f in groups}
            for fu in cf.as_completed(futs):
                ok, out, dt = fu.result()
                ok_groups[futs[fu]] = ok
                build_info.append({'package': futs[fu][0], 'features': futs[fu][1], 'ok': ok, 'build_s': round(dt, 1)})
                if not ok:
                    errs = [l for l in out.splitlines() if l.startswith('error')][:5]
                    messages.append('INCONCLUSIVE build of %s [%s] with harnesses failed: %s'
                                    % (futs[fu][0], futs[fu][1], ' / '.join(errs)))
        runnable = [h for h in sel if ok_groups.get((h.package, h.features))]
        if len(runnable) != len(sel):
            rcode = 2
        with cf.ThreadPoolExecutor(max_workers=jobs) as ex:
            futs = [ex.submit(run_query, scr, h, mem_gb) for h in runnable]
            for fu in cf.as_completed(futs):
                results.append(fu.result())
        byname = {h.name: h for h in sel}
        violations, known_confirmed, inconclusive = [], [], []
        for r in sorted(results, key=lambda r: r['harness']):
            h = byname[r['harness']]
            exp = h.expect
            if exp == 'pass':
                if r['verdict'] == 'holds':
                    continue
                if r['verdict'] == 'inconclusive':
                    inconclusive.append(r)
                    continue
                # candidate violation -> concrete playback -> native replay
                v = confirm_violation(scr, h, r, mem_gb, prop)
                if v['state'] == 'violation':
                    violations.append(v)
                else:
                    r['why'] = v['why']
                    inconclusive.append(r)
            elif exp == 'vacuity':
                # reachability twin: its final assert(false) must be reported as failed
                if r['verdict'] == 'fails':
                    r['verdict'] = 'witness-ok'
                elif r['verdict'] == 'holds' or r['status'] == 'SUCCESSFUL':
                    r['verdict'] = 'inconclusive'
                    r['why'] = 'reachability twin verified: the harness it guards is vacuous'
                    inconclusive.append(r)
                else:
                    inconclusive.append(r)
            elif exp.startswith('known:'):
                kid = exp.split(':', 1)[1]
                k = known.get(kid)
                if r['verdict'] == 'fails':
                    roles = set(k.get('roles', [])) if k else set()
                    foreign = [f for f in r['failed'] if roles and f['desc'] not in roles]
                    if k and k.get('status') == 'known' and not foreign:
                        known_confirmed.append((k, r))
                        r['verdict'] = 'known-finding'
                    else:
                        v = confirm_violation(scr, h, r, mem_gb, prop)
                        if v['state'] == 'violation':
                            violations.append(v)
                        else:
                            r['why'] = v['why']
                            inconclusive.append(r)
                elif r['verdict'] == 'holds':
                    r['verdict'] = 'holds'   # the recorded defect is gone: nothing to print
                else:
                    inconclusive.append(r)
        for k, r in known_confirmed:
            print('KNOWN-FINDING: property=%s %s [%s; witness harness %s still fails]' % (prop, k['text'], k['id'], r['harness']))
        for r in inconclusive:
            print('INCONCLUSIVE harness=%s %s' % (r['harness'], r.get('why', '')))
        for m in messages:
            print(m)
        for v in violations:
            print('VIOLATION property=%s replay=%s' % (prop, v['path']))
        if violations:
            rcode = 1
        elif inconclusive or rcode == 2:
            rcode = 2
        write_evidence(prop, tier, seed, sel, results, build_info, violations, known_confirmed, inconclusive,
                       time.time() - t0, scr)
        n_ok = sum(1 for r in results if r['verdict'] in ('holds', 'witness-ok', 'known-finding'))
        print('%s %s: %d queries, %d as expected, %d inconclusive, %d violations, %.0fs wall'
              % (prop, tier, len(results), n_ok, len(inconclusive), len(violations), time.time() - t0))
    finally:
        if keep or (rcode != 0 and os.environ.get('VERIF_KEEP_ON_FAIL')):
            print('scratch kept at', scr.dir)
            scr.keep = True
        scr.cleanup()
    return rcode


def confirm_violation(scr, h, r, mem_gb, prop):
    """Turn a FAILED query into a replayed violation (or say why it could not be confirmed)."""
    os.makedirs(os.path.join(VERIF, 'replays'), exist_ok=True)
    base = {'property': prop, 'harness': h.name, 'harness_full': h.full, 'package': h.package,
            'features': h.features, 'failed_checks': r['failed'], 'meta': h.meta()}
    if h.replay == 'solver-only':
        # harness depends on #[kani::stub] replacements, which native playback cannot apply
        base['replay_kind'] = 'solver-trace-only'
        base['note'] = 'harness uses stubs that concrete playback cannot apply; the solver verdict is reported without a native re-run'
        path = write_replay(base)
        return {'state': 'violation', 'path': path}
    test_src, test_name, dt = extract_playback(scr, h, mem_gb)
    if not test_src:
        base['replay_kind'] = 'solver-trace-only'
        base['note'] = 'concrete playback produced no test (no symbolic input on the failing path); solver verdict only'
        path = write_replay(base)
        return {'state': 'violation', 'path': path}
    base['playback_test'] = test_src
    base['playback_test_name'] = test_name
    state, out = native_replay(scr, h, test_src, test_name)
    base['native_replay_dev'] = state
    if state == 'reproduced':
        st2, _ = native_replay(scr, h, test_src, test_name, profile_release=True)
        base['native_replay_release'] = st2
        m = re.findall(r'panicked at .*?(?:\n.*?){0,2}', out)
        base['native_panic'] = m[:2]
        path = write_replay(base)
        return {'state': 'violation', 'path': path}
    return {'state': 'inconclusive', 'why': 'counterexample did not reproduce natively (%s): encoding or stub suspect' % state}


def write_replay(obj):
    blob = json.dumps(obj, sort_keys=True)
    hsh = hashlib.sha1(blob.encode()).hexdigest()[:10]
    path = os.path.join(VERIF, 'replays', '%s-%s-%s.json' % (obj['property'], obj['harness'], hsh))
    with open(path, 'w') as fh:
        json.dump(obj, fh, indent=1)
    return path


def write_evidence(prop, tier, seed, sel, results, build_info, violations, known_confirmed, inconclusive, wall, scr):
    byname = {h.name: h for h in sel}
    decided = [r for r in results if r['verdict'] in ('holds', 'witness-ok', 'known-finding')]
    nontrivial = [r for r in decided if (r['verdict'] != 'holds') or (r['covers_total'] > 0 and r['covers_sat'] == r['covers_total'])]
    fns, stubs, assumes, bounds, outside = [], [], [], [], []
    samples = []
    for r in sorted(results, key=lambda r: r['harness']):
        h = byname[r['harness']]
        m = h.meta()
        for k, acc in (('fn', fns), ('stub', stubs), ('assume', assumes), ('outside', outside)):
            for v in m.get(k, []):
                for item in ([x.strip() for x in v.split(';')] if k == 'fn' else [v]):
                    if item and item not in acc:
                        acc.append(item)
        for v in m.get('bound', []):
            bounds.append('%s: %s' % (h.name, v))
        samples.append({'harness': h.full, 'package': h.package, 'features': h.features, 'expect': h.expect,
                        'verdict': r['verdict'], 'cbmc_checks': r['checks_total'], 'cbmc_checks_failed': r['checks_failed'],
                        'cover_witnesses': '%d/%d' % (r['covers_sat'], r['covers_total']),
                        'solver_s': r['solver_s'], 'wall_s': r['wall_s'],
                        'symbolic': m.get('sym', []), 'bounds': m.get('bound', []), 'asserts': m.get('assert', [])})
    ev = {
        'property_id': prop, 'tier': tier, 'seed': seed, 'level': 'model_checking',
        'coverage': {
            'evaluations': len(results),
            'distinct_nontrivial': len(set(r['harness'] for r in nontrivial)),
            'rule': ('one evaluation = one solver query (one #[kani::proof] harness compiled from /repo\'s working tree and '
                     'decided by CBMC over all values of its symbolic inputs within the stated bounds). A query counts as '
                     'distinct and non-trivial when its verdict is the expected one AND every kani::cover! reachability '
                     'witness placed after its last assertion was SATISFIED (so assumptions are satisfiable and the '
                     'assertions were reached); reachability twins count when their final assert(false) is reported failed.'),
            'samples': samples,
            'exhaustive': False,
            'functions_encoded': fns, 'bounds': bounds, 'stubs': stubs, 'outside_the_claim': outside,
            'queries_discharged': len(decided), 'queries_inconclusive': len(inconclusive),
            'cbmc_checks_total': sum(r['checks_total'] for r in results),
            'solver_time_s': round(sum(r['solver_s'] or 0 for r in results), 2),
            'query_wall_time_s': round(sum(r['wall_s'] for r in results), 2),
            'builds': build_info, 'hook_sites_rewritten': getattr(scr, 'hook_sites', None),
            'known_findings_confirmed': [k['id'] for k, _ in known_confirmed],
            'engine': 'Kani 0.68.0 / CBMC 6.11.0 (CaDiCaL), encoding regenerated from %s on this run' % REPO,
        },
        'assumptions': assumes + ['Kani/CBMC encode Rust MIR faithfully (dev profile, overflow checks on)',
                                  'proc-macro2 bumped 1.0.53 -> 1.0.95 in the scratch copy only (build tooling)'],
        'wall_s': round(wall, 1),
        'violations': len(violations),
    }
    # partial runs (--only) must never replace the evidence of a whole check
    evdir = os.path.join(VERIF, 'evidence') if not PARTIAL else os.path.join('/tmp', 'rzxv-partial-evidence')
    os.makedirs(evdir, exist_ok=True)
    with open(os.path.join(evdir, prop + '.json'), 'w') as fh:
        json.dump(ev, fh, indent=1)


# --------------------------------------------------------------------------- replay command

def replay(path):
    obj = json.load(open(path))
    print(json.dumps({k: obj[k] for k in ('property', 'harness_full', 'failed_checks') if k in obj}, indent=1))
    if 'playback_test' not in obj:
        print('no concrete playback test recorded (%s)' % obj.get('note', ''))
        return 0
    hs = [h for h in scan_harnesses() if h.name == obj['harness']]
    if not hs:
        print('harness %s no longer exists' % obj['harness'])
        return 2
    h = hs[0]
    scr = Scratch('replay')
    try:
        scr.prepare()
        state, out = native_replay(scr, h, obj['playback_test'], obj['playback_test_name'])
        print('native replay (dev profile): %s' % state)
        for l in out.splitlines():
            if 'panicked at' in l or 'test result' in l or l.startswith('Failed') or 'assertion' in l:
                print('  ' + l)
        return 1 if state == 'reproduced' else (0 if state == 'passed' else 2)
    finally:
        scr.cleanup()


def main(argv):
    import argparse
    ap = argparse.ArgumentParser()
    sub = ap.add_subparsers(dest='cmd')
    c = sub.add_parser('check')
    c.add_argument('prop')
    c.add_argument('--tier', default=os.environ.get('VERIF_TIER', 'quick'), choices=['quick', 'thorough'])
    c.add_argument('--jobs', type=int, default=None, help='parallel solver queries (default: VERIF_JOBS, else 12 in the quick tier and 6 in the thorough tier, whose queries need several GB each)')
    c.add_argument('--keep', action='store_true')
    c.add_argument('--only', action='append')
    c.add_argument('--thorough-only', action='store_true', help='run only the thorough-tier harnesses (validation aid; writes no evidence)')
    r = sub.add_parser('replay')
    r.add_argument('path')
    l = sub.add_parser('list')
    l.add_argument('prop', nargs='?')
    sub.add_parser('selftest')
    a = ap.parse_args(argv)
    if a.cmd == 'check':
        if a.jobs is None:
            a.jobs = int(os.environ.get('VERIF_JOBS', '6' if (a.thorough_only or a.tier == 'thorough') else '12'))
        return check(a.prop, 'thorough' if a.thorough_only else a.tier, a.jobs, a.keep, a.only, a.thorough_only)
    if a.cmd == 'replay':
        return replay(a.path)
    if a.cmd == 'list':
        for h in scan_harnesses():
            if not a.prop or a.prop in h.props:
                print('%-8s %-8s %-10s %-24s %s' % (','.join(h.props), h.tier, h.expect, h.features, h.full))
        return 0
    if a.cmd == 'selftest':
        rc, out, _, _ = sh('cargo kani --version && cbmc --version')
        print(out.strip())
        return 0 if rc == 0 else 2
    ap.print_help()
    return 2
