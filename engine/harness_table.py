#!/usr/bin/env python3
"""Prints the harness inventory (DESIGN.md section 11) from the annotations."""
import os, sys
sys.path.insert(0, os.path.dirname(os.path.abspath(__file__)))
import driver
hs = driver.scan_harnesses()
props = sorted(set(p for h in hs for p in h.props))
for p in props:
    mine = [h for h in hs if p in h.props]
    q = [h for h in mine if h.tier == 'quick']
    t = [h for h in mine if h.tier == 'thorough']
    print('### %s - %d quick, %d thorough-only harnesses\n' % (p, len(q), len(t)))
    print('| harness | tier | crate [features] | expect | bound |')
    print('|---|---|---|---|---|')
    for h in mine:
        b = ' / '.join(h.ann.get('bound', []))
        b = b if len(b) < 260 else b[:259] + '…'
        print('| `%s` | %s | %s%s | %s | %s |' % (h.name, h.tier, h.package, (' [' + h.features + ']') if h.features else '', h.expect, b.replace('|', '\\|')))
    print()
