#!/usr/bin/env python3
"""Regenerates /verif/MANIFEST.json from engine/props.py and the harness annotations."""
import json, os, sys
sys.path.insert(0, os.path.dirname(os.path.abspath(__file__)))
import driver
from props import PROPS, HOOK_COMMITS, READY

VERIF = driver.VERIF


def main():
    hs = driver.scan_harnesses()
    claimed = {}
    for h in hs:
        for p in h.props:
            claimed.setdefault(p, []).append(h)
    ids = [json.loads(l)['id'] for l in open(os.path.join(VERIF, 'properties.jsonl'))]
    checks, na = [], []
    for pid in ids:
        info = PROPS.get(pid, {})
        if pid in claimed and pid in READY and not info.get('not_applicable'):
            has_thorough = any(h.tier == 'thorough' for h in claimed[pid])
            c = {
                'property_id': pid,
                'quick_cmd': 'python3 run.py check %s --tier quick' % pid,
                'thorough_cmd': 'python3 run.py check %s --tier thorough' % pid,
                'evidence_file': '/verif/evidence/%s.json' % pid,
                'replay_cmd_template': 'python3 run.py replay {path}',
                'engine': 'kani-cbmc',
                'level_claimed': {
                    'category': 'model_checking',
                    'text': info.get('text', 'bounded model checking of the real code'),
                    'design_ref': info.get('design_ref', 'DESIGN.md section 4 ' + pid),
                },
                'level_note': info.get('note', ''),
                'technique': info.get('technique', 'bounded model checking of the real Rust code with Kani/CBMC (SAT), symbolic inputs, native replay of counterexamples'),
            }
            if not has_thorough:
                c['thorough_cmd'] = c['quick_cmd'].replace('quick', 'thorough')
            checks.append(c)
        else:
            na.append({'property_id': pid, 'reason': info.get('not_applicable') or 'no solver harness built yet for this property (work in progress; see DESIGN.md section 4)'})
    man = {
        'version': 1,
        'setup_cmd': 'python3 run.py selftest',
        'hooks': {
            'guard': 'cfg(kani)',
            'enable': 'set by `cargo kani` itself; each check rsyncs /repo\'s working tree to a scratch copy, points the `#[cfg(kani)] #[path = "/verif/hooks/..."] mod verif_hooks;` lines at a copy of /verif/hooks and runs `cargo kani -p <crate> --harness <name> -Z stubbing`',
            'baseline_off_cmd': 'cd /repo && cargo test --workspace --no-fail-fast --offline',
            'source_commits': HOOK_COMMITS,
            'add_only': True,
        },
        'engines': [{
            'name': 'kani-cbmc',
            'path': '/verif/run.py',
            'serves_properties': [c['property_id'] for c in checks],
            'kind_free_text': 'Kani 0.68 (Rust MIR -> goto program) + CBMC 6.11 bit-precise bounded model checking with CaDiCaL; harnesses in /verif/hooks are compiled inside the rustzx crates under cfg(kani); driver /verif/engine/driver.py',
        }],
        'checks': checks,
        'not_applicable': na,
        'notes': 'Exit codes: 0 held within bounds (KNOWN-FINDING lines possible), 1 VIOLATION (replayed natively through `cargo kani playback` where the harness has no stubs), 2 inconclusive (timeout, memory, unwinding assertion, vacuous harness, build failure).',
    }
    with open(os.path.join(VERIF, 'MANIFEST.json'), 'w') as fh:
        json.dump(man, fh, indent=1)
    print('claimed:', [c['property_id'] for c in checks])
    print('not applicable:', [n['property_id'] for n in na])


if __name__ == '__main__':
    main()
