#!/usr/bin/env python3
"""Prints the markdown table of seeded changes (DESIGN.md section 10) from seeded/*/{meta,confirm}.json and check_result.txt."""
import glob, json, os, re
rows = []
for d in sorted(x for x in glob.glob(os.path.join(os.path.dirname(os.path.dirname(os.path.abspath(__file__))), 'seeded', '*')) if os.path.isdir(x)):
    sid = os.path.basename(d)
    try:
        meta = json.load(open(os.path.join(d, 'meta.json')))
    except Exception:
        meta = {}
    try:
        conf = json.load(open(os.path.join(d, 'confirm.json')))
    except Exception:
        conf = {}
    res = open(os.path.join(d, 'check_result.txt')).read() if os.path.exists(os.path.join(d, 'check_result.txt')) else ''
    caught = sorted(set(re.findall(r'replays/C\d+-(\w+)-[0-9a-f]+\.json', res)))
    incon = sorted(set(re.findall(r'INCONCLUSIVE harness=(\w+)', res)))
    verdict = ('caught by ' + ', '.join('`%s`' % c for c in caught)) if caught else ('NOT caught' + (' (inconclusive: %s)' % ', '.join(incon) if incon else '') if res else 'not run yet')
    if os.path.exists(os.path.join(d, 'check_result_before_strengthening.txt')):
        verdict = 'first run: NOT caught; after strengthening: ' + verdict
    def short(x, n=220):
        x = ' '.join(str(x).split())
        return x if len(x) <= n else x[:n - 1] + '…'
    ok = 'yes' if conf.get('demo_with_change') == 'fails' and conf.get('demo_without_change') == 'passes' and conf.get('suite_failed') == 0 else 'no/unknown'
    rows.append('| %s | %s | %s | %s | %s |' % (sid, short(meta.get('summary', '')), short(meta.get('needs', '')), ok, verdict))
print('| seed | change | needs | re-confirmed (demo fails with / passes without, suite 31/31) | quick check on the changed tree |')
print('|---|---|---|---|---|')
print('\n'.join(rows))
