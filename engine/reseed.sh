#!/bin/bash
# reseed.sh <PROP> <N> [demo destination relative to worktree]: re-create the seeded worktree on /repo's current HEAD
P=$1; ID=$1-$2; DEST=${3:-rustzx-test/tests/seeded_demo.rs}
cd /repo && git worktree remove --force /tmp/mut/$P 2>/dev/null; git worktree prune
git worktree add -q --detach /tmp/mut/$P HEAD || exit 2
cd /tmp/mut/$P && git apply /verif/seeded/$ID/patch.diff || { echo "patch does not apply"; exit 3; }
mkdir -p $(dirname $DEST); cp /verif/seeded/$ID/demo.rs $DEST
mkdir -p seeded && cp /verif/seeded/$ID/patch.diff /verif/seeded/$ID/demo.rs /verif/seeded/$ID/meta.json seeded/
rm -f /verif/seeded/$ID/confirm.json /verif/seeded/$ID/check_result.txt
/verif/engine/seed_test.sh $P $2
