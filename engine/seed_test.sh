#!/bin/bash
# seed_test.sh <PROP> <N> [worktree] : confirm the seeded change in /tmp/mut/<PROP> and run the property's quick check against it
P=$1; ID=$1-$2; WT=${3:-/tmp/mut/$P}
[ -f /verif/seeded/$ID/confirm.json ] || /verif/engine/confirm_seed.sh $WT $ID > /tmp/confirm_$ID.out 2>&1
mkdir -p /tmp/mv && rsync -a --delete --exclude .git --exclude evidence --exclude replays /verif/ /tmp/mv/verif-$ID/
cd /tmp/mv/verif-$ID && VERIF_REPO=$WT VERIF_MEM_GB=12 timeout 2400 python3 run.py check $P --jobs 3 > /tmp/mv/$ID.out 2>&1
echo "exit=$?" >> /tmp/mv/$ID.out
mkdir -p /verif/seeded/$ID && grep -E "VIOLATION|INCONCLUSIVE|KNOWN|queries|exit=" /tmp/mv/$ID.out > /verif/seeded/$ID/check_result.txt
[ -d /tmp/mv/verif-$ID/replays ] && rm -rf /verif/seeded/$ID/replays && cp -r /tmp/mv/verif-$ID/replays /verif/seeded/$ID/replays
rm -rf /tmp/mv/verif-$ID
