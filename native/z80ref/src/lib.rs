//! Native companion of the `refz80` oracle.
//!
//! (a) `zexall` runs the repository's `zexall.com` on the ORACLE (validation of the oracle against
//!     CRCs computed on real silicon);
//! (b) `diff` is a randomized oracle-vs-rustzx differential runner.  It is a *debugging aid for the
//!     oracle*, not a deciding check: the deciding checks are the Kani harnesses in hooks/z80/cpu.rs.
use rustzx_z80::Z80Bus;

#[path = "../../../hooks/z80/refz80.rs"]
pub mod refz80;
#[path = "../../../hooks/z80/recbus.rs"]
pub mod recbus;

pub mod diff;
pub mod zexall;

/// xorshift64*
pub struct Rng(pub u64);
impl Rng {
    pub fn next(&mut self) -> u64 {
        let mut x = self.0;
        x ^= x >> 12;
        x ^= x << 25;
        x ^= x >> 27;
        self.0 = x;
        x.wrapping_mul(0x2545_F491_4F6C_DD1D)
    }
    pub fn u8(&mut self) -> u8 {
        (self.next() >> 32) as u8
    }
    pub fn u16(&mut self) -> u16 {
        (self.next() >> 32) as u16
    }
    pub fn bool(&mut self) -> bool {
        (self.next() >> 40) & 1 == 1
    }
    pub fn below(&mut self, n: u32) -> u32 {
        ((self.next() >> 32) as u32) % n
    }
}
