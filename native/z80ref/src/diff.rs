//! Randomized differential runner: oracle vs rustzx-z80 (debugging aid only).
use crate::recbus::RecBus;
use crate::refz80::{self as r, Ev, Info, Io, St, INT_SLOTS, K_DLY, K_INT, NIRD, NRD};
use crate::Rng;
use rustzx_z80::{RegName8, Z80};

fn byte(rng: &mut Rng) -> u8 {
    const EDGE: [u8; 12] = [0x00, 0x01, 0x02, 0x0F, 0x10, 0x7F, 0x80, 0x81, 0x99, 0xFE, 0xFF, 0x9A];
    if rng.below(4) == 0 {
        EDGE[rng.below(12) as usize]
    } else {
        rng.u8()
    }
}
fn word(rng: &mut Rng) -> u16 {
    ((byte(rng) as u16) << 8) | byte(rng) as u16
}

pub fn random_state(rng: &mut Rng, allow_halt: bool) -> St {
    let mut s = St {
        a: byte(rng),
        f: byte(rng),
        b: byte(rng),
        c: byte(rng),
        d: byte(rng),
        e: byte(rng),
        h: byte(rng),
        l: byte(rng),
        a_: byte(rng),
        f_: byte(rng),
        b_: byte(rng),
        c_: byte(rng),
        d_: byte(rng),
        e_: byte(rng),
        h_: byte(rng),
        l_: byte(rng),
        ix: word(rng),
        iy: word(rng),
        sp: word(rng),
        pc: word(rng),
        i: byte(rng),
        r: byte(rng),
        iff1: rng.bool(),
        iff2: rng.bool(),
        im: rng.below(3) as u8,
        wz: word(rng),
        q: 0,
        halted: false,
        inhibit: rng.below(4) == 0,
        pending: 0,
    };
    // Q is either 0 or the F left by a flag-writing instruction
    s.q = if rng.bool() { s.f } else { 0 };
    // ... except that a POP AF / EX AF,AF' may have changed F behind Q's back
    if rng.below(4) == 0 {
        s.q = byte(rng);
    }
    if allow_halt && rng.below(6) == 0 {
        s.halted = true;
    }
    s
}

pub fn build_cpu(s: &St) -> Z80 {
    let mut c = Z80::default();
    let g = &mut c.regs;
    // alternates first, through the exchange instructions' primitives
    g.set_reg_8(RegName8::A, s.a_);
    g.set_reg_8(RegName8::F, s.f_);
    g.set_reg_8(RegName8::B, s.b_);
    g.set_reg_8(RegName8::C, s.c_);
    g.set_reg_8(RegName8::D, s.d_);
    g.set_reg_8(RegName8::E, s.e_);
    g.set_reg_8(RegName8::H, s.h_);
    g.set_reg_8(RegName8::L, s.l_);
    g.exx();
    g.swap_af_alt();
    g.set_reg_8(RegName8::A, s.a);
    g.set_flags(s.q); // sets the hidden q (and F, overwritten next)
    g.set_reg_8(RegName8::F, s.f);
    g.set_reg_8(RegName8::B, s.b);
    g.set_reg_8(RegName8::C, s.c);
    g.set_reg_8(RegName8::D, s.d);
    g.set_reg_8(RegName8::E, s.e);
    g.set_reg_8(RegName8::H, s.h);
    g.set_reg_8(RegName8::L, s.l);
    g.set_ix(s.ix);
    g.set_iy(s.iy);
    g.set_sp(s.sp);
    g.set_pc(s.pc);
    g.set_i(s.i);
    g.set_r(s.r);
    g.set_iff1(s.iff1);
    g.set_iff2(s.iff2);
    g.set_mem_ptr(s.wz);
    c.set_im(s.im);
    c.halted = s.halted;
    c.skip_interrupt = s.inhibit;
    c
}

/// architected state of the real CPU in oracle form (q and pending are not observable natively)
pub fn read_cpu(c: &mut Z80) -> St {
    let im: u8 = c.get_im().into();
    let g = &mut c.regs;
    let mut s = St {
        a: g.get_acc(),
        f: g.get_flags(),
        b: g.get_b(),
        c: g.get_c(),
        d: g.get_d(),
        e: g.get_e(),
        h: g.get_h(),
        l: g.get_l(),
        a_: 0,
        f_: 0,
        b_: 0,
        c_: 0,
        d_: 0,
        e_: 0,
        h_: 0,
        l_: 0,
        ix: g.get_ix(),
        iy: g.get_iy(),
        sp: g.get_sp(),
        pc: g.get_pc(),
        i: g.get_i(),
        r: g.get_r(),
        iff1: g.get_iff1(),
        iff2: g.get_iff2(),
        im,
        wz: g.get_mem_ptr(),
        q: 0,
        halted: false,
        inhibit: false,
        pending: 0,
    };
    g.exx();
    g.swap_af_alt();
    s.a_ = g.get_acc();
    s.f_ = g.get_flags();
    s.b_ = g.get_b();
    s.c_ = g.get_c();
    s.d_ = g.get_d();
    s.e_ = g.get_e();
    s.h_ = g.get_h();
    s.l_ = g.get_l();
    g.exx();
    g.swap_af_alt();
    s.halted = c.halted;
    s.inhibit = c.skip_interrupt;
    s
}

/// stream biased towards the requested page (0 none, 1 CB, 2 ED, 3 DD, 4 FD, 5 DDCB, 6 FDCB,
/// 7 = prefix chains, 8 = sequencing-relevant opcodes)
pub fn random_stream(rng: &mut Rng, page: u32) -> [u8; NRD] {
    let mut rd = [0u8; NRD];
    for b in rd.iter_mut() {
        *b = byte(rng);
    }
    let op = rng.u8();
    match page {
        0 => rd[0] = op,
        1 => {
            rd[0] = 0xCB;
            rd[1] = op;
        }
        2 => {
            rd[0] = 0xED;
            rd[1] = op;
        }
        3 | 4 => {
            rd[0] = if page == 3 { 0xDD } else { 0xFD };
            rd[1] = op;
        }
        5 | 6 => {
            rd[0] = if page == 5 { 0xDD } else { 0xFD };
            rd[1] = 0xCB;
            rd[3] = op;
        }
        7 => {
            const P: [u8; 4] = [0xDD, 0xFD, 0xED, 0xCB];
            let n = 1 + rng.below(4) as usize;
            for b in rd.iter_mut().take(n) {
                let lim = if rng.bool() { 2 } else { 4 };
                *b = P[rng.below(lim) as usize];
            }
        }
        _ => {
            const S: [u8; 10] = [0x00, 0x76, 0xF3, 0xFB, 0xDD, 0xFD, 0xED, 0x37, 0x3F, 0xC9];
            for b in rd.iter_mut() {
                if rng.bool() {
                    *b = S[rng.below(10) as usize];
                }
            }
            if rd[0] == 0xED || rd[1] == 0xED {
                const E: [u8; 8] = [0x45, 0x4D, 0x46, 0x56, 0x5E, 0x57, 0x5F, 0xB0];
                let k = if rd[0] == 0xED { 1 } else { 2 };
                rd[k] = E[rng.below(8) as usize];
            }
        }
    }
    rd
}

fn cmp_events(bus: &RecBus, io: &Io) -> Option<String> {
    if bus.n != io.n || bus.n_int != io.n_int {
        return Some(format!("event count real {}+{} oracle {}+{}", bus.n_int, bus.n, io.n_int, io.n));
    }
    if bus.rp != io.rp || bus.irp != io.irp {
        return Some(format!("read count real {}+{} oracle {}+{}", bus.irp, bus.rp, io.irp, io.rp));
    }
    // interrupt-entry segment: timing event position is free
    let ni = io.n_int;
    if ni > 0 {
        let seg_r = &bus.ev[..ni];
        let seg_o = &io.ev[..ni];
        let tr: u32 = seg_r.iter().map(|e| e.t as u32).sum();
        let to: u32 = seg_o.iter().map(|e| e.t as u32).sum();
        if tr != to {
            return Some(format!("interrupt entry T real {} oracle {}", tr, to));
        }
        let fr: Vec<&Ev> = seg_r.iter().filter(|e| e.kind != K_DLY && e.kind != K_INT).collect();
        let fo: Vec<&Ev> = seg_o.iter().filter(|e| e.kind != K_DLY && e.kind != K_INT).collect();
        if fr != fo {
            return Some(format!("interrupt entry events real {:?} oracle {:?}", fr, fo));
        }
        if seg_r.len() - fr.len() != 1 {
            return Some("interrupt entry: not exactly one acknowledge timing event".to_string());
        }
    }
    for i in INT_SLOTS..io.n {
        if bus.ev[i] != io.ev[i] {
            return Some(format!("event {} real {:?} oracle {:?}", i, bus.ev[i], io.ev[i]));
        }
    }
    None
}

fn events(ev: &[Ev], n_int: usize, n: usize) -> Vec<Ev> {
    let mut v: Vec<Ev> = ev[..n_int].to_vec();
    if n > INT_SLOTS {
        v.extend_from_slice(&ev[INT_SLOTS..n]);
    }
    v
}

/// candidate rustzx defects already triaged (see KF-C01-1/2 in the Kani harnesses): MEMPTR after
/// LD (nn),A and OUT (n),A is computed as (x+1) | A<<8 without masking the low byte.
fn known_memptr_region(info: &Info, real: &St, orc: &St) -> bool {
    (info.page == 0 || info.page == 3 || info.page == 4)
        && (info.op == 0x32 || info.op == 0xD3)
        && real.wz != orc.wz
        && real.wz & 0xFF == orc.wz & 0xFF
        && (real.wz >> 8) & (orc.wz >> 8) == orc.wz >> 8
}

fn cmp_state(real: &St, orc: &St, info: &Info) -> Option<String> {
    let mut a = *real;
    let mut b = *orc;
    if known_memptr_region(info, real, orc) {
        a.wz = b.wz;
    }
    a.f &= !info.f_dc;
    b.f &= !info.f_dc;
    // not observable natively
    a.q = 0;
    b.q = 0;
    a.pending = 0;
    b.pending = 0;
    if a != b {
        return Some(format!("state\n real   {:x?}\n oracle {:x?}", a, b));
    }
    None
}

pub struct Stats {
    pub cases: u64,
    pub calls: u64,
    pub skipped: u64,
    pub accepted: u64,
    pub chains: u64,
    pub variants: u64,
    pub known: u64,
}

/// One random case: up to `calls` consecutive emulate() calls.  Returns a description of the first
/// disagreement.
pub fn run_case(rng: &mut Rng, page: u32, calls: usize, lines: bool, stats: &mut Stats) -> Option<String> {
    let s0 = random_state(rng, lines);
    let mut cpu = build_cpu(&s0);
    let mut orc = s0;
    stats.cases += 1;
    let mut trace = format!("pre-state {:x?}\n", s0);
    for call in 0..calls {
        let pg = if call == 0 { page } else { rng.below(9) };
        let mut rd = random_stream(rng, pg);
        if orc.halted && rng.below(8) != 0 {
            rd[0] = 0x76;
        }
        let (int, nmi) = if lines { (rng.below(3) == 0, rng.below(6) == 0) } else { (false, false) };
        let ird = [rng.u8(), rng.u8(), rng.u8()];
        let mut io = Io::new(rd, ird);
        let before = orc;
        let info = r::step(&mut orc, &mut io, int, nmi);
        trace += &format!("call {} rd {:02x?} ird {:02x?} int {} nmi {} info {:?}\n", call, rd, ird, int, nmi, info);
        if info.outside || (info.halted_m1 && info.op != 0x76) || io.ovf || io.rd_ovf {
            stats.skipped += 1;
            return None;
        }
        let mut bus = RecBus::new(rd, ird);
        bus.int = int;
        bus.nmi = nmi;
        cpu.emulate(&mut bus);
        stats.calls += 1;
        if info.accepted != 0 {
            stats.accepted += 1;
        }
        if info.chain {
            stats.chains += 1;
        }
        if info.variant {
            stats.variants += 1;
        }
        if !bus.ok() {
            return Some(format!("{}real bus overflow/misuse", trace));
        }
        if let Some(d) = cmp_events(&bus, &io) {
            return Some(format!(
                "{}{}\n real   {:x?}\n oracle {:x?}",
                trace,
                d,
                events(&bus.ev, bus.n_int, bus.n),
                events(&io.ev, io.n_int, io.n)
            ));
        }
        let real = read_cpu(&mut cpu);
        if let Some(d) = cmp_state(&real, &orc, &info) {
            return Some(format!("{}{}", trace, d));
        }
        // documented totals (second table)
        let t_real: u32 = events(&bus.ev, bus.n_int, bus.n).iter().map(|e| e.t as u32).sum();
        let t_instr: u32 = if info.chain || info.halted_m1 {
            4 * info.m1s as u32
        } else {
            // a pending prefix was fetched (and charged) by the previous call
            r::doc_tstates(info.page, info.op, info.variant) as u32 - if before.pending != 0 { 4 } else { 0 }
        };
        let t_doc: u32 = r::doc_int_tstates(info.accepted, before.im) as u32 + t_instr;
        if t_real != t_doc {
            return Some(format!("{}total T real {} documented {}", trace, t_real, t_doc));
        }
        if info.q_dc != 0 {
            // Q is left open after this call: whatever follows may legitimately differ in F.3/F.5
            return None;
        }
        if known_memptr_region(&info, &real, &orc) {
            stats.known += 1;
            return None;
        }
        // Q probe when this is the last call: SCF with A = 0 exposes (Q ^ F) & 0x28
        if call + 1 == calls && !orc.halted && info.q_dc == 0 {
            let mut rd2 = [0u8; NRD];
            rd2[0] = 0x37;
            if orc.pending == 0xED {
                continue;
            }
            cpu.regs.set_acc(0);
            orc.a = 0;
            let mut io2 = Io::new(rd2, [0; NIRD]);
            let mut bus2 = RecBus::new(rd2, [0; NIRD]);
            let i2 = r::step(&mut orc, &mut io2, false, false);
            cpu.emulate(&mut bus2);
            let real2 = read_cpu(&mut cpu);
            let mut i3 = i2;
            i3.f_dc |= info.f_dc;
            if let Some(d) = cmp_state(&real2, &orc, &i3) {
                return Some(format!("{}Q probe (SCF, A=0): {}", trace, d));
            }
        }
    }
    None
}
