//! ZEXALL on the oracle.  Same set-up as /repo/rustzx-z80/tests/integration/zexall.rs: image at
//! 0x0100, BDOS entry patched to RET, test table patched to a single test, success = output ends
//! with "  OK\n\r".
use crate::refz80::{self as r, Io, St, INT_SLOTS, K_M1, K_MR, K_MW, NIRD, NRD};

const IMAGE: &[u8] = include_bytes!("/repo/rustzx-z80/tests/integration/assets/zexall.com");
const TABLE: u16 = 0x013A;
const BEGIN_MSG: u16 = 0x1DDA;
const END_MSG: u16 = 0x1DF6;

pub const TESTS: [&str; 67] = [
    "adc16", "add16", "add16x", "add16y", "alu8i", "alu8r", "alu8rx", "alu8x", "bitx", "bitz80", "cpd1", "cpi1",
    "daa", "inca", "incb", "incbc", "incc", "incd", "incde", "ince", "inch", "inchl", "incix", "inciy", "incl",
    "incm", "incsp", "incx", "incxh", "incxl", "incyh", "incyl", "ld161", "ld162", "ld163", "ld164", "ld165",
    "ld166", "ld167", "ld168", "ld16im", "ld16ix", "ld8bd", "ld8im", "ld8imx", "ld8ix1", "ld8ix2", "ld8ix3",
    "ld8ixy", "ld8rr", "ld8rrx", "lda", "ldd1", "ldd2", "ldi1", "ldi2", "neg", "rld", "rot8080", "rotxy",
    "rotz80", "srz80", "srzx", "st8ix1", "st8ix2", "st8ix3", "stabd",
];

pub struct Machine {
    pub mem: Vec<u8>,
    pub st: St,
    pub steps: u64,
    pub tstates: u64,
}

impl Machine {
    pub fn new() -> Machine {
        let st = St {
            a: 0, f: 0, b: 0, c: 0, d: 0, e: 0, h: 0, l: 0,
            a_: 0, f_: 0, b_: 0, c_: 0, d_: 0, e_: 0, h_: 0, l_: 0,
            ix: 0, iy: 0, sp: 0, pc: 0, i: 0, r: 0, iff1: false, iff2: false, im: 0, wz: 0, q: 0,
            halted: false, inhibit: false, pending: 0,
        };
        Machine { mem: vec![0; 0x10000], st, steps: 0, tstates: 0 }
    }

    /// One oracle step against real memory.  The oracle consumes an input *stream*; the stream that
    /// memory would have produced is found by fixpoint: the address of read k depends only on reads
    /// 0..k, so every re-run fixes at least one more byte.  (No instruction reads a location it has
    /// written earlier within the same instruction, so memory at instruction start is the reference.)
    pub fn step(&mut self) {
        let mut rd = [0u8; NRD];
        for (k, b) in rd.iter_mut().enumerate() {
            *b = self.mem[self.st.pc.wrapping_add(k as u16) as usize];
        }
        loop {
            let mut s = self.st;
            let mut io = Io::new(rd, [0; NIRD]);
            let _info = r::step(&mut s, &mut io, false, false);
            assert!(!io.ovf && !io.rd_ovf);
            let mut k = 0;
            let mut bad = false;
            for e in &io.ev[INT_SLOTS..io.n] {
                match e.kind {
                    K_M1 | K_MR => {
                        let m = self.mem[e.addr as usize];
                        if rd[k] != m {
                            rd[k] = m;
                            bad = true;
                            break;
                        }
                        k += 1;
                    }
                    crate::refz80::K_IOR => {
                        if rd[k] != 0 {
                            rd[k] = 0;
                            bad = true;
                            break;
                        }
                        k += 1;
                    }
                    _ => {}
                }
            }
            if bad {
                continue;
            }
            for e in &io.ev[INT_SLOTS..io.n] {
                if e.kind == K_MW {
                    self.mem[e.addr as usize] = e.data;
                }
                self.tstates += e.t as u64;
            }
            self.st = s;
            self.steps += 1;
            return;
        }
    }
}

/// runs ZEXALL test number `id`; Ok(output) if the program reported success
pub fn run_test(id: usize) -> Result<String, String> {
    let mut m = Machine::new();
    m.st.pc = 0x0100;
    m.mem[0x0100..0x0100 + IMAGE.len()].copy_from_slice(IMAGE);
    m.mem[BEGIN_MSG as usize] = b'$';
    m.mem[END_MSG as usize] = b'$';
    m.mem[5] = 0xC9;
    m.mem[6] = 0x00;
    m.mem[7] = 0xC0;
    let tp = TABLE as usize + id * 2;
    let (l, h) = (m.mem[tp], m.mem[tp + 1]);
    m.mem[TABLE as usize] = l;
    m.mem[TABLE as usize + 1] = h;
    m.mem[TABLE as usize + 2] = 0;
    m.mem[TABLE as usize + 3] = 0;
    let mut out = String::new();
    loop {
        m.step();
        match m.st.pc {
            0 => break,
            5 => match m.st.c {
                2 => out.push(m.st.e as char),
                9 => {
                    let mut a = ((m.st.d as u16) << 8) | m.st.e as u16;
                    let mut n = 0;
                    while m.mem[a as usize] != b'$' && n < 100 {
                        out.push(m.mem[a as usize] as char);
                        a = a.wrapping_add(1);
                        n += 1;
                    }
                }
                _ => {}
            },
            _ => {}
        }
        if m.steps > 20_000_000_000 {
            return Err(format!("runaway; output so far: {}", out));
        }
    }
    if out.ends_with("  OK\n\r") {
        Ok(format!("{} [{} instructions, {} T]", out.trim(), m.steps, m.tstates))
    } else {
        Err(out)
    }
}
