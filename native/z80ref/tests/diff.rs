//! Randomized differential run oracle vs rustzx (debugging aid for the oracle, not a deciding check).
//! Z80REF_CASES=<n> cases per page (default 300000); Z80REF_SEED; Z80REF_STOP=<n> stop after n diffs.
use z80ref::diff::{run_case, Stats};
use z80ref::Rng;

fn env(name: &str, d: u64) -> u64 {
    std::env::var(name).ok().and_then(|v| v.parse().ok()).unwrap_or(d)
}

fn run(label: &str, pages: &[u32], calls: usize, lines: bool) {
    let cases = env("Z80REF_CASES", 300_000);
    let stop = env("Z80REF_STOP", 5);
    let mut rng = Rng(env("Z80REF_SEED", 0x9E37_79B9_7F4A_7C15) ^ (calls as u64) << 7 ^ lines as u64);
    let mut st = Stats { cases: 0, calls: 0, skipped: 0, accepted: 0, chains: 0, variants: 0, known: 0 };
    let mut diffs = 0;
    let mut hist: std::collections::BTreeMap<String, (u64, String)> = Default::default();
    for &p in pages {
        for _ in 0..cases {
            if let Some(d) = run_case(&mut rng, p, calls, lines, &mut st) {
                diffs += 1;
                // key: page/op of the last call + kind of difference
                let last_info = d.lines().filter(|l| l.starts_with("call ")).last().unwrap_or("").to_string();
                let po = last_info.split("page: ").nth(1).map(|x| x.split(", variant").next().unwrap_or("").to_string()).unwrap_or_default();
                let kind = d.lines().find(|l| !l.starts_with("call ") && !l.starts_with("pre-state")).unwrap_or("").to_string();
                let kind: String = kind.chars().take(28).collect();
                let e = hist.entry(format!("{} | {}", po, kind)).or_insert((0, d.clone()));
                e.0 += 1;
            }
        }
    }
    for (k, (n, ex)) in hist.iter().take(stop as usize) {
        println!("---- DIFF class [{}] x{} ----\n{}", k, n, ex);
    }
    for (k, (n, _)) in hist.iter() {
        println!("class [{}] x{}", k, n);
    }
    println!(
        "{}: cases {} calls {} skipped {} interrupts accepted {} chain calls {} taken/repeat variants {} known-finding hits {} DIFFS {}",
        label, st.cases, st.calls, st.skipped, st.accepted, st.chains, st.variants, st.known, diffs
    );
    assert_eq!(diffs, 0);
}

#[test]
fn diff_single_instruction_all_pages() {
    run("single", &[0, 1, 2, 3, 4, 5, 6, 7], 2, false);
}

#[test]
fn diff_sequences_with_interrupt_lines() {
    run("seq", &[0, 2, 7, 8], 3, true);
}
