//! Validation of the oracle: all 67 ZEXALL groups (CRCs from real silicon) must pass on refz80.
use std::sync::{Arc, Mutex};
use z80ref::zexall::{run_test, TESTS};

#[test]
fn zexall_on_oracle() {
    let threads: usize = std::env::var("Z80REF_THREADS").ok().and_then(|v| v.parse().ok()).unwrap_or(4);
    let next = Arc::new(Mutex::new(0usize));
    let fails = Arc::new(Mutex::new(Vec::<String>::new()));
    let passed = Arc::new(Mutex::new(0usize));
    let mut hs = vec![];
    for _ in 0..threads {
        let (next, fails, passed) = (next.clone(), fails.clone(), passed.clone());
        hs.push(std::thread::spawn(move || loop {
            let id = {
                let mut n = next.lock().unwrap();
                let id = *n;
                *n += 1;
                id
            };
            if id >= TESTS.len() {
                break;
            }
            match run_test(id) {
                Ok(o) => {
                    println!("zexall {:2} {:8} PASS {}", id, TESTS[id], o);
                    *passed.lock().unwrap() += 1;
                }
                Err(o) => {
                    println!("zexall {:2} {:8} FAIL {}", id, TESTS[id], o);
                    fails.lock().unwrap().push(TESTS[id].to_string());
                }
            }
        }));
    }
    for h in hs {
        h.join().unwrap();
    }
    let fails = fails.lock().unwrap();
    println!("ZEXALL on refz80: {} of {} groups passed", passed.lock().unwrap(), TESTS.len());
    assert!(fails.is_empty(), "failing groups: {:?}", fails);
}
