//! Minimal host for native demonstrations of findings.
use rustzx_core::{
    host::{
        BufferCursor, FrameBuffer, FrameBufferSource, Host, HostContext, Stopwatch, StubDebugInterface,
        StubIoExtender,
    },
    zx::{
        machine::ZXMachine,
        video::colors::{ZXBrightness, ZXColor},
    },
    EmulationMode, Emulator, RustzxSettings,
};
use std::time::{Duration, Instant};

pub struct Fb {
    pub w: usize,
    pub pixels: Vec<(u8, u8)>,
}
impl FrameBuffer for Fb {
    type Context = ();
    fn new(w: usize, h: usize, _s: FrameBufferSource, _c: ()) -> Self {
        Fb { w, pixels: vec![(0xFF, 0xFF); w * h] }
    }
    fn set_color(&mut self, x: usize, y: usize, c: ZXColor, b: ZXBrightness) {
        self.pixels[y * self.w + x] = (c.into(), b as u8);
    }
}
pub struct Ctx;
impl HostContext<DemoHost> for Ctx {
    fn frame_buffer_context(&self) {}
}
pub struct Sw(Instant);
impl Stopwatch for Sw {
    fn new() -> Self {
        Sw(Instant::now())
    }
    fn measure(&self) -> Duration {
        self.0.elapsed()
    }
}
pub struct DemoHost;
impl Host for DemoHost {
    type Context = Ctx;
    type DebugInterface = StubDebugInterface;
    type EmulationStopwatch = Sw;
    type FrameBuffer = Fb;
    type IoExtender = StubIoExtender;
    type TapeAsset = BufferCursor<Vec<u8>>;
}

pub fn settings(machine: ZXMachine) -> RustzxSettings {
    RustzxSettings {
        machine,
        emulation_mode: EmulationMode::FrameCount(1),
        tape_fastload_enabled: true,
        kempston_enabled: false,
        mouse_enabled: false,
        ay_mode: rustzx_core::zx::sound::ay::ZXAYMode::ABC,
        ay_enabled: false,
        beeper_enabled: true,
        sound_enabled: false,
        sound_volume: 100,
        sound_sample_rate: 44100,
    }
}

pub fn emulator(machine: ZXMachine) -> Emulator<DemoHost> {
    Emulator::new(settings(machine), Ctx).unwrap()
}
