//! Minimal host for native demonstrations of findings.
use rustzx_core::{
    host::{
        BufferCursor, FrameBuffer, FrameBufferSource, Host, HostContext, Stopwatch, StubDebugInterface,
        StubIoExtender,
    },
    zx::{
        machine::ZXMachine,
        video::colors::{ZXBrightness, ZXColor},
    },
    EmulationMode, Emulator, RustzxSettings,
};
use std::time::{Duration, Instant};

pub struct Fb {
    pub w: usize,
    pub pixels: Vec<(u8, u8)>,
}
impl FrameBuffer for Fb {
    type Context = ();
    fn new(w: usize, h: usize, _s: FrameBufferSource, _c: ()) -> Self {
        Fb { w, pixels: vec![(0xFF, 0xFF); w * h] }
    }
    fn set_color(&mut self, x: usize, y: usize, c: ZXColor, b: ZXBrightness) {
        self.pixels[y * self.w + x] = (c.into(), b as u8);
    }
}
pub struct Ctx;
impl HostContext<DemoHost> for Ctx {
    fn frame_buffer_context(&self) {}
}
pub struct Sw(Instant);
impl Stopwatch for Sw {
    fn new() -> Self {
        Sw(Instant::now())
    }
    fn measure(&self) -> Duration {
        self.0.elapsed()
    }
}
pub struct DemoHost;
impl Host for DemoHost {
    type Context = Ctx;
    type DebugInterface = StubDebugInterface;
    type EmulationStopwatch = Sw;
    type FrameBuffer = Fb;
    type IoExtender = StubIoExtender;
    type TapeAsset = BufferCursor<Vec<u8>>;
}

pub fn settings(machine: ZXMachine) -> RustzxSettings {
    RustzxSettings {
        machine,
        emulation_mode: EmulationMode::FrameCount(1),
        tape_fastload_enabled: true,
        kempston_enabled: false,
        mouse_enabled: false,
        ay_mode: rustzx_core::zx::sound::ay::ZXAYMode::ABC,
        ay_enabled: false,
        beeper_enabled: true,
        sound_enabled: false,
        sound_volume: 100,
        sound_sample_rate: 44100,
        load_default_rom: false,
        autoload_enabled: false,
    }
}

pub fn emulator(machine: ZXMachine) -> Emulator<DemoHost> {
    Emulator::new(settings(machine), Ctx).unwrap()
}

// ---------------------------------------------------------------------------------------------
// Helpers for the snapshot / screen loader demonstrations
// ---------------------------------------------------------------------------------------------
use rustzx_core::host::{DataRecorder, Screen, Snapshot, SnapshotRecorder};

/// In-memory `DataRecorder`
pub struct VecRecorder<'a>(pub &'a mut Vec<u8>);
impl DataRecorder for VecRecorder<'_> {
    fn write(&mut self, buf: &[u8]) -> Result<usize, rustzx_core::error::IoError> {
        self.0.extend_from_slice(buf);
        Ok(buf.len())
    }
}

pub fn save_sna(e: &mut Emulator<DemoHost>) -> Vec<u8> {
    let mut out = Vec::new();
    e.save_snapshot(SnapshotRecorder::Sna(VecRecorder(&mut out))).unwrap();
    out
}
pub fn load_sna(e: &mut Emulator<DemoHost>, file: Vec<u8>) -> rustzx_core::Result<()> {
    e.load_snapshot(Snapshot::Sna(BufferCursor::new(file)))
}
pub fn load_szx(e: &mut Emulator<DemoHost>, file: Vec<u8>) -> rustzx_core::Result<()> {
    e.load_snapshot(Snapshot::Szx(BufferCursor::new(file)))
}
pub fn load_scr(e: &mut Emulator<DemoHost>, file: Vec<u8>) -> rustzx_core::Result<()> {
    e.load_screen(Screen::Scr(BufferCursor::new(file)))
}
pub fn frame(e: &mut Emulator<DemoHost>) {
    e.emulate_frames(Duration::from_secs(10)).unwrap();
}
pub fn peek16(e: &Emulator<DemoHost>, addr: u16) -> u16 {
    u16::from_le_bytes([e.peek(addr), e.peek(addr.wrapping_add(1))])
}

/// CPU part of a snapshot
#[derive(Clone, Copy, Default)]
pub struct Cpu {
    pub af: u16,
    pub bc: u16,
    pub de: u16,
    pub hl: u16,
    pub af_alt: u16,
    pub bc_alt: u16,
    pub de_alt: u16,
    pub hl_alt: u16,
    pub ix: u16,
    pub iy: u16,
    pub sp: u16,
    pub pc: u16,
    pub i: u8,
    pub r: u8,
    pub im: u8,
    pub iff: bool,
    pub border: u8,
}

/// 48K of zeroed RAM (addresses 0x4000..=0xFFFF)
pub fn ram48() -> Vec<u8> {
    vec![0; 0xC000]
}
/// writes `bytes` at CPU address `addr` (>= 0x4000) of a 48K RAM image
pub fn put(ram: &mut [u8], addr: u16, bytes: &[u8]) {
    let at = addr as usize - 0x4000;
    ram[at..at + bytes.len()].copy_from_slice(bytes);
}

fn sna_header(c: &Cpu, sp: u16) -> Vec<u8> {
    let mut h = vec![c.i];
    for w in [c.hl_alt, c.de_alt, c.bc_alt, c.af_alt, c.hl, c.de, c.bc, c.iy, c.ix] {
        h.extend_from_slice(&w.to_le_bytes());
    }
    h.push(if c.iff { 4 } else { 0 });
    h.push(c.r);
    h.extend_from_slice(&c.af.to_le_bytes());
    h.extend_from_slice(&sp.to_le_bytes());
    h.push(c.im);
    h.push(c.border);
    assert_eq!(h.len(), 27);
    h
}

/// 48K SNA: `c.sp` is the stack pointer the machine has AFTER the load; the file stores SP-2 and PC
/// on the stack, as the format requires
pub fn sna48(c: &Cpu, ram: &[u8]) -> Vec<u8> {
    assert_eq!(ram.len(), 0xC000);
    let sp = c.sp.wrapping_sub(2);
    let mut f = sna_header(c, sp);
    let mut ram = ram.to_vec();
    put(&mut ram, sp, &c.pc.to_le_bytes());
    f.extend_from_slice(&ram);
    f
}

/// 128K SNA; `banks[n]` is RAM bank n
pub fn sna128(c: &Cpu, port_7ffd: u8, banks: &[Vec<u8>; 8]) -> Vec<u8> {
    let mut f = sna_header(c, c.sp);
    let paged = (port_7ffd & 7) as usize;
    for b in [5, 2, paged] {
        f.extend_from_slice(&banks[b]);
    }
    f.extend_from_slice(&c.pc.to_le_bytes());
    f.push(port_7ffd);
    f.push(0);
    for b in [0, 1, 3, 4, 6, 7] {
        if b != paged {
            f.extend_from_slice(&banks[b]);
        }
    }
    f
}
pub fn banks128() -> [Vec<u8>; 8] {
    core::array::from_fn(|n| {
        let mut b = vec![0u8; 0x4000];
        b[0] = 0xB0 + n as u8; // marker
        b
    })
}

pub const SZX_48K: u8 = 1;
pub const SZX_128K: u8 = 2;

/// SZX file from a machine id and a list of (chunk id, chunk data)
pub fn szx(machine_id: u8, chunks: &[(&[u8; 4], Vec<u8>)]) -> Vec<u8> {
    let mut f = b"ZXST".to_vec();
    f.extend_from_slice(&[1, 5, machine_id, 0]);
    for (id, data) in chunks {
        f.extend_from_slice(*id);
        f.extend_from_slice(&(data.len() as u32).to_le_bytes());
        f.extend_from_slice(data);
    }
    f
}
pub const Z80R_EILAST: u8 = 1;
pub const Z80R_HALTED: u8 = 2;
/// Z80R chunk (37 bytes)
pub fn z80r(c: &Cpu, cycles_start: u32, flags: u8) -> Vec<u8> {
    let mut d = Vec::new();
    for w in [c.af, c.bc, c.de, c.hl, c.af_alt, c.bc_alt, c.de_alt, c.hl_alt, c.ix, c.iy, c.sp, c.pc] {
        d.extend_from_slice(&w.to_le_bytes());
    }
    d.extend_from_slice(&[c.i, c.r, c.iff as u8, c.iff as u8, c.im]);
    d.extend_from_slice(&cycles_start.to_le_bytes());
    d.extend_from_slice(&[0, flags, 0, 0]);
    assert_eq!(d.len(), 37);
    d
}
/// SPCR chunk (8 bytes)
pub fn spcr(border: u8, port_7ffd: u8, port_fe: u8) -> Vec<u8> {
    vec![border, port_7ffd, 0, port_fe, 0, 0, 0, 0]
}
/// RAMP chunk with stored (uncompressed) data
pub fn ramp(page: u8, data: &[u8]) -> Vec<u8> {
    let mut d = vec![0, 0, page];
    d.extend_from_slice(data);
    d
}
/// the three RAMP chunks of a 48K machine from a 48K RAM image
pub fn ramp48(ram: &[u8]) -> Vec<(&'static [u8; 4], Vec<u8>)> {
    vec![
        (b"RAMP", ramp(5, &ram[..0x4000])),
        (b"RAMP", ramp(2, &ram[0x4000..0x8000])),
        (b"RAMP", ramp(0, &ram[0x8000..])),
    ]
}
