//! C15 (item 11): the border has 3 bits; an SZX SPCR border byte above 7 must not trip the
//! `ZXColor::from_bits` assertion.
use rustzx_core::zx::{machine::ZXMachine, video::colors::ZXColor};
use rustzx_findings_demo::*;

#[test]
fn spcr_border_byte_is_masked_to_3_bits() {
    for border in [8u8, 0x0D, 0xFF] {
        let mut e = emulator(ZXMachine::Sinclair48K);
        load_szx(&mut e, szx(SZX_48K, &[(b"SPCR", spcr(border, 0, 0))])).unwrap();
        assert_eq!(u8::from(e.border_color()), border & 7);
    }
    let mut e = emulator(ZXMachine::Sinclair48K);
    load_szx(&mut e, szx(SZX_48K, &[(b"SPCR", spcr(4, 0, 4))])).unwrap();
    assert!(matches!(e.border_color(), ZXColor::Green));
}
