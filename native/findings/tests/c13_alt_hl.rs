//! C13 (item 1): saving an SNA must store HL' in the HL' slot (header bytes 1..=2), not HL.
use rustzx_core::zx::machine::ZXMachine;
use rustzx_findings_demo::*;

#[test]
fn sna_save_writes_alternate_hl() {
    let mut e = emulator(ZXMachine::Sinclair48K);
    let c = Cpu { hl: 0x1122, hl_alt: 0x3344, de_alt: 0x5566, bc_alt: 0x7788, sp: 0x9000, pc: 0x8000, im: 1, ..Cpu::default() };
    load_sna(&mut e, sna48(&c, &ram48())).unwrap();
    let out = save_sna(&mut e);
    assert_eq!(u16::from_le_bytes([out[9], out[10]]), 0x1122, "HL");
    assert_eq!(u16::from_le_bytes([out[3], out[4]]), 0x5566, "DE'");
    assert_eq!(u16::from_le_bytes([out[5], out[6]]), 0x7788, "BC'");
    assert_eq!(u16::from_le_bytes([out[1], out[2]]), 0x3344, "HL' slot of the saved SNA must hold HL'");
}

#[test]
fn regs_alt_getters_return_alternate_set() {
    let mut r = rustzx_z80::Regs::default();
    r.set_hl(0x3344);
    r.exx();
    r.set_hl(0x1122);
    assert_eq!((r.get_h_alt(), r.get_l_alt()), (0x33, 0x44));
}
