//! C15 (item 14): the 32-bit chunk size comes from the file; a chunk which claims more bytes than the
//! file has left must be rejected BEFORE a buffer of that size is allocated.
use rustzx_core::{
    error::{Error, SnapshotLoadError},
    zx::machine::ZXMachine,
};
use rustzx_findings_demo::*;
use std::alloc::{GlobalAlloc, Layout, System};
use std::sync::atomic::{AtomicUsize, Ordering};

static LARGEST_REQUEST: AtomicUsize = AtomicUsize::new(0);

/// records the largest allocation request and refuses absurd ones (so that the unfixed loader fails
/// the test instead of taking 4 GiB from the host)
struct Watch;
unsafe impl GlobalAlloc for Watch {
    unsafe fn alloc(&self, l: Layout) -> *mut u8 {
        LARGEST_REQUEST.fetch_max(l.size(), Ordering::SeqCst);
        System.alloc(l)
    }
    unsafe fn alloc_zeroed(&self, l: Layout) -> *mut u8 {
        LARGEST_REQUEST.fetch_max(l.size(), Ordering::SeqCst);
        System.alloc_zeroed(l)
    }
    unsafe fn dealloc(&self, p: *mut u8, l: Layout) {
        System.dealloc(p, l)
    }
    unsafe fn realloc(&self, p: *mut u8, l: Layout, n: usize) -> *mut u8 {
        LARGEST_REQUEST.fetch_max(n, Ordering::SeqCst);
        System.realloc(p, l, n)
    }
}
#[global_allocator]
static ALLOC: Watch = Watch;

#[test]
fn chunk_size_beyond_end_of_file_is_rejected_without_allocating_it() {
    let mut e = emulator(ZXMachine::Sinclair48K);
    // 16-byte file: header + one chunk header which claims 1 GiB of data
    let mut file = szx(SZX_48K, &[]);
    file.extend_from_slice(b"RAMP");
    file.extend_from_slice(&0x4000_0000u32.to_le_bytes());
    assert_eq!(file.len(), 16);
    LARGEST_REQUEST.store(0, Ordering::SeqCst);
    let r = load_szx(&mut e, file);
    let largest = LARGEST_REQUEST.load(Ordering::SeqCst);
    assert!(matches!(r, Err(Error::SnapshotLoad(SnapshotLoadError::InvalidSZXFile))), "{r:?}");
    assert!(largest < 0x10_0000, "loader asked the allocator for {largest} bytes on behalf of a 16-byte file");
}

#[test]
fn chunk_which_ends_exactly_at_end_of_file_is_accepted() {
    let mut e = emulator(ZXMachine::Sinclair48K);
    load_szx(&mut e, szx(SZX_48K, &[(b"RAMP", ramp(5, &vec![0x33; 0x4000]))])).unwrap();
    assert_eq!(e.peek(0x4000), 0x33);
    // one byte short
    let mut file = szx(SZX_48K, &[(b"RAMP", ramp(5, &vec![0x33; 0x4000]))]);
    file.pop();
    let r = load_szx(&mut emulator(ZXMachine::Sinclair48K), file);
    assert!(matches!(r, Err(Error::SnapshotLoad(SnapshotLoadError::InvalidSZXFile))), "{r:?}");
}
