//! C13/C14 (item 4): a 128K snapshot describes the whole paging latch (port 0x7FFD), including the
//! lock bit.  Loading it into a machine whose paging is locked must install the snapshot's latch,
//! lock state and memory map; only CPU-driven port writes are subject to the lock.
use rustzx_core::zx::machine::ZXMachine;
use rustzx_findings_demo::*;

const SNA_7FFD_OFFSET: usize = 49181;

/// program in bank 2 (0x8000): LD BC,0x7FFD ; LD A,4 ; OUT (C),A ; JR $
fn banks_with_program() -> [Vec<u8>; 8] {
    let mut banks = banks128();
    banks[2][..9].copy_from_slice(&[0x01, 0xFD, 0x7F, 0x3E, 0x04, 0xED, 0x79, 0x18, 0xFE]);
    banks
}
fn cpu() -> Cpu {
    Cpu { sp: 0xBF00, pc: 0x8000, im: 1, ..Cpu::default() }
}
/// 128K machine which loaded a snapshot with bank 3 paged in and paging locked
fn locked_machine() -> rustzx_core::Emulator<DemoHost> {
    let mut e = emulator(ZXMachine::Sinclair128K);
    let mut banks = banks128();
    banks[2][..2].copy_from_slice(&[0x18, 0xFE]);
    load_sna(&mut e, sna128(&cpu(), 0x23, &banks)).unwrap();
    frame(&mut e);
    assert_eq!(e.peek(0xC000), 0xB3);
    e
}

#[test]
fn cpu_port_write_honours_lock() {
    let mut e = emulator(ZXMachine::Sinclair128K);
    load_sna(&mut e, sna128(&cpu(), 0x23, &banks_with_program())).unwrap();
    frame(&mut e);
    assert_eq!(e.peek(0xC000), 0xB3, "OUT (0x7FFD),4 on a locked machine must not page");
    assert_eq!(save_sna(&mut e)[SNA_7FFD_OFFSET], 0x23);
}

#[test]
fn sna128_load_overrides_locked_latch() {
    let mut e = locked_machine();
    load_sna(&mut e, sna128(&cpu(), 0x01, &banks_with_program())).unwrap();
    assert_eq!(save_sna(&mut e)[SNA_7FFD_OFFSET], 0x01, "latch value after loading a snapshot with 0x7FFD=0x01");
    assert_eq!(e.peek(0xC000), 0xB1);
    for (bank, data) in banks_with_program().iter().enumerate() {
        // every bank of the file is where the file says: page them in one by one via fresh loads
        let mut probe = locked_machine();
        load_sna(&mut probe, sna128(&cpu(), bank as u8, &banks_with_program())).unwrap();
        assert_eq!(probe.peek(0xC000), data[0], "bank {bank}");
    }
    // the loaded latch is not locked: the program pages bank 4 in
    frame(&mut e);
    assert_eq!(e.peek(0xC000), 0xB4, "snapshot with unlocked paging must be able to page after the load");
}

#[test]
fn szx_spcr_overrides_locked_latch() {
    let mut e = locked_machine();
    let banks = banks_with_program();
    let mut chunks = vec![(b"Z80R", z80r(&cpu(), 0, 0)), (b"SPCR", spcr(0, 0x01, 0))];
    for (n, b) in banks.iter().enumerate() {
        chunks.push((b"RAMP", ramp(n as u8, b)));
    }
    load_szx(&mut e, szx(SZX_128K, &chunks)).unwrap();
    assert_eq!(save_sna(&mut e)[SNA_7FFD_OFFSET], 0x01, "latch value after loading an SZX with ch7ffd=0x01");
    assert_eq!(e.peek(0xC000), 0xB1);
    frame(&mut e);
    assert_eq!(e.peek(0xC000), 0xB4, "snapshot with unlocked paging must be able to page after the load");
}
