//! C15 (item 10): SZX chunks shorter than their fixed layout must be rejected (`InvalidSZXFile`),
//! not indexed out of bounds.
use rustzx_core::{
    error::{Error, SnapshotLoadError},
    zx::machine::ZXMachine,
    Emulator,
};
use rustzx_findings_demo::*;

fn machine() -> Emulator<DemoHost> {
    let mut s = settings(ZXMachine::Sinclair128K);
    s.ay_enabled = true;
    Emulator::new(s, Ctx).unwrap()
}
fn is_invalid(r: &rustzx_core::Result<()>) -> bool {
    matches!(r, Err(Error::SnapshotLoad(SnapshotLoadError::InvalidSZXFile)))
}

#[test]
fn truncated_fixed_layout_chunks_are_rejected() {
    let c = Cpu { sp: 0xBF00, pc: 0x8000, im: 1, ..Cpu::default() };
    let full: [(&[u8; 4], Vec<u8>); 5] = [
        (b"Z80R", z80r(&c, 0, 0)),
        (b"SPCR", spcr(1, 0, 1)),
        (b"AY\0\0", vec![0; 18]),
        (b"KEYB", vec![0, 0, 0, 0, 1]),
        (b"AMXM", vec![2, 0, 0, 0, 0, 0, 0]),
    ];
    for (id, data) in full {
        let name = String::from_utf8_lossy(id).into_owned();
        load_szx(&mut machine(), szx(SZX_128K, &[(id, data.clone())])).unwrap_or_else(|e| panic!("complete {name} chunk: {e:?}"));
        for len in 0..data.len() {
            let r = load_szx(&mut machine(), szx(SZX_128K, &[(id, data[..len].to_vec())]));
            assert!(is_invalid(&r), "{name} chunk of {len} bytes: {r:?}");
        }
    }
}

#[test]
fn truncated_creator_chunk_does_not_panic() {
    // the creator chunk is informational; the format gives it 32 + 2 + 2 bytes (+ optional data)
    for len in 0..40 {
        let _ = load_szx(&mut machine(), szx(SZX_128K, &[(b"CRTR", vec![b'x'; len])]));
    }
    load_szx(&mut machine(), szx(SZX_128K, &[(b"CRTR", vec![b'x'; 36])])).unwrap();
}

#[test]
fn truncated_ram_page_is_rejected() {
    // header shorter than flags + page number
    for len in 0..3 {
        let r = load_szx(&mut machine(), szx(SZX_128K, &[(b"RAMP", vec![0; len])]));
        assert!(is_invalid(&r), "RAMP chunk of {len} bytes: {r:?}");
    }
    // stored page shorter than 16K
    for len in [0usize, 1, 0x3FFF] {
        let mut e = machine();
        let r = load_szx(&mut e, szx(SZX_128K, &[(b"RAMP", ramp(5, &vec![0xAA; len]))]));
        assert!(is_invalid(&r), "stored RAMP page of {len} bytes: {r:?}");
        assert_eq!(e.peek(0x4000), 0, "rejected page was partially copied");
    }
    load_szx(&mut machine(), szx(SZX_128K, &[(b"RAMP", ramp(5, &vec![0xAA; 0x4000]))])).unwrap();
}

/// zlib stream made of one stored deflate block (no compressor needed)
fn zlib_stored(data: &[u8]) -> Vec<u8> {
    assert!(data.len() <= 0xFFFF);
    let mut z = vec![0x78, 0x01, 0x01];
    z.extend_from_slice(&(data.len() as u16).to_le_bytes());
    z.extend_from_slice(&(!(data.len() as u16)).to_le_bytes());
    z.extend_from_slice(data);
    let (mut a, mut b) = (1u32, 0u32);
    for x in data {
        a = (a + *x as u32) % 65521;
        b = (b + a) % 65521;
    }
    z.extend_from_slice(&((b << 16) | a).to_be_bytes());
    z
}

#[test]
fn compressed_ram_page_which_inflates_to_less_than_16k_is_rejected() {
    let chunk = |data: &[u8]| {
        let mut d = vec![1, 0, 5];
        d.extend_from_slice(&zlib_stored(data));
        d
    };
    let mut e = machine();
    load_szx(&mut e, szx(SZX_128K, &[(b"RAMP", chunk(&vec![0xAA; 0x4000]))])).unwrap();
    assert_eq!(e.peek(0x4000), 0xAA);
    let r = load_szx(&mut machine(), szx(SZX_128K, &[(b"RAMP", chunk(&[0xAA; 100]))]));
    assert!(is_invalid(&r), "compressed RAMP page which inflates to 100 bytes: {r:?}");
}
