//! C15 (item 9): an interrupt mode outside 0..=2 in a snapshot is a malformed file, not a reason to
//! panic in `Z80::set_im`.
use rustzx_core::{
    error::{Error, SnapshotLoadError},
    zx::machine::ZXMachine,
};
use rustzx_findings_demo::*;

fn cpu(im: u8) -> Cpu {
    Cpu { hl: 0xDEAD, sp: 0xBF00, pc: 0x8000, im, border: 6, ..Cpu::default() }
}

#[test]
fn sna_with_interrupt_mode_3_is_rejected() {
    for im in [3u8, 0xFF] {
        let mut e = emulator(ZXMachine::Sinclair48K);
        let before = save_sna(&mut e);
        let r = load_sna(&mut e, sna48(&cpu(im), &ram48()));
        assert!(matches!(r, Err(Error::SnapshotLoad(SnapshotLoadError::InvalidSNAFile))), "48K, IM byte {im}: {r:?}");
        assert!(before == save_sna(&mut e), "rejected snapshot changed the machine");

        let mut e = emulator(ZXMachine::Sinclair128K);
        let r = load_sna(&mut e, sna128(&cpu(im), 0, &banks128()));
        assert!(matches!(r, Err(Error::SnapshotLoad(SnapshotLoadError::InvalidSNAFile))), "128K, IM byte {im}: {r:?}");
    }
    // the two bits the format defines are still the only ones looked at
    let mut e = emulator(ZXMachine::Sinclair48K);
    load_sna(&mut e, sna48(&cpu(0xFE), &ram48())).unwrap();
    assert_eq!(save_sna(&mut e)[25], 2);
}

#[test]
fn szx_with_interrupt_mode_3_is_rejected() {
    for im in [3u8, 0x80, 0xFF] {
        let mut e = emulator(ZXMachine::Sinclair48K);
        let r = load_szx(&mut e, szx(SZX_48K, &[(b"Z80R", z80r(&cpu(im), 0, 0))]));
        assert!(matches!(r, Err(Error::SnapshotLoad(SnapshotLoadError::InvalidSZXFile))), "IM byte {im}: {r:?}");
    }
    let mut e = emulator(ZXMachine::Sinclair48K);
    load_szx(&mut e, szx(SZX_48K, &[(b"Z80R", z80r(&cpu(2), 0, 0))])).unwrap();
    assert_eq!(save_sna(&mut e)[25], 2);
}
