//! C15: a truncated VTX file must be rejected in bounded time.  Before the fix `Vtx::load` polled
//! the reader forever once it hit end-of-file inside the strings block.
use std::io::{Cursor, Read, Seek, SeekFrom};
use std::sync::atomic::{AtomicUsize, Ordering};

static EOF_READS: AtomicUsize = AtomicUsize::new(0);

struct Guarded(Cursor<Vec<u8>>);
impl Read for Guarded {
    fn read(&mut self, buf: &mut [u8]) -> std::io::Result<usize> {
        let n = self.0.read(buf)?;
        if n == 0 && !buf.is_empty() {
            // break the endless loop of the unfixed loader so that the test terminates
            assert!(EOF_READS.fetch_add(1, Ordering::SeqCst) < 1000, "loader keeps polling a finished file: endless loop");
        }
        Ok(n)
    }
}
impl Seek for Guarded {
    fn seek(&mut self, p: SeekFrom) -> std::io::Result<u64> {
        self.0.seek(p)
    }
}

#[test]
fn truncated_strings_block_is_rejected_not_hung() {
    // "ay", stereo ABC, loop 0, 1773400 Hz, 50 Hz, year 0, 14 bytes of frames, then "ab\0" and EOF
    let mut f = vec![b'a', b'y', 1, 0, 0];
    f.extend_from_slice(&1_773_400u32.to_le_bytes());
    f.push(50);
    f.extend_from_slice(&[0, 0]);
    f.extend_from_slice(&14u32.to_le_bytes());
    f.extend_from_slice(b"ab\0");
    let r = vtx::Vtx::load(Guarded(Cursor::new(f)));
    assert!(r.is_err());
}

#[test]
fn zero_player_frequency_is_rejected_not_a_division_by_zero() {
    // a real track with the player-frequency byte (offset 9) zeroed
    let mut f = std::fs::read("/repo/vtx/src/test/csoon.vtx").unwrap();
    f[9] = 0;
    match vtx::Vtx::load(Cursor::new(f)) {
        Err(_) => {}
        Ok(v) => {
            // before the fix the file loaded and the player divided by zero
            let mut p = vtx::player::PrecisePlayer::new(v, 44100, true);
            let mut buf = [0i16; 16];
            let _ = p.play(&mut buf);
        }
    }
}
