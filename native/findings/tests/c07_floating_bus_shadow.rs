//! C07: with the 128K shadow screen displayed the floating bus must show bytes of bank 7 (the screen the ULA
//! fetches), not of bank 5.  Found by c07_floating_bus_normal_screen.  (Program adapted from seeded/C07-2/demo.rs.)
//! Demonstration for property C07 (floating bus clause):
//! a read from a port no device claims returns 0xFF whenever the ULA is not fetching picture
//! data, otherwise a byte of the display or attribute memory being fetched.
//!
//! Scenario (128K only): the paging latch selects the shadow screen (bit 3) while a RAM bank
//! other than 7 is paged into the 0xC000 window. An unclaimed port is then sampled at many
//! different beam positions. Every sample must be either 0xFF or a byte of display memory
//! (bank 5 or bank 7), never a byte of the unrelated bank paged at 0xC000.

use rustzx_core::poke::{Poke, PokeAction};
use rustzx_test::framework::{presets, RustZXTester};
use std::time::Duration;

const BANK5_FILL: u8 = 0x11;
const BANK7_FILL: u8 = 0x77;
const BANK0_FILL: u8 = 0x22;

const SAMPLES_ADDR: u16 = 0x8000;
const SAMPLES_COUNT: u16 = 0x4000;
const DONE_MARKER_ADDR: u16 = 0x6000;
const DONE_MARKER: u8 = 0xA5;

struct Program(Vec<PokeAction>);

impl Poke for Program {
    fn actions(&self) -> &[PokeAction] {
        &self.0
    }
}

fn out_7ffd(code: &mut Vec<u8>, value: u8) {
    // LD BC,0x7FFD; LD A,value; OUT (C),A
    code.extend_from_slice(&[0x01, 0xFD, 0x7F, 0x3E, value, 0xED, 0x79]);
}

/// Fills 0x1B00 bytes (bitmap + attributes) starting from `addr`
fn fill_screen(code: &mut Vec<u8>, addr: u16, value: u8) {
    let [lo, hi] = addr.to_le_bytes();
    let [lo1, hi1] = (addr + 1).to_le_bytes();
    // LD HL,addr; LD DE,addr+1; LD BC,0x1AFF; LD (HL),value; LDIR
    code.extend_from_slice(&[
        0x21, lo, hi, 0x11, lo1, hi1, 0x01, 0xFF, 0x1A, 0x36, value, 0xED, 0xB0,
    ]);
}

fn build_program() -> Vec<u8> {
    let mut code = vec![0xF3]; // DI

    // Bank 7 at 0xC000, normal screen. Fill the shadow screen
    out_7ffd(&mut code, 0x07);
    fill_screen(&mut code, 0xC000, BANK7_FILL);
    // Bank 0 at 0xC000, shadow screen displayed. Fill the same offsets of bank 0
    out_7ffd(&mut code, 0x08);
    fill_screen(&mut code, 0xC000, BANK0_FILL);
    // Normal screen (bank 5, always at 0x4000)
    fill_screen(&mut code, 0x4000, BANK5_FILL);

    // Sample port 0x00FF (odd, A15=0, A1=1: not ULA, not AY, not paging latch, joystick and
    // mouse are disabled, IO extender is not installed).
    // Loop takes 49 clocks, which is coprime with line length, so beam positions differ
    let [s_lo, s_hi] = SAMPLES_ADDR.to_le_bytes();
    let [c_lo, c_hi] = SAMPLES_COUNT.to_le_bytes();
    code.extend_from_slice(&[0x21, s_lo, s_hi]); // LD HL,samples
    code.extend_from_slice(&[0x11, c_lo, c_hi]); // LD DE,count
    code.extend_from_slice(&[0x01, 0xFF, 0x00]); // LD BC,0x00FF
    let [l_lo, l_hi] = (code.len() as u16).to_le_bytes();
    code.extend_from_slice(&[
        0xED, 0x78, // IN A,(C)
        0x77, // LD (HL),A
        0x23, // INC HL
        0x1B, // DEC DE
        0x7A, // LD A,D
        0xB3, // OR E
        0xC2, l_lo, l_hi, // JP NZ,loop
    ]);

    let [m_lo, m_hi] = DONE_MARKER_ADDR.to_le_bytes();
    code.extend_from_slice(&[0x3E, DONE_MARKER, 0x32, m_lo, m_hi]); // LD A,marker; LD (addr),A
    code.extend_from_slice(&[0x18, 0xFE]); // JR $
    code
}

#[test]
fn floating_bus_with_shadow_screen_and_foreign_bank_128k() {
    let mut t = RustZXTester::new(
        "seeded_demo_floating_bus_128k",
        presets::settings_128k_nosound(),
    );

    // CPU starts from 0x0000, place the program over the ROM 0
    let program = build_program()
        .into_iter()
        .enumerate()
        .map(|(addr, byte)| PokeAction::mem(addr as u16, byte))
        .collect();
    t.emulator().execute_poke(Program(program));

    // ~6 frames of memory fills + ~12 frames of sampling
    t.emulate_for(Duration::from_millis(20 * 30));
    assert_eq!(
        t.peek(DONE_MARKER_ADDR),
        DONE_MARKER,
        "test program did not finish"
    );

    let samples = (0..SAMPLES_COUNT)
        .map(|offset| t.peek(SAMPLES_ADDR + offset))
        .collect::<Vec<_>>();

    let idle = samples.iter().filter(|s| **s == 0xFF).count();
    let fetched = samples.len() - idle;
    // Sanity: both border/retrace time and picture fetch time were sampled
    assert!(idle > 1000, "idle bus was sampled only {} times", idle);
    assert!(fetched > 1000, "ULA fetch was sampled only {} times", fetched);

    for (index, sample) in samples.iter().copied().enumerate() {
        assert!(
            sample == 0xFF || sample == BANK7_FILL,
            "sample #{}: unclaimed port returned {:#04X}, which is neither 0xFF nor a byte of the DISPLAYED screen (bank 7) \
             display memory",
            index,
            sample
        );
    }
}
