//! C15: "After either outcome the emulator still emulates further frames without panicking."
//! A host may load a snapshot whenever `emulate_frames` has returned - also after a breakpoint stop in the
//! middle of a frame.  An SZX Z80R chunk sets the frame clock (dwCyclesStart); when it moves the clock
//! backwards within the scan line the renderer had already reached, ZXScreen::process_clocks computed
//! `self.columns - prev.columns` with prev ahead of self: arithmetic overflow (panic in builds with overflow
//! checks) on the first instruction after a successful load.
//! Found by c15_frame_after_szx_load_that_rewinds_the_clock.
use rustzx_core::{
    host::{BufferCursor, DebugInterface, Host, HostContext, Snapshot, StubIoExtender},
    zx::machine::ZXMachine,
    Emulator,
};
use rustzx_findings_demo::*;
use std::time::Duration;

struct Bp(u16);
impl DebugInterface for Bp {
    fn check_pc_breakpoint(&mut self, addr: u16) -> bool {
        addr == self.0
    }
}
struct BpCtx;
impl HostContext<BpHost> for BpCtx {
    fn frame_buffer_context(&self) {}
}
struct BpHost;
impl Host for BpHost {
    type Context = BpCtx;
    type DebugInterface = Bp;
    type EmulationStopwatch = Sw;
    type FrameBuffer = Fb;
    type IoExtender = StubIoExtender;
    type TapeAsset = BufferCursor<Vec<u8>>;
}

/// 48K SZX: NOP sled at 0x8000, interrupts off, frame clock as given
fn snapshot(cycles_start: u32) -> Vec<u8> {
    let ram = ram48();
    let c = Cpu { sp: 0xFD00, pc: 0x8000, i: 0x3F, im: 1, iff: false, ..Cpu::default() };
    let mut chunks = vec![(b"Z80R", z80r(&c, cycles_start, 0))];
    chunks.extend(ramp48(&ram));
    szx(SZX_48K, &chunks)
}

#[test]
fn frames_run_after_a_load_that_moves_the_frame_clock_backwards() {
    let mut e: Emulator<BpHost> = Emulator::new(settings(ZXMachine::Sinclair48K), BpCtx).unwrap();
    // picture line 10, 100 T-states into the line (the renderer is at column 26 of 32)
    let line10 = 14336 + 10 * 224;
    e.load_snapshot(Snapshot::Szx(BufferCursor::new(snapshot(line10 as u32)))).unwrap();
    // run 25 NOPs (100 T) and stop on a breakpoint in the middle of the line
    e.set_debug_interface(Bp(0x8000 + 25));
    let info = e.emulate_frames(Duration::from_secs(10)).unwrap();
    assert!(matches!(info.stop_reason, rustzx_core::EmulationStopReason::Breakpoint));
    // the host now loads a snapshot taken 80 T-states earlier on the same line
    e.set_debug_interface(Bp(0));
    e.load_snapshot(Snapshot::Szx(BufferCursor::new(snapshot(line10 as u32 + 20)))).unwrap();
    for _ in 0..3 {
        e.emulate_frames(Duration::from_secs(10)).unwrap();
    }
}
