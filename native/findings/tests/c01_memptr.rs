//! C01: MEMPTR after LD (nn),A and OUT (n),A is low = (addr+1)&0xFF, high = A; it is observable through
//! flags 3/5 of a following BIT n,(HL).  Found by the c01_known_* solver harnesses.
use rustzx_z80::{RegName16, Z80Bus, Z80};

struct Bus {
    mem: [u8; 65536],
}
impl Z80Bus for Bus {
    fn read_internal(&mut self, addr: u16) -> u8 {
        self.mem[addr as usize]
    }
    fn write_internal(&mut self, addr: u16, data: u8) {
        self.mem[addr as usize] = data;
    }
    fn wait_mreq(&mut self, _: u16, _: usize) {}
    fn wait_no_mreq(&mut self, _: u16, _: usize) {}
    fn wait_internal(&mut self, _: usize) {}
    fn read_io(&mut self, _: u16) -> u8 {
        0xFF
    }
    fn write_io(&mut self, _: u16, _: u8) {}
    fn read_interrupt(&mut self) -> u8 {
        0xFF
    }
    fn reti(&mut self) {}
    fn halt(&mut self, _: bool) {}
    fn int_active(&self) -> bool {
        false
    }
    fn nmi_active(&self) -> bool {
        false
    }
    fn pc_callback(&mut self, _: u16) {}
}

#[test]
fn memptr_after_ld_nn_a_and_out_n_a() {
    let mut bus = Bus { mem: [0; 65536] };
    // XOR A ; LD (0x1234),A ; OUT (0xFF),A
    bus.mem[..6].copy_from_slice(&[0xAF, 0x32, 0x34, 0x12, 0xD3, 0xFF]);
    let mut cpu = Z80::default();
    cpu.emulate(&mut bus);
    cpu.emulate(&mut bus);
    assert_eq!(cpu.regs.get_reg_16(RegName16::MemPtr), 0x0035, "LD (0x1234),A with A=0: MEMPTR low=(nn+1)&0xFF, high=A");
    cpu.emulate(&mut bus);
    assert_eq!(cpu.regs.get_reg_16(RegName16::MemPtr), 0x0000, "OUT (0xFF),A with A=0: MEMPTR low=(n+1)&0xFF, high=A");
}
