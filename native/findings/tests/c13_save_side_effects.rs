//! C13 (item 2): saving a 48K SNA must not change the running machine.  The format wants PC on the
//! stack INSIDE the saved image; the live RAM below SP and the live PC must be as before the save.
use rustzx_core::{
    host::{BufferCursor, LoadableAsset, RomFormat, RomSet},
    zx::{machine::ZXMachine, video::colors::ZXColor},
};
use rustzx_findings_demo::*;

/// program: LD SP,nn ; JR $   (the CPU then sits on the JR at 0x8003 with SP = nn)
fn machine_with_sp(sp: u16) -> rustzx_core::Emulator<DemoHost> {
    let mut e = emulator(ZXMachine::Sinclair48K);
    let mut ram = ram48();
    put(&mut ram, 0x8000, &[0x31, sp as u8, (sp >> 8) as u8, 0x18, 0xFE]);
    put(&mut ram, 0x9FFE, &[0xAA, 0xBB]);
    let c = Cpu { sp: 0xF000, pc: 0x8000, im: 1, border: 5, ..Cpu::default() };
    load_sna(&mut e, sna48(&c, &ram)).unwrap();
    frame(&mut e);
    e
}

#[test]
fn save_leaves_ram_below_sp_untouched() {
    let mut e = machine_with_sp(0xA000);
    assert_eq!(peek16(&e, 0x9FFE), 0xBBAA);
    let out = save_sna(&mut e);
    // the image has SP-2 and PC on the stack ...
    assert_eq!(u16::from_le_bytes([out[23], out[24]]), 0x9FFE, "SP in the file");
    let at = 27 + (0x9FFE - 0x4000);
    assert_eq!(u16::from_le_bytes([out[at], out[at + 1]]), 0x8003, "PC on the stack in the file");
    // ... the running machine does not
    assert_eq!(peek16(&e, 0x9FFE), 0xBBAA, "the two bytes below SP of the running machine changed by save");
    // and a second save gives the same file (SP/PC are back)
    assert!(out == save_sna(&mut e), "second save differs");
}

struct Rom(Option<Vec<u8>>);
impl RomSet for Rom {
    type Asset = BufferCursor<Vec<u8>>;
    fn format(&self) -> RomFormat {
        RomFormat::Binary16KPages
    }
    fn next_asset(&mut self) -> Option<Self::Asset> {
        self.0.take().map(BufferCursor::new)
    }
}
#[allow(dead_code)]
fn _asset_is_loadable(a: &mut BufferCursor<Vec<u8>>) {
    let _ = a.read(&mut []);
}

#[test]
fn save_with_sp_in_rom_keeps_pc() {
    // ROM: at 0x0000  LD A,2 ; OUT (0xFE),A ; JR $  - turns the border red if the CPU ever gets there
    let mut rom = vec![0u8; 0x4000];
    rom[..6].copy_from_slice(&[0x3E, 0x02, 0xD3, 0xFE, 0x18, 0xFE]);
    let mut e = machine_with_sp(0x2000);
    e.load_rom(Rom(Some(rom))).unwrap();
    assert!(matches!(e.border_color(), ZXColor::Cyan));
    let _ = save_sna(&mut e);
    frame(&mut e);
    // unfixed: PC was pushed into ROM (ignored) and popped back from ROM = 0x0000
    assert!(matches!(e.border_color(), ZXColor::Cyan), "PC was reloaded from ROM by the save: the CPU ran the ROM code at 0");
    let out = save_sna(&mut e);
    assert_eq!(u16::from_le_bytes([out[23], out[24]]), 0x1FFE);
}

/// Saving must not advance emulated time either: a stack in contended RAM (0x4000..0x7FFF) while the
/// beam is in the picture area must not cost the running machine contention delays.
#[test]
fn save_does_not_advance_frame_clock() {
    // NOP sled at 0x8000.., IM 2 handler at 0xA100 (JR $), stack at 0x6000 (contended), beam at the
    // start of picture line 100; the return address pushed by the next frame interrupt counts the NOPs
    let run = |save: bool| {
        let mut e = emulator(ZXMachine::Sinclair48K);
        let mut ram = ram48();
        put(&mut ram, 0xBEFF, &[0x00, 0xE1]);
        put(&mut ram, 0xE100, &[0x18, 0xFE]);
        let c = Cpu { sp: 0x6000, pc: 0x8000, i: 0xBE, im: 2, iff: true, ..Cpu::default() };
        let mut chunks = vec![(b"Z80R", z80r(&c, 14335 + 100 * 224, 0))];
        chunks.extend(ramp48(&ram));
        load_szx(&mut e, szx(SZX_48K, &chunks)).unwrap();
        if save {
            let _ = save_sna(&mut e);
        }
        frame(&mut e);
        frame(&mut e);
        peek16(&e, 0x5FFE)
    };
    let reference = run(false);
    assert!(reference > 0x8000 && reference < 0xBE00, "reference run: interrupt return address {reference:#06x}");
    assert_eq!(run(true), reference, "interrupt arrives at a different instruction after a save: the save advanced the frame clock");
}
