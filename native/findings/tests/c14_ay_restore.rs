//! C14 (item 7): AY registers restored from an SZX AY chunk must reach the sound generator, not only
//! the read-back copy: a tone which was playing when the snapshot was taken must be audible.
use rustzx_core::{zx::machine::ZXMachine, Emulator};
use rustzx_findings_demo::*;

fn machine_with_ay_chunk(program: &[u8]) -> Emulator<DemoHost> {
    let mut s = settings(ZXMachine::Sinclair128K);
    s.ay_enabled = true;
    s.beeper_enabled = false;
    s.sound_enabled = true;
    let mut e: Emulator<DemoHost> = Emulator::new(s, Ctx).unwrap();
    // tone A period 100 (1108 Hz), only tone A in the mixer, volume 15; selected register 8
    let mut ay = vec![0u8, 8];
    ay.extend_from_slice(&[100, 0, 0, 0, 0, 0, 0, 0x3E, 15, 0, 0, 0, 0, 0, 0, 0]);
    let mut bank2 = vec![0u8; 0x4000];
    bank2[..program.len()].copy_from_slice(program);
    let c = Cpu { sp: 0xBF00, pc: 0x8000, im: 1, ..Cpu::default() };
    let chunks = vec![(b"Z80R", z80r(&c, 0, 0)), (b"SPCR", spcr(0, 0, 0)), (b"RAMP", ramp(2, &bank2)), (b"AY\0\0", ay)];
    load_szx(&mut e, szx(SZX_128K, &chunks)).unwrap();
    e
}

#[test]
fn restored_ay_tone_is_audible() {
    let mut e = machine_with_ay_chunk(&[0x18, 0xFE]);
    let mut samples = Vec::new();
    for _ in 0..4 {
        frame(&mut e);
        while let Some(s) = e.next_audio_sample() {
            samples.push(s.left);
        }
    }
    assert!(samples.len() > 2000, "{} samples", samples.len());
    let tail = &samples[samples.len() / 2..];
    let (min, max) = tail.iter().fold((f32::MAX, f32::MIN), |(lo, hi), s| (lo.min(*s), hi.max(*s)));
    assert!(max - min > 0.01, "AY tone A at full volume restored from the snapshot is silent: samples span {min}..{max}");
}

#[test]
fn restored_ay_registers_read_back() {
    // LD BC,0xFFFD ; IN A,(C) ; LD (0x9000),A ; JR $
    let mut e = machine_with_ay_chunk(&[0x01, 0xFD, 0xFF, 0xED, 0x78, 0x32, 0x00, 0x90, 0x18, 0xFE]);
    frame(&mut e);
    assert_eq!(e.peek(0x9000), 15, "selected register (8) read through port 0xFFFD");
}
