//! C13/C14 (item 3): a snapshot or screen load must not inherit CPU control state (HALT latch,
//! "no interrupt after this instruction" latch, pending DD/FD/ED prefix) from the program that was
//! running in the receiving machine before the load.
use rustzx_core::zx::machine::ZXMachine;
use rustzx_findings_demo::*;

const SP: u16 = 0x7000;
const HANDLER: u16 = 0xE100;

/// a machine which has run one frame of a program made of `filler` bytes at 0x8000..=0xFFFF
/// (4 T-states per byte for NOP, EI and for a chain of DD prefixes: the frame ends exactly at T=0)
fn receiver(filler: u8) -> rustzx_core::Emulator<DemoHost> {
    let mut e = emulator(ZXMachine::Sinclair48K);
    let mut ram = ram48();
    ram[0x4000..].fill(filler);
    let c = Cpu { sp: SP, pc: 0x8000, im: 1, ..Cpu::default() };
    load_sna(&mut e, sna48(&c, &ram)).unwrap();
    frame(&mut e);
    e
}

/// IM 2 with the vector at 0xBEFF -> HANDLER: JR $
fn with_im2_handler(ram: &mut [u8], c: &mut Cpu) {
    put(ram, 0xBEFF, &HANDLER.to_le_bytes());
    put(ram, HANDLER, &[0x18, 0xFE]);
    c.i = 0xBE;
    c.im = 2;
    c.iff = true;
}

#[test]
fn sna_load_clears_halt_latch() {
    // receiver: DI ; HALT - halted for good
    let mut e = emulator(ZXMachine::Sinclair48K);
    let mut ram = ram48();
    put(&mut ram, 0x8000, &[0xF3, 0x76]);
    load_sna(&mut e, sna48(&Cpu { sp: SP, pc: 0x8000, im: 1, ..Cpu::default() }, &ram)).unwrap();
    frame(&mut e);
    // snapshot: JR $ at 0x8000, interrupts enabled
    let mut ram = ram48();
    let mut c = Cpu { sp: SP, pc: 0x8000, ..Cpu::default() };
    put(&mut ram, 0x8000, &[0x18, 0xFE]);
    with_im2_handler(&mut ram, &mut c);
    load_sna(&mut e, sna48(&c, &ram)).unwrap();
    frame(&mut e);
    frame(&mut e);
    assert_eq!(peek16(&e, SP - 2), 0x8000, "return address of the first interrupt after the load (a stale HALT latch bumps it)");
}

/// two 19 T-state instructions (EX (SP),HL) then JR $: the interrupt line is active for 32 T-states
/// from T=0, so the return address tells whether the interrupt was taken before the first instruction
fn first_interrupt_return_address(filler: u8) -> u16 {
    let mut e = receiver(filler);
    let mut ram = ram48();
    let mut c = Cpu { sp: SP, pc: 0x8000, ..Cpu::default() };
    put(&mut ram, 0x8000, &[0xE3, 0xE3, 0x18, 0xFE]);
    with_im2_handler(&mut ram, &mut c);
    load_sna(&mut e, sna48(&c, &ram)).unwrap();
    frame(&mut e);
    frame(&mut e);
    peek16(&e, SP - 2)
}

#[test]
fn sna_load_clears_ei_latch() {
    assert_eq!(first_interrupt_return_address(0x00), 0x8000, "reference: receiver was running NOPs");
    assert_eq!(first_interrupt_return_address(0xFB), 0x8000, "receiver was running EI: its EI latch delayed the snapshot's first interrupt");
}

/// returns (HL, IX) after the loaded program `LD HL,0x1234 ; JR $` has run for a frame
fn hl_ix_after(filler: u8, as_szx: bool) -> (u16, u16) {
    let mut e = receiver(filler);
    let mut ram = ram48();
    put(&mut ram, 0x8000, &[0x21, 0x34, 0x12, 0x18, 0xFE]);
    let c = Cpu { sp: SP, pc: 0x8000, im: 1, ..Cpu::default() };
    if as_szx {
        let mut chunks = vec![(b"Z80R", z80r(&c, 0, 0))];
        chunks.extend(ramp48(&ram));
        load_szx(&mut e, szx(SZX_48K, &chunks)).unwrap();
    } else {
        load_sna(&mut e, sna48(&c, &ram)).unwrap();
    }
    frame(&mut e);
    let out = save_sna(&mut e);
    (u16::from_le_bytes([out[9], out[10]]), u16::from_le_bytes([out[17], out[18]]))
}

#[test]
fn sna_load_clears_pending_prefix() {
    assert_eq!(hl_ix_after(0x00, false), (0x1234, 0), "reference");
    assert_eq!(hl_ix_after(0xDD, false), (0x1234, 0), "receiver stopped inside a DD chain: the snapshot's LD HL,nn ran as LD IX,nn");
}

#[test]
fn szx_z80r_clears_pending_prefix() {
    assert_eq!(hl_ix_after(0x00, true), (0x1234, 0), "reference");
    assert_eq!(hl_ix_after(0xDD, true), (0x1234, 0), "receiver stopped inside a DD chain: the snapshot's LD HL,nn ran as LD IX,nn");
}

#[test]
fn scr_load_clears_halt_latch() {
    // receiver: 8 x NOP (let the interrupt pulse of the current frame pass) ; EI ; HALT with an IM 2
    // handler; after one frame it is halted with the interrupt due
    let mut e = emulator(ZXMachine::Sinclair48K);
    let mut ram = ram48();
    let mut c = Cpu { sp: SP, pc: 0x9000, ..Cpu::default() };
    put(&mut ram, 0x9008, &[0xFB, 0x76]);
    with_im2_handler(&mut ram, &mut c);
    c.iff = false;
    load_sna(&mut e, sna48(&c, &ram)).unwrap();
    frame(&mut e);
    // the screen loader parks the CPU in `JP 0x8000` at 0x8000
    load_scr(&mut e, vec![0x55; 6912]).unwrap();
    assert_eq!(e.peek(0x4000), 0x55);
    frame(&mut e);
    assert_eq!(peek16(&e, SP - 2), 0x8000, "interrupt return address must be the parking loop (a stale HALT latch bumps it to 0x8001)");
}
