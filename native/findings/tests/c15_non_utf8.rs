//! C15 (item 12): chunk ids and the creator name are bytes from a file; when they are not UTF-8 the
//! loader must carry on (unknown chunk -> skipped, creator name is informational), not panic.
use rustzx_core::zx::machine::ZXMachine;
use rustzx_findings_demo::*;

#[test]
fn chunk_id_which_is_not_utf8_is_skipped_as_unknown() {
    let mut e = emulator(ZXMachine::Sinclair48K);
    let c = Cpu { hl: 0x1234, sp: 0xBF00, pc: 0x8000, im: 1, ..Cpu::default() };
    let file = szx(SZX_48K, &[(&[0xFF, 0xFE, 0x80, 0xC0], vec![1, 2, 3]), (b"Z80R", z80r(&c, 0, 0))]);
    load_szx(&mut e, file).unwrap();
    // the chunk after the undecodable one was processed
    let out = save_sna(&mut e);
    assert_eq!(u16::from_le_bytes([out[9], out[10]]), 0x1234);
}

#[test]
fn creator_name_which_is_not_utf8_is_accepted() {
    let mut e = emulator(ZXMachine::Sinclair48K);
    let mut crtr = vec![0xFF; 32];
    crtr.extend_from_slice(&[1, 0, 5, 0, 0, 0, 0, 0]);
    load_szx(&mut e, szx(SZX_48K, &[(b"CRTR", crtr)])).unwrap();
}
