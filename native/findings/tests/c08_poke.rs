//! C08: a poke into display memory must be shown.  Found by c08_poke_reaches_display_copy.
use rustzx_core::{poke::{Poke, PokeAction}, zx::machine::ZXMachine};
use rustzx_findings_demo::emulator;
use std::time::Duration;

struct P([PokeAction; 2]);
impl Poke for P {
    fn actions(&self) -> &[PokeAction] {
        &self.0
    }
}

#[test]
fn poked_screen_byte_is_displayed() {
    let mut e = emulator(ZXMachine::Sinclair48K);
    // ROM is all zeros (NOPs): the CPU just runs; ink 7 on paper 0 in cell (0,0), all 8 pixels set
    e.execute_poke(P([PokeAction::mem(0x5800, 0x07), PokeAction::mem(0x4000, 0xFF)]));
    assert_eq!(e.peek(0x4000), 0xFF);
    e.emulate_frames(Duration::from_secs(5)).unwrap();
    e.emulate_frames(Duration::from_secs(5)).unwrap();
    let px = e.screen_buffer().pixels[0];
    assert_eq!(px.0, 7, "pixel (0,0) must show ink 7 after poking 0xFF into 0x4000, got colour {}", px.0);
}
