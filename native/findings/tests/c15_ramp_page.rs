//! C15 (item 13): an SZX RAMP chunk for a RAM page the machine does not have must be rejected
//! (`InvalidSZXFile`), not panic in `ram_page_data_mut`.
use rustzx_core::{
    error::{Error, SnapshotLoadError},
    zx::machine::ZXMachine,
};
use rustzx_findings_demo::*;

fn load_page(machine: ZXMachine, id: u8, page: u8) -> rustzx_core::Result<()> {
    let mut e = emulator(machine);
    load_szx(&mut e, szx(id, &[(b"RAMP", ramp(page, &vec![0x5A; 0x4000]))]))
}
fn is_invalid(r: &rustzx_core::Result<()>) -> bool {
    matches!(r, Err(Error::SnapshotLoad(SnapshotLoadError::InvalidSZXFile)))
}

#[test]
fn ram_page_the_machine_does_not_have_is_rejected() {
    for page in 0..=255u8 {
        let r = load_page(ZXMachine::Sinclair128K, SZX_128K, page);
        if page < 8 {
            r.unwrap();
        } else {
            assert!(is_invalid(&r), "128K, page {page}: {r:?}");
        }
        // 48K: SZX numbers the three pages 5, 2, 0 like the 128K does
        let r = load_page(ZXMachine::Sinclair48K, SZX_48K, page);
        if [5, 2, 0].contains(&page) {
            r.unwrap();
        } else {
            assert!(is_invalid(&r), "48K, page {page}: {r:?}");
        }
    }
}
