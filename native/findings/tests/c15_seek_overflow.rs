//! C15 (item 15): `BufferCursor::seek` with an offset which overflows the position must return an
//! error, not panic with "attempt to add with overflow" (debug) or wrap around (release).
use rustzx_core::host::{BufferCursor, LoadableAsset, SeekFrom, SeekableAsset};

#[test]
fn seek_offset_overflow_is_an_error() {
    let mut c = BufferCursor::new(vec![1u8, 2, 3, 4]);
    assert!(c.seek(SeekFrom::End(isize::MAX)).is_err(), "End(isize::MAX) on a 4-byte buffer");
    c.seek(SeekFrom::Start(3)).unwrap();
    assert!(c.seek(SeekFrom::Current(isize::MAX)).is_err(), "Current(isize::MAX) from position 3");
    // a failed seek leaves the position alone
    let mut b = [0u8; 1];
    c.read_exact(&mut b).unwrap();
    assert_eq!(b[0], 4);
    // ordinary seeks keep working
    assert_eq!(c.seek(SeekFrom::End(-4)).unwrap(), 0);
    assert_eq!(c.seek(SeekFrom::Current(2)).unwrap(), 2);
    assert!(c.seek(SeekFrom::Current(-3)).is_err());
    assert!(c.seek(SeekFrom::End(isize::MIN)).is_err());
    assert!(c.seek(SeekFrom::Start(usize::MAX)).is_err());
}
