//! C09: "with no write during a frame the whole border shows the current colour", the current colour being
//! "the border stored in the last loaded snapshot".  An SZX SPCR chunk carries the border (chBorder) and the
//! last value written to port 0xFE (chFe); the loader applied chFe to the border device and then only
//! overwrote the colour reported to the host with chBorder, so when the two disagree the border kept being
//! painted in chFe's colour while the host was told chBorder.  Found by c09_szx_border_reaches_the_border_device.
use rustzx_core::zx::{machine::ZXMachine, video::colors::ZXColor};
use rustzx_findings_demo::*;

fn border_after_load(machine: ZXMachine, machine_id: u8, border: u8, port_fe: u8) -> (u8, Vec<u8>) {
    let mut e = emulator(machine);
    let mut ram = ram48();
    // DI; JR $ : the program never writes the ULA port
    put(&mut ram, 0x8000, &[0xF3, 0x18, 0xFE]);
    let c = Cpu { sp: 0xFD00, pc: 0x8000, i: 0x3F, im: 1, iff: false, ..Cpu::default() };
    let mut chunks = vec![(b"Z80R", z80r(&c, 1000, 0)), (b"SPCR", spcr(border, 0, port_fe))];
    chunks.extend(ramp48(&ram));
    load_szx(&mut e, szx(machine_id, &chunks)).unwrap();
    for _ in 0..3 {
        frame(&mut e);
    }
    let reported: u8 = e.border_color().into();
    let shown = e.border_buffer().pixels.iter().map(|p| p.0).collect();
    (reported, shown)
}

#[test]
fn border_device_shows_the_snapshot_border() {
    let red: u8 = ZXColor::Red.into();
    // chFe colour bits (5, cyan) differ from chBorder (2, red)
    let (reported, shown) = border_after_load(ZXMachine::Sinclair48K, SZX_48K, red, 0x05);
    assert_eq!(reported, red);
    // the top-left pixel is border on every line of the canvas
    assert_eq!(shown[0], red, "border pixel (0,0) shows colour {} while the host is told {}", shown[0], reported);
    assert!(shown.iter().step_by(320).all(|c| *c == red), "left border column is not uniformly the snapshot border");
}

#[test]
fn consistent_chunk_control() {
    let (reported, shown) = border_after_load(ZXMachine::Sinclair48K, SZX_48K, 2, 0x02);
    assert_eq!(reported, 2);
    assert_eq!(shown[0], 2);
}
