//! C14/C15 (item 5): a snapshot made for another machine model must be rejected with
//! `MachineNotSupported` and leave the receiving machine untouched (not be half-applied, not panic).
use rustzx_core::{
    error::{Error, SnapshotLoadError},
    zx::machine::ZXMachine,
};
use rustzx_findings_demo::*;

fn cpu() -> Cpu {
    Cpu { hl: 0x1234, sp: 0xBF00, pc: 0x8000, im: 1, border: 3, ..Cpu::default() }
}
fn file_cpu() -> Cpu {
    Cpu { hl: 0xDEAD, bc: 0xBEEF, sp: 0xA000, pc: 0x9000, im: 2, border: 6, ..Cpu::default() }
}
fn machine48() -> rustzx_core::Emulator<DemoHost> {
    let mut e = emulator(ZXMachine::Sinclair48K);
    let mut ram = ram48();
    ram.fill(0x11);
    load_sna(&mut e, sna48(&cpu(), &ram)).unwrap();
    e
}
fn machine128() -> rustzx_core::Emulator<DemoHost> {
    let mut e = emulator(ZXMachine::Sinclair128K);
    load_sna(&mut e, sna128(&cpu(), 0x04, &banks128())).unwrap();
    e
}
fn assert_rejected(r: rustzx_core::Result<()>, what: &str) {
    assert!(
        matches!(r, Err(Error::SnapshotLoad(SnapshotLoadError::MachineNotSupported))),
        "{what}: expected MachineNotSupported, got {:?}",
        r
    );
}

#[test]
fn sna48_into_128k_is_rejected() {
    let mut e = machine128();
    let before = save_sna(&mut e);
    let mut ram = ram48();
    ram.fill(0x77);
    assert_rejected(load_sna(&mut e, sna48(&file_cpu(), &ram)), "48K SNA into 128K machine");
    assert!(before == save_sna(&mut e), "rejected snapshot changed the machine");
}

#[test]
fn sna128_into_48k_is_rejected() {
    let mut e = machine48();
    let before = save_sna(&mut e);
    assert_rejected(load_sna(&mut e, sna128(&file_cpu(), 0x03, &banks128())), "128K SNA into 48K machine");
    assert!(before == save_sna(&mut e), "rejected snapshot changed the machine");
}

#[test]
fn szx_128k_into_48k_is_rejected() {
    let mut e = machine48();
    let before = save_sna(&mut e);
    let mut chunks = vec![(b"Z80R", z80r(&file_cpu(), 0, 0)), (b"SPCR", spcr(6, 3, 6))];
    for (n, b) in banks128().iter().enumerate() {
        chunks.push((b"RAMP", ramp(n as u8, b)));
    }
    assert_rejected(load_szx(&mut e, szx(SZX_128K, &chunks)), "128K SZX into 48K machine");
    assert!(before == save_sna(&mut e), "rejected snapshot changed the machine");
}

#[test]
fn szx_48k_into_128k_is_rejected() {
    let mut e = machine128();
    let before = save_sna(&mut e);
    let mut ram = ram48();
    ram.fill(0x77);
    let mut chunks = vec![(b"Z80R", z80r(&file_cpu(), 0, 0)), (b"SPCR", spcr(6, 0, 6))];
    chunks.extend(ramp48(&ram));
    assert_rejected(load_szx(&mut e, szx(SZX_48K, &chunks)), "48K SZX into 128K machine");
    assert!(before == save_sna(&mut e), "rejected snapshot changed the machine");
}

#[test]
fn matching_models_still_load() {
    let mut ram = ram48();
    ram.fill(0x77);
    for id in [0, SZX_48K] {
        let mut e = machine48();
        let mut chunks = vec![(b"Z80R", z80r(&file_cpu(), 0, 0))];
        chunks.extend(ramp48(&ram));
        load_szx(&mut e, szx(id, &chunks)).unwrap();
        assert_eq!(e.peek(0x4000), 0x77);
    }
    let mut e = machine128();
    load_szx(&mut e, szx(SZX_128K, &[(b"Z80R", z80r(&file_cpu(), 0, 0)), (b"RAMP", ramp(5, &vec![0x77; 0x4000]))])).unwrap();
    assert_eq!(e.peek(0x4000), 0x77);
}

#[test]
fn real_world_48k_szx_still_loads() {
    // Fuse-written 48K snapshot from the repository test data (compressed RAM pages, AY chunk, ...)
    let file = std::fs::read("/repo/rustzx-test/test_data/nmi.szx").unwrap();
    let mut e = emulator(ZXMachine::Sinclair48K);
    load_szx(&mut e, file).unwrap();
    frame(&mut e);
}
