//! C14 (item 8): restoring the ULA port value from an SZX SPCR chunk must not cost emulated time.
//! The frame position of the loaded machine is what Z80R.dwCyclesStart says, regardless of the
//! chunk order and of where the beam is.
use rustzx_core::zx::{machine::ZXMachine, video::colors::ZXColor};
use rustzx_findings_demo::*;

#[derive(Clone, Copy, PartialEq)]
enum Spcr {
    Absent,
    BeforeZ80r,
    AfterZ80r,
}

/// NOP sled from 0x8000, IM 2 handler `JR $`: the return address pushed by the next frame interrupt
/// tells how many T-states the machine had left in the frame after the load
fn interrupt_return_address(cycles_start: u32, spcr_chunk: Spcr) -> u16 {
    let mut e = emulator(ZXMachine::Sinclair48K);
    let mut ram = ram48();
    put(&mut ram, 0xFDFF, &[0x00, 0xFE]);
    put(&mut ram, 0xFE00, &[0x18, 0xFE]);
    let c = Cpu { sp: 0xFD00, pc: 0x8000, i: 0xFD, im: 2, iff: true, ..Cpu::default() };
    let mut chunks = vec![(b"Z80R", z80r(&c, cycles_start, 0))];
    match spcr_chunk {
        Spcr::Absent => {}
        Spcr::BeforeZ80r => chunks.insert(0, (b"SPCR", spcr(2, 0, 2))),
        Spcr::AfterZ80r => chunks.push((b"SPCR", spcr(2, 0, 2))),
    }
    chunks.extend(ramp48(&ram));
    load_szx(&mut e, szx(SZX_48K, &chunks)).unwrap();
    if spcr_chunk != Spcr::Absent {
        assert!(matches!(e.border_color(), ZXColor::Red));
    }
    frame(&mut e);
    frame(&mut e);
    peek16(&e, 0xFCFE)
}

#[test]
fn spcr_chunk_does_not_advance_frame_clock() {
    // 400 T-states before the end of the frame (bottom border, no contention): exactly 100 NOPs
    let start = 69888 - 400;
    assert_eq!(interrupt_return_address(start, Spcr::Absent), 0x8064);
    assert_eq!(interrupt_return_address(start, Spcr::BeforeZ80r), 0x8064, "SPCR before Z80R");
    assert_eq!(interrupt_return_address(start, Spcr::AfterZ80r), 0x8064, "SPCR after Z80R: the port write took bus time");
}

#[test]
fn spcr_chunk_does_not_depend_on_beam_position() {
    // beam at the start of picture line 100: a timed OUT to the ULA port is delayed by contention
    let start = 14335 + 100 * 224;
    let reference = interrupt_return_address(start, Spcr::Absent);
    assert_eq!(interrupt_return_address(start, Spcr::AfterZ80r), reference);
}
