//! C14 (item 6): an SZX Z80R chunk with the HALTED flag stores PC as the emulator keeps it while
//! halted - ON the HALT opcode (rustzx, like Fuse/libspectrum, steps PC over the HALT when the
//! interrupt is accepted).  The loader must not add one to it.
use rustzx_core::zx::machine::ZXMachine;
use rustzx_findings_demo::*;

#[test]
fn halted_z80r_resumes_right_after_the_halt() {
    let mut e = emulator(ZXMachine::Sinclair48K);
    let mut ram = ram48();
    // 0x8000: HALT ; 0x8001: JR $   IM 2 vector 0xBEFF -> 0xE100: JR $
    put(&mut ram, 0x8000, &[0x76, 0x18, 0xFE]);
    put(&mut ram, 0xBEFF, &[0x00, 0xE1]);
    put(&mut ram, 0xE100, &[0x18, 0xFE]);
    let c = Cpu { sp: 0x7000, pc: 0x8000, i: 0xBE, im: 2, iff: true, ..Cpu::default() };
    let mut chunks = vec![(b"Z80R", z80r(&c, 1000, Z80R_HALTED))];
    chunks.extend(ramp48(&ram));
    load_szx(&mut e, szx(SZX_48K, &chunks)).unwrap();
    frame(&mut e);
    frame(&mut e);
    assert_eq!(peek16(&e, 0x6FFE), 0x8001, "return address of the interrupt which ends the HALT");
}
