//! C18: samples must be finite and bounded and the tone frequency f_clk/(16*TP) at every sample
//! rate 8..384 kHz.  Exploration of the x += step accumulator at rates below f_clk/64.
use aym::{AyMode, AymBackend, AymPrecise, SoundChip};

fn run(rate: usize) -> (f64, usize) {
    let mut ay = AymPrecise::new(SoundChip::AY, AyMode::Mono, 1_773_400, rate);
    // tone A period 100 -> 1108 Hz, volume 15, only tone A enabled
    ay.write_register(0, 100);
    ay.write_register(1, 0);
    ay.write_register(7, 0b0011_1110);
    ay.write_register(8, 15);
    let mut max = 0f64;
    let mut crossings = 0;
    let mut prev = 0f64;
    let mean = 0.25;
    for i in 0..rate {
        let s = ay.next_sample().left;
        if i > rate / 10 {
            max = max.max(s.abs());
            if (prev < mean) != (s < mean) {
                crossings += 1;
            }
        }
        prev = s;
    }
    (max, crossings)
}

#[test]
fn low_sample_rates_stay_bounded_and_in_tune() {
    for rate in [8000usize, 11025, 16000, 22050, 32000, 44100, 48000] {
        let (max, crossings) = run(rate);
        eprintln!("rate {rate}: max |sample| = {max:.3e}, level crossings in 0.9 s = {crossings} (expected ~ 2*1108*0.9 = 1995)");
    }
    let (max, _) = run(8000);
    assert!(max <= 1.5, "8000 Hz: samples must stay bounded, max |sample| = {max:e}");
}
