#!/usr/bin/env python3
"""Driver for the solver-based (Kani/CBMC) checks of rustzx.

    run.py check <ID> [--tier quick|thorough] [--jobs N] [--keep]
    run.py replay <replay.json>
    run.py list [<ID>]
    run.py selftest

Exit codes of `check`: 0 property held on everything explored (KNOWN-FINDING
lines may be printed), 1 violation (VIOLATION line printed, replay written),
2 inconclusive (build failure, timeout, out of memory, unwinding assertion,
vacuous harness, non-reproducing counterexample).
"""
import sys, os
sys.path.insert(0, os.path.join(os.path.dirname(os.path.abspath(__file__)), 'engine'))
import driver

if __name__ == '__main__':
    sys.exit(driver.main(sys.argv[1:]))
